(* modelrun: reads "prop<TAB>id<TAB>input-sexp<TAB>obs-sexp" lines, evaluates the
   extracted Coq entry point, prints "id<TAB>decoded agree oracle_impl oracle_model<TAB>model-obs<TAB>branch".
   Atoms: decimal integer (possibly negative) -> VI ; xHEX -> VB ; ( ... ) -> VL. *)
type ostring = string
open Model

let rec pos_of_int (n : int) : positive =
  if n = 1 then XH else if n land 1 = 0 then XO (pos_of_int (n lsr 1)) else XI (pos_of_int (n lsr 1))
let n_of_int n = if n = 0 then N0 else Npos (pos_of_int n)
let rec int_of_pos = function XH -> 1 | XO p -> 2 * int_of_pos p | XI p -> 2 * int_of_pos p + 1
let int_of_n = function N0 -> 0 | Npos p -> int_of_pos p

(* decimal string <-> Z without overflow: Horner on Coq Z *)
let z_of_small n = if n = 0 then Z0 else if n > 0 then Zpos (pos_of_int n) else Zneg (pos_of_int (-n))
let z_ten = z_of_small 10
let z_of_string (s : ostring) : z =
  let neg = String.length s > 0 && s.[0] = '-' in
  let start = if neg then 1 else 0 in
  let acc = ref Z0 in
  for i = start to String.length s - 1 do
    let d = Char.code s.[i] - 48 in
    if d < 0 || d > 9 then failwith ("bad int " ^ s);
    acc := Z.add (Z.mul !acc z_ten) (z_of_small d)
  done;
  if neg then Z.opp !acc else !acc

let string_of_z (x : z) : ostring =
  (* repeated division by 10 on Coq Z *)
  let neg, a = match x with Zneg p -> true, Zpos p | _ -> false, x in
  if a = Z0 then "0" else begin
    let buf = Buffer.create 16 in
    let cur = ref a in
    while !cur <> Z0 do
      let (q, r) = Z.div_eucl !cur z_ten in
      let d = match r with Z0 -> 0 | Zpos p -> int_of_pos p | Zneg _ -> 0 in
      Buffer.add_char buf (Char.chr (48 + d));
      cur := q
    done;
    let s = Buffer.contents buf in
    let n = String.length s in
    let r = String.init n (fun i -> s.[n - 1 - i]) in
    if neg then "-" ^ r else r
  end

let hexval c = match c with
  | '0'..'9' -> Char.code c - 48 | 'a'..'f' -> Char.code c - 87 | 'A'..'F' -> Char.code c - 55
  | _ -> failwith "bad hex"

let parse (s : ostring) : v =
  let n = String.length s in
  let pos = ref 0 in
  let rec skip () = if !pos < n && (s.[!pos] = ' ') then (incr pos; skip ()) in
  let rec value () : v =
    skip ();
    if !pos >= n then failwith "eof";
    match s.[!pos] with
    | '(' ->
      incr pos;
      let items = ref [] in
      let rec loop () =
        skip ();
        if !pos >= n then failwith "unclosed";
        if s.[!pos] = ')' then incr pos else (items := value () :: !items; loop ()) in
      loop (); VL (List.rev !items)
    | 'x' ->
      incr pos;
      let st = !pos in
      while !pos < n && s.[!pos] <> ' ' && s.[!pos] <> ')' && s.[!pos] <> '(' do incr pos done;
      let h = String.sub s st (!pos - st) in
      let l = String.length h / 2 in
      let rec build i acc = if i < 0 then acc else
          build (i - 1) (n_of_int (hexval h.[2*i] * 16 + hexval h.[2*i+1]) :: acc) in
      VB (build (l - 1) [])
    | _ ->
      let st = !pos in
      while !pos < n && s.[!pos] <> ' ' && s.[!pos] <> ')' && s.[!pos] <> '(' do incr pos done;
      VI (z_of_string (String.sub s st (!pos - st)))
  in
  value ()

let rec print (b : Buffer.t) (x : v) : unit =
  match x with
  | VI z -> Buffer.add_string b (string_of_z z)
  | VB l -> Buffer.add_char b 'x';
    List.iter (fun c -> Buffer.add_string b (Printf.sprintf "%02x" (int_of_n c))) l
  | VL l -> Buffer.add_char b '(';
    List.iteri (fun i y -> if i > 0 then Buffer.add_char b ' '; print b y) l;
    Buffer.add_char b ')'

let show x = let b = Buffer.create 64 in print b x; Buffer.contents b
let bit b = if b then "1" else "0"

let () =
  try
    while true do
      let line = input_line stdin in
      match String.split_on_char '\t' line with
      | [p; id; inp; obs] ->
        (try
           let r = check_prop (z_of_string p) (parse inp) (parse obs) in
           Printf.printf "%s\t%s %s %s %s\t%s\t%s\n" id
             (bit r.v_decoded) (bit r.v_agree) (bit r.v_oracle_impl) (bit r.v_oracle_model)
             (show r.v_model_obs) (show r.v_branch)
         with Failure m -> Printf.printf "%s\tPARSE-ERROR %s\n" id m)
      | _ -> Printf.printf "?\tBAD-LINE\n"
    done
  with End_of_file -> ()
