module verif/harness

go 1.24

require (
	github.com/hashicorp/go-hclog v0.14.1
	github.com/hashicorp/go-plugin v0.0.0
	github.com/hashicorp/yamux v0.1.1
	google.golang.org/grpc v1.58.3
	google.golang.org/protobuf v1.36.1
)

require (
	github.com/fatih/color v1.7.0 // indirect
	github.com/golang/protobuf v1.5.3 // indirect
	github.com/mattn/go-colorable v0.1.4 // indirect
	github.com/mattn/go-isatty v0.0.17 // indirect
	github.com/oklog/run v1.0.0 // indirect
	golang.org/x/net v0.37.0 // indirect
	golang.org/x/sys v0.31.0 // indirect
	golang.org/x/text v0.23.0 // indirect
	google.golang.org/genproto/googleapis/rpc v0.0.0-20230711160842-782d3b101e98 // indirect
)

replace github.com/hashicorp/go-plugin => /repo
