package main

// Lock-discipline extraction for C20: for every struct of the package that has a mutex, every access
// (read or write) to one of its MUTABLE fields made through a method receiver or a parameter of that
// struct type, together with the locks syntactically held at that point.  A field is mutable when some
// method or function writes it after construction.  The analysis is syntactic and per function, with
// one inter-procedural step: an unexported function all of whose call sites hold a lock is entered
// with that lock held (fixpoint).
//
// What it does not see: accesses through other aliases (a local copy of the pointer under another
// name is followed only when it is a receiver or parameter), accesses from other packages, and
// happens-before edges that are not locks (goroutine creation, channel operations) -- those are the
// explicit hbExceptions below, each with its reason.

import (
	"fmt"
	"go/ast"
	"go/token"
	"sort"
	"strings"
)

type structInfo struct {
	name     string
	fields   map[string]string // field -> type string
	locks    map[string]bool   // lock names: field name, or "" for an embedded mutex
	file     string
	embedded bool
}

type accessRow struct {
	strct, field, fn string
	write, atomic    bool
	once             bool
	async            bool // inside a goroutine body or a callback that runs later: the function's entry locks do not apply
	held             map[string]bool
	pos              token.Pos
}

type callSite struct {
	callee string // "S.M" or "f"
	held   map[string]bool
	caller string
	async  bool // go statement, method value, or a call made inside a goroutine body
}

type closeRow struct {
	file, fn, ch, guard string
}

// acquisition of a lock inside a function, with the locks syntactically held at that point
type acqRow struct {
	fn    string
	lock  string
	held  map[string]bool
	async bool
}

func typeString(e ast.Expr) string {
	switch x := e.(type) {
	case *ast.StarExpr:
		return "*" + typeString(x.X)
	case *ast.SelectorExpr:
		return typeString(x.X) + "." + x.Sel.Name
	case *ast.Ident:
		return x.Name
	case *ast.ArrayType:
		return "[]" + typeString(x.Elt)
	case *ast.MapType:
		return "map[" + typeString(x.Key) + "]" + typeString(x.Value)
	case *ast.ChanType:
		return "chan " + typeString(x.Value)
	case *ast.FuncType:
		return "func"
	case *ast.InterfaceType:
		return "interface"
	}
	return "?"
}

func isSyncType(t string) bool {
	t = strings.TrimPrefix(t, "*")
	return t == "sync.Mutex" || t == "sync.RWMutex" || t == "sync.Once" || t == "sync.WaitGroup"
}

func copyHeld(h map[string]bool) map[string]bool {
	c := map[string]bool{}
	for k, v := range h {
		if v {
			c[k] = true
		}
	}
	return c
}

type lockAnalysis struct {
	structs  map[string]*structInfo
	funcs    map[string]*ast.FuncDecl // "S.M" or "f"
	funcFile map[string]string
	access   []accessRow
	calls    []callSite
	closes   []closeRow
	acqs     []acqRow
}

func funcKey(fd *ast.FuncDecl) string {
	if r := recvName(fd); r != "" {
		return r + "." + fd.Name.Name
	}
	return fd.Name.Name
}

func (la *lockAnalysis) collect(rel string, f *ast.File) {
	for _, d := range f.Decls {
		switch x := d.(type) {
		case *ast.GenDecl:
			for _, sp := range x.Specs {
				ts, ok := sp.(*ast.TypeSpec)
				if !ok {
					continue
				}
				st, ok := ts.Type.(*ast.StructType)
				if !ok {
					continue
				}
				si := &structInfo{name: ts.Name.Name, fields: map[string]string{}, locks: map[string]bool{}, file: rel}
				for _, fl := range st.Fields.List {
					t := typeString(fl.Type)
					if len(fl.Names) == 0 {
						if t == "sync.Mutex" || t == "sync.RWMutex" {
							si.locks[""] = true
						}
						continue
					}
					for _, n := range fl.Names {
						si.fields[n.Name] = t
						if t == "sync.Mutex" || t == "sync.RWMutex" {
							si.locks[n.Name] = true
						}
					}
				}
				la.structs[si.name] = si
			}
		case *ast.FuncDecl:
			if x.Body != nil {
				la.funcs[funcKey(x)] = x
				la.funcFile[funcKey(x)] = rel
			}
		}
	}
}

type walker struct {
	la       *lockAnalysis
	fn       string
	file     string
	roots    map[string]string // ident -> struct name
	deferred map[string]bool   // locks whose Unlock is deferred
	onceDo   int               // depth inside X.Do(func(){...})
	afterDo  bool              // a sync.Once Do of a root has completed earlier in this function
	async    int               // depth inside goroutine bodies
}

// lockOf resolves X in X.Lock(): returns lock name ("S:field" / "S:") or "".
func (w *walker) lockOf(x ast.Expr) string {
	switch e := x.(type) {
	case *ast.Ident:
		if s, ok := w.roots[e.Name]; ok && w.la.structs[s].locks[""] {
			return s + ":"
		}
	case *ast.SelectorExpr:
		if id, ok := e.X.(*ast.Ident); ok {
			if s, ok := w.roots[id.Name]; ok && w.la.structs[s].locks[e.Sel.Name] {
				return s + ":" + e.Sel.Name
			}
		}
	}
	return ""
}

func (w *walker) lockCall(s ast.Stmt) (lock string, acquire bool, ok bool) {
	es, isE := s.(*ast.ExprStmt)
	if !isE {
		return "", false, false
	}
	return w.lockCallExpr(es.X)
}

func (w *walker) lockCallExpr(e ast.Expr) (lock string, acquire bool, ok bool) {
	ce, isC := e.(*ast.CallExpr)
	if !isC {
		return "", false, false
	}
	se, isS := ce.Fun.(*ast.SelectorExpr)
	if !isS {
		return "", false, false
	}
	switch se.Sel.Name {
	case "Lock", "RLock":
		if l := w.lockOf(se.X); l != "" {
			return l, true, true
		}
	case "Unlock", "RUnlock":
		if l := w.lockOf(se.X); l != "" {
			return l, false, true
		}
	}
	return "", false, false
}

func (w *walker) rootField(e ast.Expr) (string, string, bool) {
	se, ok := e.(*ast.SelectorExpr)
	if !ok {
		return "", "", false
	}
	id, ok := se.X.(*ast.Ident)
	if !ok {
		return "", "", false
	}
	s, ok := w.roots[id.Name]
	if !ok {
		return "", "", false
	}
	if _, isField := w.la.structs[s].fields[se.Sel.Name]; !isField {
		return "", "", false
	}
	return s, se.Sel.Name, true
}

func (w *walker) record(s, f string, write, atomic bool, held map[string]bool, pos token.Pos) {
	if isSyncType(w.la.structs[s].fields[f]) {
		return
	}
	w.la.access = append(w.la.access, accessRow{strct: s, field: f, fn: w.fn, write: write, atomic: atomic, once: (write && w.onceDo > 0) || (!write && w.afterDo), async: w.async > 0, held: copyHeld(held), pos: pos})
}

// lhsTarget: the root field written by an assignment to e (r.F = , r.F[k] = , *r.F = ).
func (w *walker) lhsTarget(e ast.Expr) (string, string, bool) {
	for {
		switch x := e.(type) {
		case *ast.ParenExpr:
			e = x.X
			continue
		case *ast.IndexExpr:
			e = x.X
			continue
		case *ast.StarExpr:
			e = x.X
			continue
		}
		break
	}
	return w.rootField(e)
}

// exprs walks an expression for reads, calls and function literals.
func (w *walker) expr(e ast.Expr, held map[string]bool) {
	if e == nil {
		return
	}
	switch x := e.(type) {
	case *ast.FuncLit:
		w.block(x.Body.List, copyHeld(held))
		return
	case *ast.CallExpr:
		// atomic.Xxx(&r.F, ...)
		if fs := exprString(x.Fun); strings.HasPrefix(fs, "atomic.") && len(x.Args) > 0 {
			if ue, ok := x.Args[0].(*ast.UnaryExpr); ok && ue.Op == token.AND {
				if s, f, ok := w.rootField(ue.X); ok {
					w.record(s, f, true, true, held, ue.Pos())
					for _, a := range x.Args[1:] {
						w.expr(a, held)
					}
					return
				}
			}
		}
		if id, ok := x.Fun.(*ast.Ident); ok && id.Name == "delete" && len(x.Args) == 2 {
			if s, f, ok := w.lhsTarget(x.Args[0]); ok {
				w.record(s, f, true, false, held, x.Pos())
				w.expr(x.Args[1], held)
				return
			}
		}
		if id, ok := x.Fun.(*ast.Ident); ok && id.Name == "close" && len(x.Args) == 1 {
			g := "other"
			if w.onceDo > 0 {
				g = "once"
			}
			w.la.closes = append(w.la.closes, closeRow{file: w.file, fn: w.fn, ch: exprString(x.Args[0]), guard: g})
		}
		// call sites
		switch fx := x.Fun.(type) {
		case *ast.SelectorExpr:
			if id, ok := fx.X.(*ast.Ident); ok {
				if s, ok := w.roots[id.Name]; ok {
					if _, isField := w.la.structs[s].fields[fx.Sel.Name]; !isField {
						w.la.calls = append(w.la.calls, callSite{callee: s + "." + fx.Sel.Name, held: copyHeld(held), caller: w.fn, async: w.async > 0})
					} else {
						w.expr(fx, held)
					}
				} else {
					w.expr(fx.X, held)
				}
			} else {
				w.expr(fx.X, held)
			}
			// X.Do(func(){...}) of a sync.Once: closes inside are once-guarded
			if fx.Sel.Name == "Do" && len(x.Args) == 1 {
				if fl, ok := x.Args[0].(*ast.FuncLit); ok {
					w.onceDo++
					w.block(fl.Body.List, copyHeld(held))
					w.onceDo--
					if w.onceDo == 0 {
						w.afterDo = true
					}
					return
				}
			}
		case *ast.Ident:
			if _, ok := w.la.funcs[fx.Name]; ok {
				w.la.calls = append(w.la.calls, callSite{callee: fx.Name, held: copyHeld(held), caller: w.fn, async: w.async > 0})
			}
		default:
			w.expr(x.Fun, held)
		}
		for _, a := range x.Args {
			w.expr(a, held)
		}
		return
	case *ast.SelectorExpr:
		if s, f, ok := w.rootField(x); ok {
			w.record(s, f, false, false, held, x.Pos())
			return
		}
		// a method value r.M used as a callback: a call site with nothing held
		if id, ok := x.X.(*ast.Ident); ok {
			if s, ok := w.roots[id.Name]; ok {
				w.la.calls = append(w.la.calls, callSite{callee: s + "." + x.Sel.Name, held: map[string]bool{}, caller: w.fn, async: true})
				return
			}
		}
		w.expr(x.X, held)
		return
	case *ast.UnaryExpr:
		w.expr(x.X, held)
	case *ast.BinaryExpr:
		w.expr(x.X, held)
		w.expr(x.Y, held)
	case *ast.ParenExpr:
		w.expr(x.X, held)
	case *ast.StarExpr:
		w.expr(x.X, held)
	case *ast.IndexExpr:
		w.expr(x.X, held)
		w.expr(x.Index, held)
	case *ast.SliceExpr:
		w.expr(x.X, held)
		w.expr(x.Low, held)
		w.expr(x.High, held)
	case *ast.TypeAssertExpr:
		w.expr(x.X, held)
	case *ast.KeyValueExpr:
		w.expr(x.Value, held)
	case *ast.CompositeLit:
		for _, el := range x.Elts {
			w.expr(el, held)
		}
	}
}

func (w *walker) block(stmts []ast.Stmt, held map[string]bool) {
	for _, s := range stmts {
		w.stmt(s, held)
	}
}

func (w *walker) stmt(s ast.Stmt, held map[string]bool) {
	if l, acq, ok := w.lockCall(s); ok {
		if acq {
			w.la.acqs = append(w.la.acqs, acqRow{fn: w.fn, lock: l, held: copyHeld(held), async: w.async > 0})
			held[l] = true
		} else {
			delete(held, l)
		}
		return
	}
	switch x := s.(type) {
	case *ast.ExprStmt:
		w.expr(x.X, held)
	case *ast.AssignStmt:
		for _, l := range x.Lhs {
			if st, f, ok := w.lhsTarget(l); ok {
				w.record(st, f, true, false, held, l.Pos())
				if ie, ok := l.(*ast.IndexExpr); ok {
					w.expr(ie.Index, held)
				}
			} else {
				w.expr(l, held)
			}
		}
		for _, r := range x.Rhs {
			w.expr(r, held)
		}
	case *ast.IncDecStmt:
		if st, f, ok := w.lhsTarget(x.X); ok {
			w.record(st, f, true, false, held, x.Pos())
		} else {
			w.expr(x.X, held)
		}
	case *ast.DeferStmt:
		if l, acq, ok := w.lockCallExpr(x.Call); ok && !acq {
			w.deferred[l] = true
			return
		}
		if fl, ok := x.Call.Fun.(*ast.FuncLit); ok {
			dh := map[string]bool{}
			for l := range w.deferred {
				if held[l] {
					dh[l] = true
				}
			}
			w.block(fl.Body.List, dh)
			for _, a := range x.Call.Args {
				w.expr(a, held)
			}
			return
		}
		w.expr(x.Call, held)
	case *ast.GoStmt:
		if fl, ok := x.Call.Fun.(*ast.FuncLit); ok {
			w.async++
			w.block(fl.Body.List, map[string]bool{})
			w.async--
			for _, a := range x.Call.Args {
				w.expr(a, held)
			}
			return
		}
		// go r.M(...): a call site with nothing held (the arguments are evaluated by the caller, but they are
		// not where the callee's accesses happen)
		w.async++
		w.expr(x.Call.Fun, map[string]bool{})
		n := len(w.la.calls)
		w.expr(x.Call, map[string]bool{})
		for i := n; i < len(w.la.calls); i++ {
			w.la.calls[i].async = true
		}
		w.async--
	case *ast.ReturnStmt:
		for _, r := range x.Results {
			w.expr(r, held)
		}
	case *ast.BlockStmt:
		w.block(x.List, copyHeld(held))
	case *ast.IfStmt:
		h := copyHeld(held)
		if x.Init != nil {
			w.stmt(x.Init, h)
		}
		w.expr(x.Cond, h)
		w.block(x.Body.List, copyHeld(h))
		if x.Else != nil {
			w.stmt(x.Else, copyHeld(h))
		}
	case *ast.ForStmt:
		h := copyHeld(held)
		if x.Init != nil {
			w.stmt(x.Init, h)
		}
		w.expr(x.Cond, h)
		if x.Post != nil {
			w.stmt(x.Post, h)
		}
		w.block(x.Body.List, h)
	case *ast.RangeStmt:
		w.expr(x.X, held)
		w.block(x.Body.List, copyHeld(held))
	case *ast.SwitchStmt:
		h := copyHeld(held)
		if x.Init != nil {
			w.stmt(x.Init, h)
		}
		w.expr(x.Tag, h)
		for _, c := range x.Body.List {
			cc := c.(*ast.CaseClause)
			for _, e := range cc.List {
				w.expr(e, h)
			}
			w.block(cc.Body, copyHeld(h))
		}
	case *ast.TypeSwitchStmt:
		h := copyHeld(held)
		if x.Init != nil {
			w.stmt(x.Init, h)
		}
		w.stmt(x.Assign, h)
		for _, c := range x.Body.List {
			w.block(c.(*ast.CaseClause).Body, copyHeld(h))
		}
	case *ast.SelectStmt:
		for _, c := range x.Body.List {
			cc := c.(*ast.CommClause)
			h := copyHeld(held)
			if cc.Comm != nil {
				w.stmt(cc.Comm, h)
			}
			w.block(cc.Body, h)
		}
	case *ast.SendStmt:
		w.expr(x.Chan, held)
		w.expr(x.Value, held)
	case *ast.DeclStmt:
		if gd, ok := x.Decl.(*ast.GenDecl); ok {
			for _, sp := range gd.Specs {
				if vs, ok := sp.(*ast.ValueSpec); ok {
					for _, v := range vs.Values {
						w.expr(v, held)
					}
				}
			}
		}
	case *ast.LabeledStmt:
		w.stmt(x.Stmt, held)
	}
}

// hbExceptions: accesses that are ordered by something other than a lock.  key: "Struct.field@func".
var hbExceptions = map[string]string{
	"Client.ctxCancel@Client.Start":                      "read by the wait goroutine that the same Start call creates after the write (go statement)",
	"Client.ctxCancel@Client.reattach":                   "as Client.ctxCancel@Client.Start (the goroutine reattach creates)",
	"Client.doneCtx@Client.Kill":                         "Kill has seen a non-nil runner under c.l; Start sets doneCtx before runner while holding c.l",
	"Client.negotiatedVersion@Client.NegotiatedVersion":  "documented as valid only after Start has returned",
	"Client.protocol@Client.Protocol":                    "read after the caller's own successful Start(); written only by the one Start that succeeds",
	"Client.address@Client.dialer":                       "dialer runs on connections of the protocol client, which Client() creates under c.l after the Start that wrote address; a started client never writes it again",
	"Client.protocol@Client.dialer":                      "as Client.address@Client.dialer",
	"Client.protocol@Client.getGRPCMuxer":                "called from dialer and newGRPCClient: as Client.address@Client.dialer",
	"GRPCServerMuxer.sess@GRPCServerMuxer.acceptSession": "written before sessionErrCh is closed",
	"GRPCServerMuxer.sess@GRPCServerMuxer.session":       "read after receiving from sessionErrCh (closed after the write)",
}

// initFuncs run on one goroutine before the value is shared (ServerProtocol.Init is called by Serve before it starts
// any goroutine that uses the server): their writes do not make a field mutable.
var initFuncs = map[string]bool{"GRPCServer.Init": true, "RPCServer.Init": true}

func runLockAnalysis(repo string, rels []string) *lockAnalysis {
	la := &lockAnalysis{structs: map[string]*structInfo{}, funcs: map[string]*ast.FuncDecl{}, funcFile: map[string]string{}}
	for _, rel := range rels {
		if f := load(repo, rel); f != nil {
			la.collect(rel, f)
		}
	}
	keys := make([]string, 0, len(la.funcs))
	for k := range la.funcs {
		keys = append(keys, k)
	}
	sort.Strings(keys)
	for _, k := range keys {
		fd := la.funcs[k]
		w := &walker{la: la, fn: k, file: la.funcFile[k], roots: map[string]string{}, deferred: map[string]bool{}}
		add := func(fl *ast.FieldList) {
			if fl == nil {
				return
			}
			for _, p := range fl.List {
				t := strings.TrimPrefix(typeString(p.Type), "*")
				if _, ok := la.structs[t]; ok {
					for _, n := range p.Names {
						w.roots[n.Name] = t
					}
				}
			}
		}
		add(fd.Recv)
		add(fd.Type.Params)
		w.block(fd.Body.List, map[string]bool{})
	}
	return la
}

// entryHeld: locks held on entry of unexported functions, by fixpoint over the call sites.
func (la *lockAnalysis) entryHeld() map[string]map[string]bool {
	all := map[string]bool{}
	for _, s := range la.structs {
		for l := range s.locks {
			all[s.name+":"+l] = true
		}
	}
	exported := func(k string) bool {
		n := k
		if i := strings.Index(k, "."); i >= 0 {
			n = k[i+1:]
		}
		return ast.IsExported(n)
	}
	sites := map[string][]callSite{}
	for _, c := range la.calls {
		sites[c.callee] = append(sites[c.callee], c)
	}
	eh := map[string]map[string]bool{}
	for k := range la.funcs {
		if exported(k) || len(sites[k]) == 0 {
			eh[k] = map[string]bool{}
		} else {
			eh[k] = copyHeld(all)
		}
	}
	for changed := true; changed; {
		changed = false
		for k := range la.funcs {
			if exported(k) || len(sites[k]) == 0 {
				continue
			}
			inter := copyHeld(all)
			for _, c := range sites[k] {
				for l := range inter {
					if !(c.held[l] || (!c.async && eh[c.caller][l])) {
						delete(inter, l)
					}
				}
			}
			if len(inter) != len(eh[k]) {
				eh[k] = inter
				changed = true
			}
		}
	}
	return eh
}

type tableRow struct {
	strct, field, fn string
	write            bool
	guard            string // lock:<S:f> | atomic | hb | none
}

func (la *lockAnalysis) table() []tableRow {
	eh := la.entryHeld()
	effective := func(a accessRow) map[string]bool {
		held := copyHeld(a.held)
		if !a.async {
			for l := range eh[a.fn] {
				held[l] = true
			}
		}
		return held
	}
	special := func(a accessRow) string {
		if a.atomic {
			return "atomic"
		}
		if a.once {
			return "once"
		}
		if _, ok := hbExceptions[a.strct+"."+a.field+"@"+a.fn]; ok {
			return "hb"
		}
		return ""
	}
	mutable := map[string]bool{}
	var kept []accessRow
	for _, a := range la.access {
		if !initFuncs[a.fn] {
			kept = append(kept, a)
		}
	}
	la.access = kept
	// the lock of a field: one of the struct's own locks held at every write that is not otherwise ordered
	fieldLocks := map[string]map[string]bool{}
	for _, a := range la.access {
		if !a.write {
			continue
		}
		k := a.strct + "." + a.field
		mutable[k] = true
		if special(a) != "" {
			continue
		}
		own := map[string]bool{}
		for l := range effective(a) {
			if strings.HasPrefix(l, a.strct+":") {
				own[l] = true
			}
		}
		if cur, ok := fieldLocks[k]; !ok {
			fieldLocks[k] = own
		} else {
			for l := range cur {
				if !own[l] {
					delete(cur, l)
				}
			}
		}
	}
	fieldLock := map[string]string{}
	for k, ls := range fieldLocks {
		var names []string
		for l := range ls {
			names = append(names, l)
		}
		// prefer the shortest name (the struct's main mutex: "S:" or "S:l") when several are held at every write
		sort.Slice(names, func(i, j int) bool {
			if len(names[i]) != len(names[j]) {
				return len(names[i]) < len(names[j])
			}
			return names[i] < names[j]
		})
		if len(names) > 0 {
			fieldLock[k] = names[0]
		}
	}
	seen := map[string]bool{}
	var rows []tableRow
	for _, a := range la.access {
		k := a.strct + "." + a.field
		if !mutable[k] || len(la.structs[a.strct].locks) == 0 {
			continue
		}
		g := special(a)
		if g == "" || g == "hb" {
			if l := fieldLock[k]; l != "" && effective(a)[l] {
				g = "lock:" + l
			} else if g == "" {
				g = "none"
			}
		}
		r := tableRow{a.strct, a.field, a.fn, a.write, g}
		key := fmt.Sprintf("%v", r)
		if !seen[key] {
			seen[key] = true
			rows = append(rows, r)
		}
	}
	sort.Slice(rows, func(i, j int) bool {
		a, b := rows[i], rows[j]
		if a.strct != b.strct {
			return a.strct < b.strct
		}
		if a.field != b.field {
			return a.field < b.field
		}
		if a.fn != b.fn {
			return a.fn < b.fn
		}
		if a.write != b.write {
			return !a.write
		}
		return a.guard < b.guard
	})
	return rows
}

// lockOrder: every pair (h, l) such that some goroutine may try to acquire l while holding h -- directly, or by calling
// (synchronously) a function that acquires l, transitively.  Locks are identified per struct type and field.
func (la *lockAnalysis) lockOrder() [][2]string {
	eh := la.entryHeld()
	// locks a function acquires itself or through its synchronous callees
	acq := map[string]map[string]bool{}
	for k := range la.funcs {
		acq[k] = map[string]bool{}
	}
	for _, a := range la.acqs {
		acq[a.fn][a.lock] = true
	}
	for changed := true; changed; {
		changed = false
		for _, c := range la.calls {
			if c.async || acq[c.callee] == nil {
				continue
			}
			for l := range acq[c.callee] {
				if !acq[c.caller][l] {
					acq[c.caller][l] = true
					changed = true
				}
			}
		}
	}
	set := map[[2]string]bool{}
	for _, a := range la.acqs {
		held := copyHeld(a.held)
		if !a.async {
			for l := range eh[a.fn] {
				held[l] = true
			}
		}
		for h := range held {
			set[[2]string{h, a.lock}] = true
		}
	}
	for _, c := range la.calls {
		if c.async || acq[c.callee] == nil {
			continue
		}
		held := copyHeld(c.held)
		for l := range eh[c.caller] {
			held[l] = true
		}
		for h := range held {
			for l := range acq[c.callee] {
				// the callee entered with h held does not re-acquire it (entry-held locks are its caller's)
				if h == l && eh[c.callee][l] {
					continue
				}
				set[[2]string{h, l}] = true
			}
		}
	}
	var out [][2]string
	for e := range set {
		out = append(out, e)
	}
	sort.Slice(out, func(i, j int) bool {
		if out[i][0] != out[j][0] {
			return out[i][0] < out[j][0]
		}
		return out[i][1] < out[j][1]
	})
	return out
}

// lockRanks: a topological numbering of the locks compatible with the edges (the certificate Coq checks), or nil when the
// edges have a cycle.
func lockRanks(edges [][2]string, locks []string) map[string]int {
	indeg := map[string]int{}
	for _, l := range locks {
		indeg[l] = 0
	}
	for _, e := range edges {
		if _, ok := indeg[e[0]]; !ok {
			indeg[e[0]] = 0
		}
		indeg[e[1]]++
	}
	rank := map[string]int{}
	for n := 0; len(rank) < len(indeg); n++ {
		var ready []string
		for l, d := range indeg {
			if _, done := rank[l]; !done && d == 0 {
				ready = append(ready, l)
			}
		}
		if len(ready) == 0 {
			return nil // cycle
		}
		sort.Strings(ready)
		for _, l := range ready {
			rank[l] = n
		}
		for _, e := range edges {
			if _, done := rank[e[0]]; done {
				if r, ok := rank[e[0]]; ok && r == n {
					indeg[e[1]]--
				}
			}
		}
	}
	return rank
}
