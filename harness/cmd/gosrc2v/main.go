// gosrc2v: the translator half of the model/code tie.  It parses the anchored Go files of the
// go-plugin working tree with go/ast and prints Generated.v: the constants and the
// synchronisation-shape facts the Coq theorems are instantiated at.  It is a fact extractor, not
// a Go-to-Gallina compiler.  It fails (exit 1) when a pattern it extracts from is gone, which the
// check reports as a broken tie.
package main

import (
	"flag"
	"fmt"
	"go/ast"
	"go/constant"
	"go/parser"
	"go/token"
	"go/types"
	"os"
	"path/filepath"
	"sort"
	"strconv"
	"strings"
)

var fset = token.NewFileSet()
var files = map[string]*ast.File{}
var failures []string

func fail(f string, a ...interface{}) { failures = append(failures, fmt.Sprintf(f, a...)) }

func load(repo, rel string) *ast.File {
	if f, ok := files[rel]; ok {
		return f
	}
	f, err := parser.ParseFile(fset, filepath.Join(repo, rel), nil, parser.ParseComments)
	if err != nil {
		fail("parse %s: %v", rel, err)
		return nil
	}
	files[rel] = f
	return f
}

func recvName(fd *ast.FuncDecl) string {
	if fd.Recv == nil || len(fd.Recv.List) == 0 {
		return ""
	}
	t := fd.Recv.List[0].Type
	if s, ok := t.(*ast.StarExpr); ok {
		t = s.X
	}
	if id, ok := t.(*ast.Ident); ok {
		return id.Name
	}
	return ""
}

func findFunc(f *ast.File, recv, name string) *ast.FuncDecl {
	if f == nil {
		return nil
	}
	for _, d := range f.Decls {
		if fd, ok := d.(*ast.FuncDecl); ok && fd.Name.Name == name && recvName(fd) == recv {
			return fd
		}
	}
	return nil
}

// evalInt evaluates a constant integer expression made of literals, * + - and parentheses.
func evalInt(e ast.Expr) (int64, bool) {
	tv, err := types.Eval(fset, nil, token.NoPos, exprString(e))
	if err != nil || tv.Value == nil {
		return 0, false
	}
	v, ok := constant.Int64Val(constant.ToInt(tv.Value))
	return v, ok
}

func exprString(e ast.Expr) string {
	var b strings.Builder
	var w func(e ast.Expr)
	w = func(e ast.Expr) {
		switch x := e.(type) {
		case *ast.BasicLit:
			b.WriteString(x.Value)
		case *ast.BinaryExpr:
			b.WriteString("(")
			w(x.X)
			b.WriteString(x.Op.String())
			w(x.Y)
			b.WriteString(")")
		case *ast.ParenExpr:
			w(x.X)
		case *ast.Ident:
			b.WriteString(x.Name)
		case *ast.SelectorExpr:
			w(x.X)
			b.WriteString(".")
			b.WriteString(x.Sel.Name)
		case *ast.CallExpr:
			w(x.Fun)
			b.WriteString("(")
			for i, a := range x.Args {
				if i > 0 {
					b.WriteString(",")
				}
				w(a)
			}
			b.WriteString(")")
		case *ast.IndexExpr:
			w(x.X)
			b.WriteString("[")
			w(x.Index)
			b.WriteString("]")
		case *ast.StarExpr:
			b.WriteString("*")
			w(x.X)
		case *ast.UnaryExpr:
			b.WriteString(x.Op.String())
			w(x.X)
		default:
			b.WriteString("?")
		}
	}
	w(e)
	return b.String()
}

func constInt(f *ast.File, name string) (int64, bool) {
	if f == nil {
		return 0, false
	}
	for _, d := range f.Decls {
		gd, ok := d.(*ast.GenDecl)
		if !ok || gd.Tok != token.CONST {
			continue
		}
		for _, s := range gd.Specs {
			vs := s.(*ast.ValueSpec)
			for i, n := range vs.Names {
				if n.Name == name && i < len(vs.Values) {
					return evalInt(vs.Values[i])
				}
			}
		}
	}
	return 0, false
}

func constString(f *ast.File, name string) (string, bool) {
	if f == nil {
		return "", false
	}
	for _, d := range f.Decls {
		gd, ok := d.(*ast.GenDecl)
		if !ok || gd.Tok != token.CONST {
			continue
		}
		for _, s := range gd.Specs {
			vs := s.(*ast.ValueSpec)
			for i, n := range vs.Names {
				if n.Name == name && i < len(vs.Values) {
					if bl, ok := vs.Values[i].(*ast.BasicLit); ok && bl.Kind == token.STRING {
						v, err := strconv.Unquote(bl.Value)
						return v, err == nil
					}
				}
			}
		}
	}
	return "", false
}

// timers returns the seconds of every time.After(k * time.Second) in fn, in source order.
func timers(fn ast.Node) []int64 {
	var out []int64
	if fn == nil {
		return out
	}
	ast.Inspect(fn, func(n ast.Node) bool {
		ce, ok := n.(*ast.CallExpr)
		if !ok {
			return true
		}
		if exprString(ce.Fun) == "time.After" && len(ce.Args) == 1 {
			if be, ok := ce.Args[0].(*ast.BinaryExpr); ok && be.Op == token.MUL && exprString(be.Y) == "time.Second" {
				if v, ok := evalInt(be.X); ok {
					out = append(out, v)
				}
			}
		}
		return true
	})
	return out
}

// chanCaps returns the capacity of every make(chan ...) in fn, in source order (0 = unbuffered).
func chanCaps(fn ast.Node) []int64 {
	var out []int64
	if fn == nil {
		return out
	}
	ast.Inspect(fn, func(n ast.Node) bool {
		ce, ok := n.(*ast.CallExpr)
		if !ok {
			return true
		}
		if id, ok := ce.Fun.(*ast.Ident); ok && id.Name == "make" && len(ce.Args) >= 1 {
			if _, ok := ce.Args[0].(*ast.ChanType); ok {
				if len(ce.Args) == 1 {
					out = append(out, 0)
				} else if v, ok := evalInt(ce.Args[1]); ok {
					out = append(out, v)
				} else {
					out = append(out, -1)
				}
			}
		}
		return true
	})
	return out
}

type selInfo struct {
	ncases     int
	hasDefault bool
	hasTimer   bool
	underLock  bool
	recvs      []string
}

// selects lists the select statements of fn in source order.  underLock: some X.Lock() call
// statement precedes the select lexically in the function and no X.Unlock() call statement
// (other than deferred) lies between them.
func selects(fn *ast.FuncDecl) []selInfo {
	var out []selInfo
	if fn == nil {
		return out
	}
	type ev struct {
		pos  token.Pos
		kind string
	}
	var evs []ev
	ast.Inspect(fn, func(n ast.Node) bool {
		switch x := n.(type) {
		case *ast.DeferStmt:
			return false
		case *ast.ExprStmt:
			if ce, ok := x.X.(*ast.CallExpr); ok {
				s := exprString(ce.Fun)
				if strings.HasSuffix(s, ".Lock") {
					evs = append(evs, ev{x.Pos(), "lock"})
				} else if strings.HasSuffix(s, ".Unlock") {
					evs = append(evs, ev{x.Pos(), "unlock"})
				}
			}
		}
		return true
	})
	ast.Inspect(fn, func(n ast.Node) bool {
		ss, ok := n.(*ast.SelectStmt)
		if !ok {
			return true
		}
		var si selInfo
		for _, c := range ss.Body.List {
			cc := c.(*ast.CommClause)
			if cc.Comm == nil {
				si.hasDefault = true
				continue
			}
			si.ncases++
			s := ""
			switch st := cc.Comm.(type) {
			case *ast.ExprStmt:
				s = exprString(st.X)
			case *ast.AssignStmt:
				s = exprString(st.Rhs[0])
			case *ast.SendStmt:
				s = exprString(st.Chan) + "<-"
			}
			si.recvs = append(si.recvs, s)
			if strings.Contains(s, "time.After") {
				si.hasTimer = true
			}
		}
		depth := 0
		for _, e := range evs {
			if e.pos < ss.Pos() {
				if e.kind == "lock" {
					depth++
				} else if depth > 0 {
					depth--
				}
			}
		}
		si.underLock = depth > 0
		out = append(out, si)
		return true
	})
	return out
}

func coqBool(b bool) string {
	if b {
		return "true"
	}
	return "false"
}

func coqBytes(s string) string {
	parts := make([]string, len(s))
	for i := 0; i < len(s); i++ {
		parts[i] = strconv.Itoa(int(s[i]))
	}
	return "[" + strings.Join(parts, "; ") + "]%N"
}

func coqZList(xs []int64) string {
	parts := make([]string, len(xs))
	for i, x := range xs {
		parts[i] = fmt.Sprintf("(%d)", x)
	}
	return "[" + strings.Join(parts, "; ") + "]%Z"
}

// position helpers
func posOfCall(fn ast.Node, pred func(string) bool) token.Pos {
	var p token.Pos
	if fn == nil {
		return p
	}
	ast.Inspect(fn, func(n ast.Node) bool {
		if p != token.NoPos {
			return false
		}
		if ce, ok := n.(*ast.CallExpr); ok && pred(exprString(ce.Fun)) {
			p = ce.Pos()
			return false
		}
		return true
	})
	return p
}

var lockFiles = []string{"client.go", "mux_broker.go", "grpc_broker.go", "rpc_server.go", "rpc_client.go", "grpc_server.go", "grpc_client.go",
	"grpc_controller.go", "grpc_stdio.go", "server.go", "stream.go", "process.go", "discover.go",
	"internal/grpcmux/grpc_server_muxer.go", "internal/grpcmux/grpc_client_muxer.go", "internal/grpcmux/blocked_client_listener.go", "internal/grpcmux/blocked_server_listener.go"}

func main() {
	repo := flag.String("repo", "/repo", "go-plugin working tree")
	dumpLocks := flag.Bool("locks", false, "print the lock-discipline table and exit")
	flag.Parse()
	if *dumpLocks {
		la := runLockAnalysis(*repo, lockFiles)
		for _, r := range la.table() {
			fmt.Printf("%-22s %-18s %-40s %-5v %s\n", r.strct, r.field, r.fn, r.write, r.guard)
		}
		for _, c := range la.closes {
			fmt.Printf("close %-45s %-40s %-20s %s\n", c.file, c.fn, c.ch, c.guard)
		}
		for _, e := range la.lockOrder() {
			fmt.Printf("order %s -> %s\n", e[0], e[1])
		}
		return
	}
	var defs []string
	def := func(name, typ, val, comment string) {
		defs = append(defs, fmt.Sprintf("(* %s *)\nDefinition %s : %s := %s.", comment, name, typ, val))
	}

	client := load(*repo, "client.go")
	server := load(*repo, "server.go")
	consts := load(*repo, "constants.go")
	muxb := load(*repo, "mux_broker.go")
	grpcb := load(*repo, "grpc_broker.go")
	stdio := load(*repo, "grpc_stdio.go")
	logent := load(*repo, "log_entry.go")
	smux := load(*repo, "internal/grpcmux/grpc_server_muxer.go")
	cmux := load(*repo, "internal/grpcmux/grpc_client_muxer.go")
	bcl := load(*repo, "internal/grpcmux/blocked_client_listener.go")
	bsl := load(*repo, "internal/grpcmux/blocked_server_listener.go")
	_ = cmux

	// ---- constants
	if v, ok := constInt(server, "CoreProtocolVersion"); ok {
		def("core_protocol_version", "Z", fmt.Sprintf("(%d)%%Z", v), "server.go: const CoreProtocolVersion")
	} else {
		fail("CoreProtocolVersion constant not found in server.go")
	}
	if v, ok := constInt(client, "defaultPluginLogBufferSize"); ok {
		def("default_log_buffer", "N", fmt.Sprintf("%d%%N", v), "client.go: defaultPluginLogBufferSize")
	} else {
		fail("defaultPluginLogBufferSize not found")
	}
	for _, c := range [][2]string{{"EnvUnixSocketDir", "env_unix_socket_dir"}, {"EnvUnixSocketGroup", "env_unix_socket_group"}, {"envMultiplexGRPC", "env_multiplex_grpc"}} {
		if v, ok := constString(consts, c[0]); ok {
			def(c[1], "list N", coqBytes(v), "constants.go: "+c[0])
		} else {
			fail("constant %s not found", c[0])
		}
	}

	// ---- Client.Start: field-count and certificate-length thresholds, error check after the network switch
	start := findFunc(client, "Client", "Start")
	if start == nil {
		fail("Client.Start not found")
	} else {
		minFields, certLen := int64(-1), int64(-1)
		ast.Inspect(start, func(n ast.Node) bool {
			be, ok := n.(*ast.BinaryExpr)
			if !ok {
				return true
			}
			l := exprString(be.X)
			if l == "len(parts)" && be.Op == token.LSS && minFields < 0 {
				if v, ok := evalInt(be.Y); ok {
					minFields = v
				}
			}
			if l == "len(parts[5])" && be.Op == token.GTR {
				if v, ok := evalInt(be.Y); ok {
					certLen = v
				}
			}
			return true
		})
		if minFields < 0 {
			fail("Start: `len(parts) < k` not found")
		}
		if certLen < 0 {
			fail("Start: `len(parts[5]) > k` not found")
		}
		def("handshake_min_fields", "nat", fmt.Sprintf("%d", minFields), "client.go Start: a line with fewer fields is rejected")
		def("cert_field_min_len", "nat", fmt.Sprintf("%d", certLen), "client.go Start: a sixth field longer than this is a certificate")

		// is the error of the `switch network` checked before the protocol is recorded?
		checked := false
		ast.Inspect(start, func(n ast.Node) bool {
			var list []ast.Stmt
			switch x := n.(type) {
			case *ast.BlockStmt:
				list = x.List
			case *ast.CaseClause:
				list = x.Body
			case *ast.CommClause:
				list = x.Body
			default:
				return true
			}
			for i, st := range list {
				sw, ok := st.(*ast.SwitchStmt)
				if !ok || sw.Tag == nil || exprString(sw.Tag) != "network" {
					continue
				}
				if i+1 < len(list) {
					if is, ok := list[i+1].(*ast.IfStmt); ok && exprString(is.Cond) == "(err!=nil)" {
						checked = true
					}
				}
			}
			return true
		})
		def("start_checks_addr_error", "bool", coqBool(checked), "client.go Start: `if err != nil` directly follows the `switch network` statement")
		// launch-option exclusivity: a counter incremented once per set option among Cmd / Reattach / RunnerFunc, compared with 1
		{
			optCode := map[string]int64{"(c.config.Cmd!=nil)": 0, "(c.config.Reattach!=nil)": 1, "(c.config.RunnerFunc!=nil)": 2}
			counter := ""
			var counted []int64
			exactlyOne, secRe, muxRe := false, false, false
			var firstLaunchPos token.Pos
			ast.Inspect(start, func(n ast.Node) bool {
				if ce, ok := n.(*ast.CallExpr); ok && firstLaunchPos == 0 {
					f := exprString(ce.Fun)
					if f == "c.reattach" || f == "c.config.RunnerFunc" || f == "cmdrunner.NewCmdRunner" {
						firstLaunchPos = ce.Pos()
					}
				}
				return true
			})
			returnsErr := func(b *ast.BlockStmt) bool {
				if len(b.List) != 1 {
					return false
				}
				r, ok := b.List[0].(*ast.ReturnStmt)
				return ok && len(r.Results) == 2 && exprString(r.Results[0]) == "nil" && exprString(r.Results[1]) != "nil"
			}
			ast.Inspect(start, func(n ast.Node) bool {
				is, ok := n.(*ast.IfStmt)
				if !ok || is.Init != nil || is.Else != nil || (firstLaunchPos != 0 && is.Pos() > firstLaunchPos) {
					return true
				}
				cond := exprString(is.Cond)
				if code, ok := optCode[cond]; ok && len(is.Body.List) == 1 {
					v := ""
					switch x := is.Body.List[0].(type) {
					case *ast.AssignStmt:
						if x.Tok == token.ADD_ASSIGN && len(x.Lhs) == 1 && len(x.Rhs) == 1 && exprString(x.Rhs[0]) == "1" {
							v = exprString(x.Lhs[0])
						}
					case *ast.IncDecStmt:
						if x.Tok == token.INC {
							v = exprString(x.X)
						}
					}
					if v != "" && (counter == "" || counter == v) {
						counter = v
						counted = append(counted, code)
					}
				}
				if counter != "" && cond == "("+counter+"!=1)" && returnsErr(is.Body) {
					exactlyOne = true
				}
				if (cond == "((c.config.SecureConfig!=nil)&&(c.config.Reattach!=nil))" || cond == "((c.config.Reattach!=nil)&&(c.config.SecureConfig!=nil))") && returnsErr(is.Body) {
					secRe = true
				}
				if (cond == "(c.config.GRPCBrokerMultiplex&&(c.config.Reattach!=nil))" || cond == "((c.config.Reattach!=nil)&&c.config.GRPCBrokerMultiplex)") && returnsErr(is.Body) {
					muxRe = true
				}
				return true
			})
			def("launch_options_counted", "list Z", coqZList(counted), "client.go Start, before anything is launched or attached: the options (0 Cmd, 1 Reattach, 2 RunnerFunc) whose presence increments the exclusivity counter, in order")
			def("launch_requires_exactly_one", "bool", coqBool(exactlyOne), "client.go Start: `if <counter> != 1 { return nil, err }`")
			def("launch_rejects_secure_reattach", "bool", coqBool(secRe), "client.go Start: SecureConfig together with Reattach returns an error before anything is attached")
			def("launch_rejects_mux_reattach", "bool", coqBool(muxRe), "client.go Start: GRPCBrokerMultiplex together with Reattach returns an error before anything is attached")
		}
		{
			freshAll, any := true, false
			ast.Inspect(start, func(n ast.Node) bool {
				if ce, ok := n.(*ast.CallExpr); ok && exprString(ce.Fun) == "runner.Kill" {
					any = true
					if !(len(ce.Args) == 1 && exprString(ce.Args[0]) == "context.Background()") {
						freshAll = false
					}
				}
				return true
			})
			def("start_kill_ctx_background", "bool", coqBool(any && freshAll), "client.go Start: the clean-up's runner.Kill is handed context.Background(), not the start context (which is done after a timeout)")
		}
		// the runner is recorded on the client before runner.Start is called (so that Kill can reach a runner whose Start fails)
		var recPos, startPos token.Pos
		ast.Inspect(start, func(n ast.Node) bool {
			switch x := n.(type) {
			case *ast.AssignStmt:
				if len(x.Lhs) == 1 && len(x.Rhs) == 1 && exprString(x.Lhs[0]) == "c.runner" && exprString(x.Rhs[0]) == "runner" && recPos == 0 {
					recPos = x.Pos()
				}
			case *ast.CallExpr:
				if exprString(x.Fun) == "runner.Start" && startPos == 0 {
					startPos = x.Pos()
				}
			}
			return true
		})
		def("start_records_runner_before_start", "bool", coqBool(recPos != 0 && startPos != 0 && recPos < startPos), "client.go Start: `c.runner = runner` textually precedes the call runner.Start(...) (both in the straight-line tail of Start)")
		drains := false
		ast.Inspect(start, func(n ast.Node) bool {
			if ce, ok := n.(*ast.CallExpr); ok && exprString(ce.Fun) == "io.Copy" && len(ce.Args) == 2 {
				a := exprString(ce.Args[0])
				if (a == "io.Discard" || a == "ioutil.Discard") && strings.Contains(exprString(ce.Args[1]), "Stdout") {
					drains = true
				}
			}
			return true
		})
		def("start_drains_stdout_after_scanner", "bool", coqBool(drains), "client.go Start: the stdout goroutine discards the rest of the stream (io.Copy(io.Discard, runner.Stdout())) once the scanner stopped")
		clearsCert, clearsMux := false, false
		ast.Inspect(start, func(n ast.Node) bool {
			switch x := n.(type) {
			case *ast.BasicLit:
				if x.Kind == token.STRING && x.Value == `"PLUGIN_CLIENT_CERT="` {
					clearsCert = true
				}
			case *ast.CallExpr:
				if exprString(x.Fun) == "fmt.Sprintf" && len(x.Args) == 2 {
					if bl, ok := x.Args[0].(*ast.BasicLit); ok && bl.Value == `"%s="` && exprString(x.Args[1]) == "envMultiplexGRPC" {
						clearsMux = true
					}
				}
			}
			return true
		})
		def("start_clears_inherited_cert", "bool", coqBool(clearsCert), "client.go Start: appends PLUGIN_CLIENT_CERT= (empty) when AutoMTLS is off")
		def("start_clears_inherited_mux", "bool", coqBool(clearsMux), "client.go Start: appends PLUGIN_MULTIPLEX_GRPC= (empty) when multiplexing is off")
		def("start_timers", "list Z", coqZList(timers(start)), "client.go Start: time.After(k*time.Second) occurrences (the start timeout is config.StartTimeout, not a literal)")
	}
	// loadServerCert: nil TLSConfig guard
	lsc := findFunc(client, "Client", "loadServerCert")
	if lsc == nil {
		fail("loadServerCert not found")
	} else {
		guard := false
		ast.Inspect(lsc, func(n ast.Node) bool {
			if is, ok := n.(*ast.IfStmt); ok {
				c := exprString(is.Cond)
				if strings.Contains(c, "TLSConfig==nil") {
					guard = true
				}
			}
			return true
		})
		def("load_cert_guards_nil_tls", "bool", coqBool(guard), "client.go loadServerCert: returns an error when the client has no TLS config")
	}
	// Kill grace
	kill := findFunc(client, "Client", "Kill")
	def("kill_timers", "list Z", coqZList(timers(kill)), "client.go Kill: grace period timers (seconds)")
	if kill != nil {
		// the shape of Kill that the failed-start model (Model/StartFail.v) relies on
		earlyReturn, removesDir, forgets, forceKill := false, false, false, false
		var earlyPos, deferPos token.Pos
		ast.Inspect(kill, func(n ast.Node) bool {
			switch x := n.(type) {
			case *ast.IfStmt:
				c := exprString(x.Cond)
				if (c == "((runner==nil)||(runner.ID()==\"\"))" || c == "((runner.ID()==\"\")||(runner==nil))") && len(x.Body.List) == 1 {
					if r, ok := x.Body.List[0].(*ast.ReturnStmt); ok && len(r.Results) == 0 {
						earlyReturn = true
						earlyPos = x.Pos()
					}
				}
			case *ast.DeferStmt:
				if fl, ok := x.Call.Fun.(*ast.FuncLit); ok {
					ast.Inspect(fl.Body, func(m ast.Node) bool {
						switch y := m.(type) {
						case *ast.CallExpr:
							if exprString(y.Fun) == "os.RemoveAll" && len(y.Args) == 1 && exprString(y.Args[0]) == "hostSocketDir" {
								removesDir = true
								deferPos = x.Pos()
							}
						case *ast.AssignStmt:
							if len(y.Lhs) == 1 && exprString(y.Lhs[0]) == "c.runner" && exprString(y.Rhs[0]) == "nil" {
								forgets = true
							}
						}
						return true
					})
				}
			case *ast.CallExpr:
				if exprString(x.Fun) == "runner.Kill" {
					forceKill = true
				}
			}
			return true
		})
		def("kill_returns_without_runner_or_id", "bool", coqBool(earlyReturn), "client.go Kill: `if runner == nil || runner.ID() == \"\" { return }`")
		def("kill_defers_dir_removal", "bool", coqBool(removesDir && earlyReturn && earlyPos < deferPos), "client.go Kill: a deferred function, registered after the early return, removes the socket directory (os.RemoveAll(hostSocketDir))")
		def("kill_forgets_runner", "bool", coqBool(forgets), "client.go Kill: the deferred function sets c.runner = nil")
		def("kill_force_kills", "bool", coqBool(forceKill), "client.go Kill: runner.Kill is called on the non-graceful path")
		freshAll, any := true, false
		ast.Inspect(kill, func(n ast.Node) bool {
			if ce, ok := n.(*ast.CallExpr); ok && exprString(ce.Fun) == "runner.Kill" {
				any = true
				if !(len(ce.Args) == 1 && exprString(ce.Args[0]) == "context.Background()") {
					freshAll = false
				}
			}
			return true
		})
		def("kill_ctx_background", "bool", coqBool(any && freshAll), "client.go Kill: every runner.Kill call is handed context.Background() (a context that cannot already be done)")
	}

	// logStderr level prefixes
	ls := findFunc(client, "Client", "logStderr")
	if ls == nil {
		fail("logStderr not found")
	} else {
		var prefixes []string
		ast.Inspect(ls, func(n ast.Node) bool {
			ce, ok := n.(*ast.CallExpr)
			if ok && exprString(ce.Fun) == "strings.HasPrefix" && len(ce.Args) == 2 {
				if bl, ok := ce.Args[1].(*ast.BasicLit); ok {
					s, _ := strconv.Unquote(bl.Value)
					prefixes = append(prefixes, s)
				}
			}
			return true
		})
		ps := make([]string, len(prefixes))
		for i, p := range prefixes {
			ps[i] = coqBytes(p)
		}
		def("stderr_text_prefixes", "list (list N)", "["+strings.Join(ps, "; ")+"]", "client.go logStderr: the text prefixes tested, in order")
	}

	// parseJSON: are the string assertions comma-ok (checked)?
	pj := findFunc(logent, "", "parseJSON")
	if pj == nil {
		fail("parseJSON not found")
	} else {
		unchecked := 0
		total := 0
		ast.Inspect(pj, func(n ast.Node) bool {
			switch x := n.(type) {
			case *ast.AssignStmt:
				for _, r := range x.Rhs {
					if ta, ok := r.(*ast.TypeAssertExpr); ok && ta.Type != nil {
						total++
						if len(x.Lhs) != 2 {
							unchecked++
						}
						_ = ta
					}
				}
				return true
			case *ast.CallExpr:
				for _, a := range x.Args {
					if ta, ok := a.(*ast.TypeAssertExpr); ok && ta.Type != nil {
						total++
						unchecked++
					}
				}
			}
			return true
		})
		def("parsejson_unchecked_assertions", "nat", fmt.Sprintf("%d", unchecked), "log_entry.go parseJSON: single-value type assertions (these panic on a non-string)")
		def("parsejson_assertions", "nat", fmt.Sprintf("%d", total), "log_entry.go parseJSON: type assertions in total")
	}

	// handshake line format
	serve := findFunc(server, "", "Serve")
	if serve == nil {
		fail("Serve not found")
	} else {
		format := ""
		ast.Inspect(serve, func(n ast.Node) bool {
			ce, ok := n.(*ast.CallExpr)
			if ok && exprString(ce.Fun) == "fmt.Sprintf" && len(ce.Args) > 1 {
				if bl, ok := ce.Args[0].(*ast.BasicLit); ok && strings.Count(bl.Value, "|") >= 5 {
					format, _ = strconv.Unquote(bl.Value)
				}
			}
			return true
		})
		if format == "" {
			fail("Serve: handshake Sprintf format not found")
		}
		def("handshake_format", "list N", coqBytes(format), "server.go Serve: format of the handshake line")
		def("handshake_format_fields", "nat", fmt.Sprintf("%d", strings.Count(format, "|")+1), "number of |-separated fields in that format")
	}

	// ---- grpc stdio chunk size
	cc := findFunc(stdio, "", "copyChan")
	if cc == nil {
		fail("copyChan not found")
	} else {
		sz := int64(-1)
		ast.Inspect(cc, func(n ast.Node) bool {
			if at, ok := n.(*ast.ArrayType); ok && at.Len != nil {
				if v, ok := evalInt(at.Len); ok {
					sz = v
				}
			}
			return true
		})
		if sz < 0 {
			fail("copyChan: chunk array not found")
		}
		def("stdio_chunk", "N", fmt.Sprintf("%d%%N", sz), "grpc_stdio.go copyChan: size of the chunk array")
		def("stdio_chan_caps", "list Z", coqZList(chanCaps(findFunc(stdio, "", "newGRPCStdioServer"))), "grpc_stdio.go newGRPCStdioServer: channel capacities (0 = rendezvous)")
	}

	// ---- MuxBroker
	type fnref struct {
		f          *ast.File
		recv, name string
		key        string
	}
	fns := []fnref{
		{muxb, "MuxBroker", "Accept", "mux_accept"},
		{muxb, "MuxBroker", "Run", "mux_run"},
		{muxb, "MuxBroker", "timeoutWait", "mux_timeoutwait"},
		{muxb, "MuxBroker", "getStream", "mux_getstream"},
		{grpcb, "GRPCBroker", "DialWithOptions", "grpc_dial"},
		{grpcb, "GRPCBroker", "knock", "grpc_knock"},
		{grpcb, "GRPCBroker", "Run", "grpc_run"},
		{grpcb, "GRPCBroker", "timeoutWait", "grpc_timeoutwait"},
		{grpcb, "GRPCBroker", "listenForKnocks", "grpc_listenforknocks"},
		{grpcb, "GRPCBroker", "getClientStream", "grpc_getclientstream"},
		{grpcb, "GRPCBroker", "getServerStream", "grpc_getserverstream"},
		{smux, "GRPCServerMuxer", "Accept", "smux_accept"},
		{smux, "GRPCServerMuxer", "session", "smux_session"},
		{smux, "", "NewGRPCServerMuxer", "smux_new"},
		{bcl, "", "newBlockedClientListener", "bcl_new"},
		{bcl, "blockedClientListener", "Accept", "bcl_accept"},
		{bsl, "", "newBlockedServerListener", "bsl_new"},
		{bsl, "blockedServerListener", "Accept", "bsl_accept"},
	}
	var selRows []string
	for _, r := range fns {
		fd := findFunc(r.f, r.recv, r.name)
		if fd == nil {
			fail("function %s.%s not found", r.recv, r.name)
			continue
		}
		def(r.key+"_timers", "list Z", coqZList(timers(fd)), fmt.Sprintf("%s.%s: time.After seconds", r.recv, r.name))
		def(r.key+"_chan_caps", "list Z", coqZList(chanCaps(fd)), fmt.Sprintf("%s.%s: make(chan) capacities", r.recv, r.name))
		for i, s := range selects(fd) {
			selRows = append(selRows, fmt.Sprintf("  (%q%%string, %d%%nat, {| sel_cases := %d; sel_default := %s; sel_timer := %s; sel_under_lock := %s |})",
				r.key, i, s.ncases, coqBool(s.hasDefault), coqBool(s.hasTimer), coqBool(s.underLock)))
		}
	}
	sort.Strings(nil)
	defs = append(defs, "Record sel := { sel_cases : nat; sel_default : bool; sel_timer : bool; sel_under_lock : bool }.")
	defs = append(defs, "(* every select statement of the anchored broker/muxer functions: (function key, ordinal, shape) *)\nDefinition select_table : list (string * nat * sel) := [\n"+strings.Join(selRows, ";\n")+"\n].")

	// ---- MuxBroker.Run: does the non-blocking park close a stream it cannot park?
	if run := findFunc(muxb, "MuxBroker", "Run"); run != nil {
		closes := false
		ast.Inspect(run, func(n ast.Node) bool {
			ss, ok := n.(*ast.SelectStmt)
			if !ok {
				return true
			}
			for _, c := range ss.Body.List {
				cc := c.(*ast.CommClause)
				if cc.Comm == nil { // default branch
					for _, st := range cc.Body {
						ast.Inspect(st, func(m ast.Node) bool {
							if ce, ok := m.(*ast.CallExpr); ok && strings.HasSuffix(exprString(ce.Fun), ".Close") {
								closes = true
							}
							return true
						})
					}
				}
			}
			return true
		})
		def("mux_run_closes_dropped", "bool", coqBool(closes), "mux_broker.go Run: the default branch of the park select closes the stream")
	}

	// ---- further shape facts of the two brokers (parameters of Model/MuxBroker.v that used to be written by hand)
	{
		selectDefaultCloses := func(fd *ast.FuncDecl) bool {
			closes := false
			if fd == nil {
				return false
			}
			ast.Inspect(fd, func(n ast.Node) bool {
				ss, ok := n.(*ast.SelectStmt)
				if !ok {
					return true
				}
				for _, c := range ss.Body.List {
					cc := c.(*ast.CommClause)
					if cc.Comm == nil {
						for _, st := range cc.Body {
							ast.Inspect(st, func(m ast.Node) bool {
								if ce, ok := m.(*ast.CallExpr); ok && strings.HasSuffix(exprString(ce.Fun), ".Close") {
									closes = true
								}
								return true
							})
						}
					}
				}
				return true
			})
			return closes
		}
		// MuxBroker.Dial: a binary.Read (the ack) follows the binary.Write of the id
		waitsAck := false
		if d := findFunc(muxb, "MuxBroker", "Dial"); d != nil {
			pw := posOfCall(d, func(s string) bool { return s == "binary.Write" })
			pr := posOfCall(d, func(s string) bool { return s == "binary.Read" })
			waitsAck = pw != token.NoPos && pr != token.NoPos && pw < pr
		} else {
			fail("MuxBroker.Dial not found")
		}
		def("mux_dial_waits_ack", "bool", coqBool(waitsAck), "mux_broker.go Dial: reads the ack after writing the id")
		// MuxBroker.Accept: the timer branch of the select deletes the pending entry
		timeoutDeletes := false
		if a := findFunc(muxb, "MuxBroker", "Accept"); a != nil {
			ast.Inspect(a, func(n ast.Node) bool {
				cc, ok := n.(*ast.CommClause)
				if !ok || cc.Comm == nil {
					return true
				}
				if es, ok := cc.Comm.(*ast.ExprStmt); ok && strings.HasPrefix(exprString(es.X), "<-time.After(") {
					for _, st := range cc.Body {
						if x, ok := st.(*ast.ExprStmt); ok && strings.HasPrefix(exprString(x.X), "delete(m.streams,") {
							timeoutDeletes = true
						}
					}
				}
				return true
			})
		} else {
			fail("MuxBroker.Accept not found")
		}
		def("mux_accept_timeout_deletes", "bool", coqBool(timeoutDeletes), "mux_broker.go Accept: the timeout branch deletes the pending entry")
		// timeoutWait: on expiry takes a parked connection out of the channel and closes it
		expiryDrains := false
		if tw := findFunc(muxb, "MuxBroker", "timeoutWait"); tw != nil {
			ast.Inspect(tw, func(n ast.Node) bool {
				cc, ok := n.(*ast.CommClause)
				if !ok || cc.Comm == nil {
					return true
				}
				if as, ok := cc.Comm.(*ast.AssignStmt); ok && len(as.Rhs) == 1 && exprString(as.Rhs[0]) == "<-p.ch" {
					for _, st := range cc.Body {
						if x, ok := st.(*ast.ExprStmt); ok && strings.HasSuffix(exprString(x.X), ".Close()") {
							expiryDrains = true
						}
					}
				}
				return true
			})
		} else {
			fail("MuxBroker.timeoutWait not found")
		}
		def("mux_expiry_drains", "bool", coqBool(expiryDrains), "mux_broker.go timeoutWait: on expiry a parked connection is taken out and closed")
		def("grpc_run_closes_dropped", "bool", coqBool(selectDefaultCloses(findFunc(grpcb, "GRPCBroker", "Run"))), "grpc_broker.go Run: the default branch of the park select closes something (it does not: a dropped message is just dropped)")
		// GRPCBroker.Accept (no multiplexing): sends the connection info and returns; there is no wait for an acknowledgement
		acceptWaits := false
		if a := findFunc(grpcb, "GRPCBroker", "Accept"); a != nil {
			ps := posOfCall(a, func(s string) bool { return s == "b.streamer.Send" })
			if ps == token.NoPos {
				fail("GRPCBroker.Accept: b.streamer.Send not found")
			}
			ast.Inspect(a, func(n ast.Node) bool {
				switch x := n.(type) {
				case *ast.SelectStmt:
					if x.Pos() > ps {
						acceptWaits = true
					}
				case *ast.UnaryExpr:
					if x.Op == token.ARROW && x.Pos() > ps {
						acceptWaits = true
					}
				}
				return true
			})
		}
		def("grpc_accept_waits_ack", "bool", coqBool(acceptWaits), "grpc_broker.go Accept (no multiplexing): something is awaited after the connection info was sent")
	}

	// ---- yamux defaults (the module the working tree's go.mod resolves to): keep-alive interval and write timeout bound a stalled net/rpc request
	{
		dir := yamuxDir(*repo)
		ya := (*ast.File)(nil)
		if dir != "" {
			if f, err := parser.ParseFile(fset, filepath.Join(dir, "mux.go"), nil, 0); err == nil {
				ya = f
			}
		}
		ka, wt := int64(-1), int64(-1)
		if fd := findFunc(ya, "", "DefaultConfig"); fd != nil {
			ast.Inspect(fd, func(n ast.Node) bool {
				kv, ok := n.(*ast.KeyValueExpr)
				if !ok {
					return true
				}
				secs := func(e ast.Expr) int64 {
					be, ok := e.(*ast.BinaryExpr)
					if !ok || exprString(be.Y) != "time.Second" {
						return -1
					}
					v, ok := evalInt(be.X)
					if !ok {
						return -1
					}
					return v
				}
				switch exprString(kv.Key) {
				case "KeepAliveInterval":
					ka = secs(kv.Value)
				case "ConnectionWriteTimeout":
					wt = secs(kv.Value)
				}
				return true
			})
		}
		if ka < 0 || wt < 0 {
			fail("yamux DefaultConfig: KeepAliveInterval / ConnectionWriteTimeout not found (module dir %q)", dir)
		}
		def("yamux_keepalive_bound", "Z", fmt.Sprintf("(%d)%%Z", ka+wt), "yamux DefaultConfig: KeepAliveInterval + ConnectionWriteTimeout (seconds)")
	}

	// ---- resource release wiring (C18)
	{
		callsIn := func(fn ast.Node, name string, deferredOnly bool) bool {
			found := false
			if fn == nil {
				return false
			}
			ast.Inspect(fn, func(n ast.Node) bool {
				if deferredOnly {
					ds, ok := n.(*ast.DeferStmt)
					if !ok {
						return true
					}
					ast.Inspect(ds, func(m ast.Node) bool {
						if ce, ok := m.(*ast.CallExpr); ok && exprString(ce.Fun) == name {
							found = true
						}
						return true
					})
					return true
				}
				if ce, ok := n.(*ast.CallExpr); ok && exprString(ce.Fun) == name {
					found = true
				}
				return true
			})
			return found
		}
		def("res_serve_defers_listener_close", "bool", coqBool(callsIn(serve, "listener.Close", true)), "server.go Serve: a deferred function closes the listener")
		def("res_muxer_closes_wrapped_listener", "bool", coqBool(callsIn(findFunc(smux, "GRPCServerMuxer", "Close"), "m.ln.Close", false)), "grpc_server_muxer.go Close: closes the listener it wraps")
		def("res_accept_and_serve_closes_listener", "bool", coqBool(callsIn(findFunc(grpcb, "GRPCBroker", "AcceptAndServe"), "ln.Close", true)), "grpc_broker.go AcceptAndServe: defer ln.Close()")
		def("res_kill_removes_socket_dir", "bool", coqBool(callsIn(kill, "os.RemoveAll", false)), "client.go Kill: removes the custom runner's socket directory")
	}

	// ---- TLS wiring under AutoMTLS (C12)
	{
		tlsLit := func(fn ast.Node, key, val string) bool { // a tls.Config composite literal with key: val
			found := false
			if fn == nil {
				return false
			}
			ast.Inspect(fn, func(n ast.Node) bool {
				cl, ok := n.(*ast.CompositeLit)
				if !ok || cl.Type == nil || exprString(cl.Type) != "tls.Config" {
					return true
				}
				for _, e := range cl.Elts {
					if kv, ok := e.(*ast.KeyValueExpr); ok && exprString(kv.Key) == key && (val == "" || exprString(kv.Value) == val) {
						found = true
					}
				}
				return true
			})
			return found
		}
		assigns := func(fn ast.Node, suffix string) bool { // an assignment whose left side ends in .suffix
			found := false
			if fn == nil {
				return false
			}
			ast.Inspect(fn, func(n ast.Node) bool {
				if as, ok := n.(*ast.AssignStmt); ok {
					for _, l := range as.Lhs {
						if strings.HasSuffix(exprString(l), "."+suffix) {
							found = true
						}
					}
				}
				return true
			})
			return found
		}
		// the host config must be installed inside the `if c.config.AutoMTLS` block of Start
		atStart := false
		if start != nil {
			ast.Inspect(start, func(n ast.Node) bool {
				is, ok := n.(*ast.IfStmt)
				if !ok || exprString(is.Cond) != "c.config.AutoMTLS" {
					return true
				}
				if assigns(is.Body, "TLSConfig") && tlsLit(is.Body, "Certificates", "") {
					atStart = true
				}
				return true
			})
		}
		def("tls_host_cfg_at_start", "bool", coqBool(atStart), "client.go Start: under AutoMTLS the host's tls.Config (with its certificate) is installed before the plugin is launched")
		def("tls_host_requires_client", "bool", coqBool(tlsLit(client, "ClientAuth", "tls.RequireAndVerifyClientCert")), "client.go: the host's tls.Config literal sets ClientAuth: RequireAndVerifyClientCert")
		def("tls_host_pins_client_cas", "bool", coqBool(assigns(lsc, "ClientCAs") || tlsLit(lsc, "ClientCAs", "")), "client.go loadServerCert: pins the announced certificate as ClientCAs")
		def("tls_host_pins_root_cas", "bool", coqBool(assigns(lsc, "RootCAs") || tlsLit(lsc, "RootCAs", "")), "client.go loadServerCert: pins the announced certificate as RootCAs")
		def("tls_plugin_requires_client", "bool", coqBool(tlsLit(serve, "ClientAuth", "tls.RequireAndVerifyClientCert")), "server.go Serve: ClientAuth: RequireAndVerifyClientCert")
		def("tls_plugin_pins_client_cas", "bool", coqBool(tlsLit(serve, "ClientCAs", "clientCertPool")), "server.go Serve: ClientCAs is the pool holding the host's certificate")
		aas := findFunc(grpcb, "GRPCBroker", "AcceptAndServe")
		brokerTLS := false
		if aas != nil {
			ast.Inspect(aas, func(n ast.Node) bool {
				if ce, ok := n.(*ast.CallExpr); ok && exprString(ce.Fun) == "credentials.NewTLS" && len(ce.Args) == 1 && exprString(ce.Args[0]) == "b.tls" {
					brokerTLS = true
				}
				return true
			})
		}
		def("tls_broker_serves_with_tls", "bool", coqBool(brokerTLS), "grpc_broker.go AcceptAndServe: brokered servers get credentials.NewTLS(b.tls)")
		// every certificate pool of the package starts empty: x509.NewCertPool() is used and x509.SystemCertPool() is not
		usesNew, usesSystem := false, false
		overridesVerify := false // InsecureSkipVerify / VerifyPeerCertificate / VerifyConnection set anywhere
		ents, _ := os.ReadDir(*repo)
		for _, e := range ents {
			n := e.Name()
			if e.IsDir() || !strings.HasSuffix(n, ".go") || strings.HasSuffix(n, "_test.go") {
				continue
			}
			if f := load(*repo, n); f != nil {
				ast.Inspect(f, func(nd ast.Node) bool {
					isVerifyField := func(name string) bool {
						return name == "InsecureSkipVerify" || name == "VerifyPeerCertificate" || name == "VerifyConnection"
					}
					switch x := nd.(type) {
					case *ast.AssignStmt:
						for i, l := range x.Lhs {
							if se, ok := l.(*ast.SelectorExpr); ok && isVerifyField(se.Sel.Name) {
								if !(i < len(x.Rhs) && (exprString(x.Rhs[i]) == "false" || exprString(x.Rhs[i]) == "nil")) {
									overridesVerify = true
								}
							}
						}
					case *ast.KeyValueExpr:
						if id, ok := x.Key.(*ast.Ident); ok && isVerifyField(id.Name) && exprString(x.Value) != "false" && exprString(x.Value) != "nil" {
							overridesVerify = true
						}
					}
					if ce, ok := nd.(*ast.CallExpr); ok {
						switch exprString(ce.Fun) {
						case "x509.NewCertPool":
							usesNew = true
						case "x509.SystemCertPool":
							usesSystem = true
						}
					}
					return true
				})
			}
		}
		def("tls_pools_only_pinned", "bool", coqBool(usesNew && !usesSystem), "all non-test files of the package: certificate pools come from x509.NewCertPool(), never from x509.SystemCertPool()")
		def("tls_standard_verification", "bool", coqBool(!overridesVerify), "all non-test files of the package: no tls.Config field InsecureSkipVerify / VerifyPeerCertificate / VerifyConnection is ever set (crypto/tls's own chain verification against the pinned pools decides)")
	}

	// ---- GRPCClient.Close: is the Shutdown request bounded by context.WithTimeout(..., k*time.Second)?
	if gcl := load(*repo, "grpc_client.go"); gcl != nil {
		if cl := findFunc(gcl, "GRPCClient", "Close"); cl != nil {
			dl := int64(-1)
			ast.Inspect(cl, func(n ast.Node) bool {
				if ce, ok := n.(*ast.CallExpr); ok && exprString(ce.Fun) == "context.WithTimeout" && len(ce.Args) == 2 {
					if be, ok := ce.Args[1].(*ast.BinaryExpr); ok && be.Op == token.MUL && exprString(be.Y) == "time.Second" {
						if v, ok := evalInt(be.X); ok {
							dl = v
						}
					}
				}
				return true
			})
			// the context must actually be the one passed to Shutdown
			uses := false
			ast.Inspect(cl, func(n ast.Node) bool {
				if ce, ok := n.(*ast.CallExpr); ok && strings.HasSuffix(exprString(ce.Fun), ".Shutdown") && len(ce.Args) >= 1 {
					if id, ok := ce.Args[0].(*ast.Ident); ok && id.Name == "ctx" {
						uses = true
					}
				}
				return true
			})
			if dl >= 0 && uses {
				def("grpc_shutdown_deadline", "option Z", fmt.Sprintf("Some (%d)%%Z", dl), "grpc_client.go Close: the Shutdown request runs under context.WithTimeout of this many seconds")
			} else {
				def("grpc_shutdown_deadline", "option Z", "None", "grpc_client.go Close: the Shutdown request has no deadline of its own")
			}
		} else {
			fail("GRPCClient.Close not found")
		}
	}

	// ---- GRPCBroker.DialWithOptions: does the timeout branch of the wait delete a map entry?
	if d := findFunc(grpcb, "GRPCBroker", "DialWithOptions"); d != nil {
		deletes := false
		ast.Inspect(d, func(n ast.Node) bool {
			if ce, ok := n.(*ast.CallExpr); ok {
				if id, ok := ce.Fun.(*ast.Ident); ok && id.Name == "delete" {
					deletes = true
				}
			}
			return true
		})
		def("grpc_dial_timeout_deletes", "bool", coqBool(deletes), "grpc_broker.go DialWithOptions: contains a delete(...) of a pending entry")
	}

	// ---- GRPCBroker.Accept (mux): is the listener registered before the knock goroutine is started?
	acc := findFunc(grpcb, "GRPCBroker", "Accept")
	if acc == nil {
		fail("GRPCBroker.Accept not found")
	} else {
		pListen := posOfCall(acc, func(s string) bool { return strings.HasSuffix(s, "muxer.Listener") })
		var pGo token.Pos
		ast.Inspect(acc, func(n ast.Node) bool {
			if g, ok := n.(*ast.GoStmt); ok && pGo == token.NoPos {
				found := false
				ast.Inspect(g, func(m ast.Node) bool {
					if ce, ok := m.(*ast.CallExpr); ok && strings.HasSuffix(exprString(ce.Fun), "listenForKnocks") {
						found = true
					}
					return true
				})
				if found {
					pGo = g.Pos()
				}
			}
			return true
		})
		if pListen == token.NoPos || pGo == token.NoPos {
			fail("GRPCBroker.Accept: muxer.Listener call or listenForKnocks goroutine not found")
		}
		def("accept_registers_listener_before_knock_goroutine", "bool", coqBool(pListen < pGo), "grpc_broker.go Accept (mux): muxer.Listener(id) precedes `go listenForKnocks`")
		if lk := findFunc(grpcb, "GRPCBroker", "listenForKnocks"); lk != nil {
			pDoor := posOfCall(lk, func(s string) bool { return s == "b.muxer.AcceptKnock" })
			pAck := posOfCall(lk, func(s string) bool { return s == "b.streamer.Send" })
			if pDoor == token.NoPos || pAck == token.NoPos {
				fail("GRPCBroker.listenForKnocks: muxer.AcceptKnock or streamer.Send not found")
			}
			def("knock_opens_door_before_ack", "bool", coqBool(pDoor < pAck), "grpc_broker.go listenForKnocks: muxer.AcceptKnock(id) precedes the acknowledgement sent back to the dialler")
		} else {
			fail("GRPCBroker.listenForKnocks not found")
		}
	}

	// ---- what wakes the host's blocking waits when the plugin dies (C03)
	if start != nil {
		hasDone, hasTimeout, hasLine := false, false, false
		ast.Inspect(start, func(n ast.Node) bool {
			ss, ok := n.(*ast.SelectStmt)
			if !ok {
				return true
			}
			var d, t, l bool
			for _, c := range ss.Body.List {
				cc := c.(*ast.CommClause)
				if cc.Comm == nil {
					continue
				}
				var rx ast.Expr
				switch x := cc.Comm.(type) {
				case *ast.ExprStmt:
					rx = x.X
				case *ast.AssignStmt:
					if len(x.Rhs) == 1 {
						rx = x.Rhs[0]
					}
				}
				switch exprString(rx) {
				case "<-c.doneCtx.Done()":
					d = true
				case "<-timeout":
					t = true
				case "<-linesCh":
					l = true
				}
			}
			if l {
				hasDone, hasTimeout, hasLine = d, t, l
			}
			return true
		})
		timeoutFromConfig := false
		waitCancels, waitSetsExited, waitWaits, linesClose := false, false, false, false
		ast.Inspect(start, func(n ast.Node) bool {
			if as, ok := n.(*ast.AssignStmt); ok && len(as.Lhs) == 1 && exprString(as.Lhs[0]) == "timeout" && exprString(as.Rhs[0]) == "time.After(c.config.StartTimeout)" {
				timeoutFromConfig = true
			}
			gs, ok := n.(*ast.GoStmt)
			if !ok {
				return true
			}
			fl, ok := gs.Call.Fun.(*ast.FuncLit)
			if !ok {
				return true
			}
			var cancels, exited, waits, closes bool
			ast.Inspect(fl, func(m ast.Node) bool {
				switch x := m.(type) {
				case *ast.DeferStmt:
					if exprString(x.Call) == "c.ctxCancel()" {
						cancels = true
					}
					if exprString(x.Call) == "close(linesCh)" {
						closes = true
					}
				case *ast.AssignStmt:
					if len(x.Lhs) == 1 && exprString(x.Lhs[0]) == "c.exited" && exprString(x.Rhs[0]) == "true" {
						exited = true
					}
				case *ast.CallExpr:
					if strings.HasPrefix(exprString(x), "runner.Wait(") {
						waits = true
					}
				}
				return true
			})
			if waits {
				waitCancels, waitSetsExited, waitWaits = cancels, exited, true
			}
			if closes {
				linesClose = true
			}
			return true
		})
		if !hasLine || !waitWaits {
			fail("Client.Start: the select on linesCh or the goroutine calling runner.Wait was not found")
		}
		def("crash_start_selects_done", "bool", coqBool(hasDone), "client.go Start: the wait for the handshake line also selects on c.doneCtx.Done()")
		def("crash_start_selects_timeout", "bool", coqBool(hasTimeout && timeoutFromConfig), "client.go Start: ... and on time.After(c.config.StartTimeout)")
		def("crash_lines_closed_at_eof", "bool", coqBool(linesClose), "client.go Start: the scanner goroutine closes linesCh when stdout ends")
		def("crash_wait_cancels_ctx", "bool", coqBool(waitCancels), "client.go Start: the goroutine that waits on the process defers c.ctxCancel()")
		def("crash_wait_sets_exited", "bool", coqBool(waitSetsExited), "client.go Start: ... and sets c.exited = true")
	}
	{
		gc := load(*repo, "grpc_client.go")
		passes := false
		if fd := findFunc(gc, "GRPCClient", "Dispense"); fd != nil {
			ast.Inspect(fd, func(n ast.Node) bool {
				if ce, ok := n.(*ast.CallExpr); ok && strings.HasPrefix(exprString(ce), "p.GRPCClient(c.doneCtx,") {
					passes = true
				}
				return true
			})
		} else {
			fail("GRPCClient.Dispense not found")
		}
		ctor := false
		if fd := findFunc(gc, "", "newGRPCClient"); fd != nil {
			ast.Inspect(fd, func(n ast.Node) bool {
				if kv, ok := n.(*ast.KeyValueExpr); ok && exprString(kv.Key) == "doneCtx" && exprString(kv.Value) == "doneCtx" {
					ctor = true
				}
				return true
			})
		}
		callSite := false
		if cl := findFunc(client, "Client", "Client"); cl != nil {
			ast.Inspect(cl, func(n ast.Node) bool {
				if ce, ok := n.(*ast.CallExpr); ok && exprString(ce) == "newGRPCClient(c.doneCtx,c)" {
					callSite = true
				}
				return true
			})
		}
		def("crash_grpc_plugins_get_done_ctx", "bool", coqBool(passes && ctor && callSite), "client.go / grpc_client.go: the client's doneCtx reaches GRPCPlugin.GRPCClient through newGRPCClient and Dispense")
	}

	// ---- lock discipline, close sites, id allocation (C20)
	{
		la := runLockAnalysis(*repo, lockFiles)
		rows := la.table()
		if len(rows) < 20 {
			fail("lock analysis: only %d rows (the structs or their mutexes were not recognised)", len(rows))
		}
		var b strings.Builder
		b.WriteString("[\n")
		for i, r := range rows {
			g := "GNone"
			switch {
			case strings.HasPrefix(r.guard, "lock:"):
				g = fmt.Sprintf("GLock %q", strings.TrimPrefix(r.guard, "lock:"))
			case r.guard == "atomic":
				g = "GAtomic"
			case r.guard == "once":
				g = "GOnce"
			case r.guard == "hb":
				g = "GHb"
			}
			sep := ";"
			if i == len(rows)-1 {
				sep = ""
			}
			fmt.Fprintf(&b, "  (%q, %q, %q, %s, %s)%s\n", r.strct, r.field, r.fn, coqBool(r.write), g, sep)
		}
		b.WriteString("]%string")
		defs = append(defs, "Inductive guard := GLock (l : string) | GAtomic | GOnce | GHb | GNone.")
		def("access_table", "list (string * string * string * bool * guard)", b.String(),
			"every access to a mutable field of a struct that has a mutex, made through a receiver or parameter: (struct, field, function, is-write, what orders it)")
		var hb []string
		for k := range hbExceptions {
			hb = append(hb, k)
		}
		sort.Strings(hb)
		var c strings.Builder
		c.WriteString("[\n")
		named := map[string]bool{"GRPCBroker.Close": true, "gRPCBrokerServer.Close": true, "gRPCBrokerClientImpl.Close": true, "RPCServer.done": true}
		found := 0
		first := true
		for _, cs := range la.closes {
			if !named[cs.fn] {
				continue
			}
			found++
			g := cs.guard == "once"
			if cs.fn == "RPCServer.done" {
				// closed under s.lock after a nil check, then set to nil
				g = rpcDoneGuarded(la.funcs["RPCServer.done"])
			}
			if !first {
				c.WriteString(";\n")
			}
			first = false
			fmt.Fprintf(&c, "  (%q, %q, %s)", cs.fn, cs.ch, coqBool(g))
		}
		c.WriteString("\n]%string")
		if found != len(named) {
			fail("close sites: found %d of the %d named shutdown closes", found, len(named))
		}
		def("close_sites", "list (string * string * bool)", c.String(), "the close(ch) of every shutdown path that several goroutines can reach: (function, channel, closes-at-most-once guard present)")
		// the done channel of a pending broker entry: every function that closes one, and whether it does so under the entry's once
		{
			var pc strings.Builder
			pc.WriteString("[\n")
			k := 0
			for _, cs := range la.closes {
				if cs.ch != "p.doneCh" {
					continue
				}
				if k > 0 {
					pc.WriteString(";\n")
				}
				k++
				fmt.Fprintf(&pc, "  (%q, %q, %s)", cs.fn, cs.ch, coqBool(cs.guard == "once"))
			}
			pc.WriteString("\n]%string")
			if k < 2 {
				fail("pending close sites: found %d closes of a pending entry's done channel", k)
			}
			def("pending_close_sites", "list (string * string * bool)", pc.String(), "every close of a pending broker entry's done channel (an entry can be handed a second connection while it awaits removal, so its taker is not unique): (function, channel, under the entry's sync.Once)")
		}
		atomicIDs := true
		for _, k := range []string{"MuxBroker.NextId", "GRPCBroker.NextId"} {
			fd := la.funcs[k]
			ok := false
			if fd != nil && len(fd.Body.List) == 1 {
				if rs, isR := fd.Body.List[0].(*ast.ReturnStmt); isR && len(rs.Results) == 1 {
					ok = strings.HasPrefix(exprString(rs.Results[0]), "atomic.AddUint32(&")
				}
			}
			if fd == nil {
				fail("%s not found", k)
			}
			atomicIDs = atomicIDs && ok
		}
		def("nextid_atomic", "bool", coqBool(atomicIDs), "mux_broker.go / grpc_broker.go NextId: the whole body is `return atomic.AddUint32(&m.nextId, 1)`")
		// lock order: who may wait for which mutex while holding which; with a topological numbering as certificate
		{
			edges := la.lockOrder()
			var locks []string
			for _, st := range la.structs {
				for l := range st.locks {
					locks = append(locks, st.name+":"+l)
				}
			}
			sort.Strings(locks)
			ranks := lockRanks(edges, locks)
			var eb, rb strings.Builder
			eb.WriteString("[")
			for i, e := range edges {
				if i > 0 {
					eb.WriteString("; ")
				}
				fmt.Fprintf(&eb, "(%q, %q)", e[0], e[1])
			}
			eb.WriteString("]%string")
			rb.WriteString("[")
			first := true
			for _, l := range locks {
				r, ok := ranks[l]
				if !ok {
					continue
				}
				if !first {
					rb.WriteString("; ")
				}
				first = false
				fmt.Fprintf(&rb, "(%q, %d%%nat)", l, r)
			}
			rb.WriteString("]%string")
			def("lock_order_edges", "list (string * string)", eb.String(), "pairs (held, wanted): some goroutine may try to acquire `wanted` while holding `held`, directly or through a synchronous call (locks named Struct:field, the embedded mutex has an empty field name)")
			def("lock_ranks", "list (string * nat)", rb.String(), "a numbering of the mutexes compatible with lock_order_edges (empty when the edges have a cycle); Coq re-checks it")
		}
		// the broker streams' Send hands a reply channel to the stream goroutine and closes it when it returns (defer close(ch)):
		// it must return only by receiving the reply, or the stream goroutine's reply is a send on a closed channel
		waits := true
		for _, k := range []string{"gRPCBrokerServer.Send", "gRPCBrokerClientImpl.Send"} {
			fd := la.funcs[k]
			if fd == nil {
				fail("%s not found", k)
				continue
			}
			hasDeferClose, lastIsRecv, otherReturnAfterHandOff := false, false, false
			handedOff := false
			for i, st := range fd.Body.List {
				if ds, ok := st.(*ast.DeferStmt); ok && exprString(ds.Call) == "close(ch)" {
					hasDeferClose = true
				}
				if ss, ok := st.(*ast.SelectStmt); ok {
					// the hand-off select: one arm sends on s.send; or a later select that can return without the reply
					sends := false
					for _, c := range ss.Body.List {
						cc := c.(*ast.CommClause)
						if snd, ok := cc.Comm.(*ast.SendStmt); ok && exprString(snd.Chan) == "s.send" {
							sends = true
						}
					}
					if sends {
						handedOff = true
					} else if handedOff {
						otherReturnAfterHandOff = true
					}
				}
				if rs, ok := st.(*ast.ReturnStmt); ok && i == len(fd.Body.List)-1 && len(rs.Results) == 1 && exprString(rs.Results[0]) == "<-ch" {
					lastIsRecv = true
				}
			}
			if !hasDeferClose {
				fail("%s: defer close(ch) not found (the reply-channel discipline changed shape)", k)
			}
			waits = waits && lastIsRecv && !otherReturnAfterHandOff
		}
		def("broker_send_waits_reply", "bool", coqBool(waits), "grpc_broker.go gRPCBrokerServer.Send / gRPCBrokerClientImpl.Send: after handing the request over, the only way out is `return <-ch`")
	}

	// ---- output
	if len(failures) > 0 {
		for _, f := range failures {
			fmt.Fprintln(os.Stderr, "gosrc2v:", f)
		}
		os.Exit(1)
	}
	fmt.Println("(* GENERATED by harness/cmd/gosrc2v from the go-plugin working tree on every check run. Do not edit. *)")
	fmt.Println("From Coq Require Import List NArith ZArith Bool String.")
	fmt.Println("Import ListNotations.")
	fmt.Println()
	// Record must precede its use
	var recs, rest []string
	for _, d := range defs {
		if strings.HasPrefix(d, "Record") || strings.HasPrefix(d, "Inductive") {
			recs = append(recs, d)
		} else {
			rest = append(rest, d)
		}
	}
	for _, d := range recs {
		fmt.Println(d)
		fmt.Println()
	}
	for _, d := range rest {
		fmt.Println(d)
		fmt.Println()
	}
}

// rpcDoneGuarded: RPCServer.done closes DoneCh inside `if s.DoneCh != nil { close(s.DoneCh); s.DoneCh = nil }` with s.lock held.
func rpcDoneGuarded(fd *ast.FuncDecl) bool {
	if fd == nil {
		return false
	}
	locked, ok := false, false
	for _, st := range fd.Body.List {
		if es, isE := st.(*ast.ExprStmt); isE && exprString(es.X) == "s.lock.Lock()" {
			locked = true
		}
		if is, isI := st.(*ast.IfStmt); isI && locked && exprString(is.Cond) == "(s.DoneCh!=nil)" {
			closes, nils := false, false
			for _, b := range is.Body.List {
				if es, isE := b.(*ast.ExprStmt); isE && exprString(es.X) == "close(s.DoneCh)" {
					closes = true
				}
				if as, isA := b.(*ast.AssignStmt); isA && len(as.Lhs) == 1 && exprString(as.Lhs[0]) == "s.DoneCh" && exprString(as.Rhs[0]) == "nil" {
					nils = true
				}
			}
			ok = closes && nils
		}
	}
	return ok
}

// yamuxDir: where the yamux version required by the working tree's go.mod lives in the module cache.
func yamuxDir(repo string) string {
	b, err := os.ReadFile(filepath.Join(repo, "go.mod"))
	if err != nil {
		return ""
	}
	ver := ""
	for _, ln := range strings.Split(string(b), "\n") {
		f := strings.Fields(ln)
		for i, w := range f {
			if w == "github.com/hashicorp/yamux" && i+1 < len(f) {
				ver = f[i+1]
			}
		}
	}
	if ver == "" {
		return ""
	}
	cache := os.Getenv("GOMODCACHE")
	if cache == "" {
		gp := os.Getenv("GOPATH")
		if gp == "" {
			home, _ := os.UserHomeDir()
			gp = filepath.Join(home, "go")
		}
		cache = filepath.Join(gp, "pkg", "mod")
	}
	return filepath.Join(cache, "github.com", "hashicorp", "yamux@"+ver)
}
