package main

// C13: SecureConfig. Real Client.Start with a Cmd pointing at a generated script.

import (
	"crypto/md5"
	"crypto/sha1"
	"crypto/sha256"
	"crypto/sha512"
	"errors"
	"fmt"
	"hash"
	"os"
	"os/exec"
	"path/filepath"
	"strings"
	"time"

	plugin "github.com/hashicorp/go-plugin"
	"verif/harness/hk"
	"verif/harness/sx"
)

type secureCase struct {
	Content  []byte `json:"content"`  // file content after the marker preamble
	Hash     string `json:"hash"`     // sha256|sha1|md5|sha512|nil
	Pre      []byte `json:"pre"`      // bytes already written to the hash object
	Checksum []byte `json:"checksum"` // configured checksum
	Missing  bool   `json:"missing"`  // command path does not exist
	Variant  string `json:"variant"`
	PathKind string `json:"path_kind"` // "" plain | "symlink-dotdot": the command path goes through a symlinked directory and ".."
	Decoy    []byte `json:"decoy"`     // symlink-dotdot: content of the file a lexically cleaned path would name
	Slot     int    `json:"slot"`      // >0: cases with the same slot reuse one path, with size and mtime kept equal (histories)
}

func newHash(name string) hash.Hash {
	switch name {
	case "sha256":
		return sha256.New()
	case "sha1":
		return sha1.New()
	case "md5":
		return md5.New()
	case "sha512":
		return sha512.New()
	}
	return nil
}

func init() { families["secure"] = runSecure }

func genSecure(o opts) []secureCase {
	r := hk.Rng(o.seed)
	n := 300
	if o.tier == "thorough" {
		n = 6000
	}
	if o.n > 0 {
		n = o.n
	}
	var cs []secureCase
	hashes := []string{"sha256", "sha256", "sha256", "sha1", "md5", "sha512"}
	digest := func(h string, pre, content []byte) []byte {
		hh := newHash(h)
		hh.Write(pre)
		hh.Write(content)
		return hh.Sum(nil)
	}
	// directed: every single-bit flip of one sha256 digest, every proper prefix, extensions
	base := []byte("# directed\n")
	d := digest("sha256", nil, scriptBody(base))
	for i := 0; i < len(d); i++ {
		for bit := 0; bit < 8; bit++ {
			if o.tier != "thorough" && (i*8+bit)%5 != int(o.seed%5+5)%5 {
				continue
			}
			c := append([]byte{}, d...)
			c[i] ^= 1 << bit
			cs = append(cs, secureCase{Content: base, Hash: "sha256", Checksum: c, Variant: fmt.Sprintf("bitflip-%d-%d", i, bit)})
		}
	}
	for k := 0; k < len(d); k++ {
		cs = append(cs, secureCase{Content: base, Hash: "sha256", Checksum: append([]byte{}, d[:k]...), Variant: fmt.Sprintf("prefix-%d", k)})
	}
	for k := 1; k <= 4; k++ {
		cs = append(cs, secureCase{Content: base, Hash: "sha256", Checksum: append(append([]byte{}, d...), hk.RandBytes(r, k)...), Variant: fmt.Sprintf("ext-%d", k)})
	}
	cs = append(cs, secureCase{Content: base, Hash: "sha256", Checksum: d, Variant: "exact"})
	cs = append(cs, secureCase{Content: base, Hash: "sha256", Checksum: nil, Variant: "nil"})
	cs = append(cs, secureCase{Content: base, Hash: "nil", Checksum: d, Variant: "nohash"})
	cs = append(cs, secureCase{Content: base, Hash: "nil", Checksum: nil, Variant: "nohash-nochecksum"})
	cs = append(cs, secureCase{Content: base, Hash: "sha256", Checksum: d, Missing: true, Variant: "missing-file"})
	// histories on one path: same size, same mtime, different content / checksum
	for slot := 1; slot <= 3; slot++ {
		c0 := []byte(fmt.Sprintf("# history %d variant A %08d\n", slot, r.Intn(1e8)))
		c1 := []byte(fmt.Sprintf("# history %d variant B %08d\n", slot, r.Intn(1e8)))
		d0, d1 := digest("sha256", nil, scriptBody(c0)), digest("sha256", nil, scriptBody(c1))
		steps := []struct {
			c, d []byte
			h    string
			v    string
		}{{c0, d0, "sha256", "hist-ok"}, {c1, d0, "sha256", "hist-swapped-content"}, {c1, d1, "sha256", "hist-ok2"},
			{c0, d1, "sha256", "hist-swapped-back"}, {c0, d0, "nil", "hist-nohash"}, {c0, d0, "sha256", "hist-ok3"}, {c1, d0, "sha256", "hist-swapped-again"}}
		for _, st := range steps {
			cs = append(cs, secureCase{Content: st.c, Hash: st.h, Checksum: st.d, Variant: st.v, Slot: slot})
		}
	}
	// the command path is not lexically clean: symlinked directory followed by ".."
	for k := 0; k < 6; k++ {
		real := []byte(fmt.Sprintf("# real %d\n", r.Intn(1e8)))
		decoy := []byte(fmt.Sprintf("# decoy %d\n", r.Intn(1e8)))
		dr, dd := digest("sha256", nil, scriptBody(real)), digest("sha256", nil, scriptBody(decoy))
		ck, v := dr, "symlink-real-checksum"
		if k%2 == 1 {
			ck, v = dd, "symlink-decoy-checksum"
		}
		cs = append(cs, secureCase{Content: real, Decoy: decoy, Hash: "sha256", Checksum: ck, Variant: v, PathKind: "symlink-dotdot"})
	}
	// random
	for len(cs) < n {
		var c secureCase
		c.Hash = hk.Pick(r, hashes)
		sz := hk.Pick(r, []int{0, 1, 17, 100, 1000, 4096, 70000})
		if o.tier == "thorough" && r.Intn(50) == 0 {
			sz = 1 << 20
		}
		c.Content = []byte("# " + strings.Repeat("z", sz) + fmt.Sprint(r.Int63()) + "\n")
		if r.Intn(6) == 0 {
			c.Pre = hk.RandBytes(r, 1+r.Intn(8))
		}
		dg := digest(c.Hash, c.Pre, scriptBody(c.Content))
		switch v := r.Intn(10); {
		case v < 4:
			c.Checksum, c.Variant = dg, "exact"
		case v == 4:
			c.Checksum = append([]byte{}, dg...)
			i := r.Intn(len(dg))
			c.Checksum[i] ^= 1 << uint(r.Intn(8))
			c.Variant = "bitflip"
		case v == 5:
			c.Checksum, c.Variant = append([]byte{}, dg[:r.Intn(len(dg))]...), "prefix"
		case v == 6:
			c.Checksum, c.Variant = append(append([]byte{}, dg...), hk.RandBytes(r, 1+r.Intn(4))...), "ext"
		case v == 7:
			c.Checksum, c.Variant = hk.RandBytes(r, len(dg)), "random"
		case v == 8:
			c.Checksum, c.Variant = digest(hk.Pick(r, hashes), nil, scriptBody(c.Content)), "other-hash"
		default:
			c.Checksum, c.Variant = dg[1:], "suffix"
		}
		if r.Intn(25) == 0 {
			c.Hash = "nil"
		}
		cs = append(cs, c)
	}
	return cs
}

const markerToken = "@@MARKER@@"

// the file that is hashed and executed: a shell script that creates the marker
func scriptBody(content []byte) []byte {
	return append([]byte("#!/bin/sh\n: > \"$VERIF_MARKER\"\n"), content...)
}

func runSecure(o opts) error {
	var cs []secureCase
	if o.cases != "" {
		if err := hk.LoadCases(o.cases, &cs); err != nil {
			return err
		}
	} else {
		cs = genSecure(o)
	}
	sink, err := hk.NewSink(o.out, "secure")
	if err != nil {
		return err
	}
	defer sink.Close()
	tmp, err := os.MkdirTemp("", "hx-secure")
	if err != nil {
		return err
	}
	defer os.RemoveAll(tmp)
	for i, c := range cs {
		id := fmt.Sprintf("s%d", i)
		path := filepath.Join(tmp, id+".sh")
		if c.Slot > 0 {
			path = filepath.Join(tmp, fmt.Sprintf("slot%d.sh", c.Slot))
		}
		marker := filepath.Join(tmp, id+".marker")
		body := scriptBody(c.Content)
		cmdPath := path
		if c.PathKind == "symlink-dotdot" {
			// A/plugin (decoy), A/link -> B/sub, B/plugin (real): the kernel resolves A/link/../plugin to B/plugin
			a, b := filepath.Join(tmp, id+"-A"), filepath.Join(tmp, id+"-B")
			os.MkdirAll(a, 0o755)
			os.MkdirAll(filepath.Join(b, "sub"), 0o755)
			os.WriteFile(filepath.Join(a, "plugin"), scriptBody(c.Decoy), 0o755)
			os.Symlink(filepath.Join(b, "sub"), filepath.Join(a, "link"))
			path = filepath.Join(b, "plugin")
			cmdPath = a + "/link/../plugin"
		}
		if err := os.WriteFile(path, body, 0o755); err != nil {
			return err
		}
		if c.Slot > 0 {
			fixed := time.Unix(1600000000, 0)
			os.Chtimes(path, fixed, fixed)
		}
		if c.Missing {
			cmdPath = filepath.Join(tmp, "does-not-exist")
		}
		var hh hash.Hash
		if h := newHash(c.Hash); h != nil {
			h.Write(c.Pre)
			hh = h
		}
		sc := &plugin.SecureConfig{Checksum: c.Checksum}
		if hh != nil {
			sc.Hash = hh
		}
		cmd := exec.Command(cmdPath)
		cmd.Path = cmdPath // exec.Command cleans nothing, but be explicit: the path is used as given
		cmd.Env = []string{"VERIF_MARKER=" + marker}
		cl := plugin.NewClient(&plugin.ClientConfig{
			HandshakeConfig: plugin.HandshakeConfig{ProtocolVersion: 1, MagicCookieKey: "K", MagicCookieValue: "V"},
			Plugins:         plugin.PluginSet{},
			Cmd:             cmd,
			SecureConfig:    sc,
			StartTimeout:    3 * time.Second,
			Logger:          hk.QuietLogger(),
			SkipHostEnv:     true,
		})
		_, serr := cl.Start()
		boundedKill(cl)
		class := 0
		switch {
		case serr == nil:
			class = 0
		case errors.Is(serr, plugin.ErrChecksumsDoNotMatch):
			class = 1
		case strings.HasPrefix(serr.Error(), "error verifying checksum: "+plugin.ErrSecureConfigNoChecksum.Error()):
			class = 2
		case strings.HasPrefix(serr.Error(), "error verifying checksum: "+plugin.ErrSecureConfigNoHash.Error()):
			class = 3
		case strings.HasPrefix(serr.Error(), "error verifying checksum: "):
			class = 4
		}
		launched := false
		for k := 0; k < 40; k++ {
			if _, e := os.Stat(marker); e == nil {
				launched = true
				break
			}
			if class != 0 {
				break
			}
			time.Sleep(5 * time.Millisecond)
		}
		// what the model is given: the real digest of (pre ++ file) under the configured hash
		var dg []byte
		if h := newHash(c.Hash); h != nil {
			h.Write(c.Pre)
			h.Write(body)
			dg = h.Sum(nil)
		}
		in := sx.L{sx.B(c.Checksum), sx.Bool(hh != nil), sx.Bool(!c.Missing), sx.B(dg)}
		obs := sx.L{sx.I(class), sx.Bool(launched)}
		sink.Put(13, id, in, obs, c)
		if c.Slot == 0 {
			os.Remove(path)
		}
		os.Remove(marker)
	}
	return nil
}
