package main

// C14: the configuration matrix, each cell one real launch.

import (
	"crypto/tls"
	"crypto/x509"
	"encoding/pem"
	"errors"
	"fmt"
	"os"
	"os/exec"
	"path/filepath"
	"runtime"
	"strconv"
	"sync"
	"time"

	hclog "github.com/hashicorp/go-hclog"
	plugin "github.com/hashicorp/go-plugin"
	"github.com/hashicorp/go-plugin/runner"
	"verif/harness/hk"
	"verif/harness/sx"
	"verif/harness/vp"
)

type mxCase struct {
	AllowNet  bool `json:"allow_net"`
	AllowGrpc bool `json:"allow_grpc"`
	AllowNil  bool `json:"allow_nil"` // leave AllowedProtocols unset (same as net/rpc only)
	HTLS      int  `json:"htls"`      // 0 none 1 static 2 AutoMTLS
	Mux       bool `json:"mux"`
	Launch    int  `json:"launch"`  // 0 Cmd 1 RunnerFunc 2 reattach
	Wire      int  `json:"wire"`    // 0 net/rpc 1 gRPC
	PTLS      int  `json:"ptls"`    // 0 none 1 TLSProvider
	MuxLine   int  `json:"muxline"` // 0 new 1 old (never prints the field) 2 prints false 3 legacy four-field line (scripted) 4 five-field line without certificate and multiplexing fields (scripted: a plugin not built on this library)
}

func init() { families["matrix"] = runMatrix }

var staticTLS struct {
	once           sync.Once
	certFile, keyF string
	pool           *x509.CertPool
}

func setupStaticTLS(dir string) {
	staticTLS.once.Do(func() {
		c := selfSigned(true)
		certPEM := pem.EncodeToMemory(&pem.Block{Type: "CERTIFICATE", Bytes: c.Certificate[0]})
		kb, _ := x509.MarshalPKCS8PrivateKey(c.PrivateKey)
		keyPEM := pem.EncodeToMemory(&pem.Block{Type: "PRIVATE KEY", Bytes: kb})
		staticTLS.certFile, staticTLS.keyF = filepath.Join(dir, "srv.crt"), filepath.Join(dir, "srv.key")
		os.WriteFile(staticTLS.certFile, certPEM, 0o600)
		os.WriteFile(staticTLS.keyF, keyPEM, 0o600)
		staticTLS.pool = x509.NewCertPool()
		staticTLS.pool.AppendCertsFromPEM(certPEM)
	})
}

func genMatrix(o opts) []mxCase {
	r := hk.Rng(o.seed + 107)
	var all []mxCase
	for _, al := range [][3]bool{{true, false, true}, {true, false, false}, {false, true, false}, {true, true, false}} {
		for ht := 0; ht < 3; ht++ {
			for _, mux := range []bool{false, true} {
				for la := 0; la < 3; la++ {
					for wi := 0; wi < 2; wi++ {
						for pt := 0; pt < 3; pt++ {
							for ml := 0; ml < 5; ml++ {
								c := mxCase{AllowNet: al[0], AllowGrpc: al[1], AllowNil: al[2], HTLS: ht, Mux: mux, Launch: la, Wire: wi, PTLS: pt, MuxLine: ml}
								if ml == 2 {
									// a plugin printing "false" is a scripted stdout: only cells the start itself decides
									allowed := (wi == 0 && c.AllowNet) || (wi == 1 && c.AllowGrpc)
									if la == 2 || (allowed && !(mux && wi == 1)) {
										continue
									}
								}
								if ml == 3 {
									// a legacy four-field line (scripted): the protocol defaults to net/rpc; only cells where that is refused
									if la == 2 || c.AllowNet || wi == 1 || pt != 0 {
										continue
									}
								}
								if ml == 4 {
									// a five-field line (scripted): only cells the start itself decides
									allowed := (wi == 0 && c.AllowNet) || (wi == 1 && c.AllowGrpc)
									if la == 2 || pt != 0 || (allowed && !(mux && wi == 1)) {
										continue
									}
								}
								if pt == 2 && la == 2 {
									continue
								}
								all = append(all, c)
							}
						}
					}
				}
			}
		}
	}
	if o.tier == "thorough" {
		return all
	}
	r.Shuffle(len(all), func(i, j int) { all[i], all[j] = all[j], all[i] })
	n := 130
	if o.n > 0 {
		n = o.n
	}
	if n > len(all) {
		n = len(all)
	}
	// the sample always contains cells in which a scripted line leaves the multiplexing request unanswered
	picked := all[:n]
	for ml := 2; ml <= 4; ml += 2 {
		k := 0
		for _, c := range all[n:] {
			if c.MuxLine == ml && c.Mux && c.Wire == 1 && c.AllowGrpc && k < 3 {
				picked = append(picked, c)
				k++
			}
		}
	}
	return picked
}

func runOneMatrix(c mxCase, base string, idx int) (sx.V, sx.V) {
	in := sx.L{sx.Bool(c.AllowNet), sx.Bool(c.AllowGrpc), sx.I(c.HTLS), sx.Bool(c.Mux), sx.I(c.Launch), sx.I(c.Wire), sx.I(c.PTLS), sx.I(c.MuxLine)}
	proto := map[int]string{0: "netrpc", 1: "grpc"}[c.Wire]
	class, killed := 4, false
	done := make(chan struct{})
	pid := 0
	go func() {
		defer close(done)
		defer func() {
			if r := recover(); r != nil {
				class = 5
			}
		}()
		pc := map[string]interface{}{}
		if c.PTLS == 1 {
			pc["tls_cert"], pc["tls_key"] = staticTLS.certFile, staticTLS.keyF
		}
		if c.MuxLine == 1 {
			pc["drop_mux_env"] = true
		}
		if c.PTLS == 2 {
			pc["drop_client_cert"] = true
		}
		pdir := filepath.Join(base, fmt.Sprintf("p%d", idx))
		os.MkdirAll(pdir, 0o755)
		mk := func(mux bool, allowAll bool) *plugin.ClientConfig {
			cfg := vpClientConfig(vpOpts{Proto: proto, Mux: mux, AutoMTLS: c.HTLS == 2, Plugin: pc, TmpDir: pdir, StartTO: 15 * time.Second})
			if c.HTLS == 1 {
				cfg.TLSConfig = &tls.Config{RootCAs: staticTLS.pool, ServerName: "localhost", MinVersion: tls.VersionTLS12}
			}
			switch {
			case allowAll:
			case c.AllowNil:
				cfg.AllowedProtocols = nil
			default:
				cfg.AllowedProtocols = nil
				if c.AllowNet {
					cfg.AllowedProtocols = append(cfg.AllowedProtocols, plugin.ProtocolNetRPC)
				}
				if c.AllowGrpc {
					cfg.AllowedProtocols = append(cfg.AllowedProtocols, plugin.ProtocolGRPC)
				}
			}
			return cfg
		}
		var launcher *plugin.Client
		cfg := mk(c.Mux, false)
		if c.MuxLine == 3 {
			cfg.Cmd = exec.Command("/bin/sh", "-c", `trap "" TERM; echo "$LINE"; exec sleep 30`)
			cfg.Cmd.Env = []string{"LINE=" + fmt.Sprintf("1|1|unix|%s", filepath.Join(pdir, "nothing"))}
		}
		if c.MuxLine == 4 {
			cfg.Cmd = exec.Command("/bin/sh", "-c", `trap "" TERM; echo "$LINE"; exec sleep 30`)
			cfg.Cmd.Env = []string{"LINE=" + fmt.Sprintf("1|1|unix|%s|%s", filepath.Join(pdir, "nothing"), proto)}
		}
		if c.MuxLine == 2 {
			line := fmt.Sprintf("1|1|unix|%s|%s||false", filepath.Join(pdir, "nothing"), proto)
			cfg.Cmd = exec.Command("/bin/sh", "-c", `trap "" TERM; echo "$LINE"; exec sleep 30`)
			cfg.Cmd.Env = []string{"LINE=" + line}
		}
		switch c.Launch {
		case 1:
			cmd := cfg.Cmd
			cfg.Cmd = nil
			cfg.RunnerFunc = func(l hclog.Logger, spec *exec.Cmd, tmp string) (runner.Runner, error) {
				real := exec.Command(cmd.Path, cmd.Args[1:]...)
				real.Env = append(append([]string{}, cmd.Env...), spec.Env...)
				return newProcRunner(real)
			}
		case 2:
			launcher = plugin.NewClient(mk(false, true))
			if _, err := launcher.Start(); err != nil {
				class = 8 // the launcher is the harness' own vehicle, not the observed cell
				go launcher.Kill()
				return
			}
			defer func() { go launcher.Kill() }() // cleanup of the launcher is not part of the observed cell
			pid, _ = strconv.Atoi(launcher.ID())
			rc := launcher.ReattachConfig()
			cfg.Cmd = nil
			cfg.Reattach = rc
		}
		cl := plugin.NewClient(cfg)
		defer func() { go cl.Kill() }()
		_, err := cl.Start()
		if c.Launch != 2 {
			pid, _ = strconv.Atoi(cl.ID())
		}
		if err != nil {
			class = 1
			if errors.Is(err, plugin.ErrGRPCBrokerMuxNotSupported) {
				class = 2
			}
			if c.Launch != 2 && pid > 0 {
				for k := 0; k < 300; k++ {
					if !procAlive(pid) {
						killed = true
						break
					}
					time.Sleep(10 * time.Millisecond)
				}
			}
			return
		}
		// the protocol the client settled on must be one it allows, whatever happens next
		if proto := cl.Protocol(); c.Launch != 2 && ((proto == plugin.ProtocolNetRPC && !(c.AllowNet || c.AllowNil)) || (proto == plugin.ProtocolGRPC && !c.AllowGrpc)) {
			class = 6
			return
		}
		// first use
		rc, err := cl.Client()
		if err != nil {
			class = 3
			return
		}
		raw, err := rc.Dispense("vp")
		if err != nil {
			class = 3
			return
		}
		caller := bounded(raw.(vp.Caller))
		if out, err := caller.Call(vp.Req{Op: "tag"}); err != nil || out.S != "set-1" {
			class = 3
			return
		}
		if rc.Ping() != nil {
			class = 3
			return
		}
		if out, err := caller.Call(vp.Req{Op: "big", N: 1 << 20}); err != nil || len(out.Data) != 1<<20 {
			class = 3
			return
		}
		// brokered callback
		if out, err := caller.Call(vp.Req{Op: "accept", ID: 77}); err == nil && out.Err == "" {
			if gb := caller.GRPC(); gb != nil {
				cc, err := gb.Dial(77)
				if err != nil {
					class = 3
					return
				}
				bc := vp.Bounded(vp.NewGRPCCaller(cc, gb), callBound)
				w, err := bc.Call(vp.Req{Op: "who"})
				if err != nil || w.ID != 77 {
					cc.Close()
					class = 3
					return
				}
				// a pair that was asked for transport security must have it on the brokered connection too
				if c.HTLS != 0 {
					if sec, err := bc.Call(vp.Req{Op: "peer-tls"}); err != nil || sec.S != "tls" {
						cc.Close()
						class = 6
						return
					}
				}
				cc.Close()
			} else if mb := caller.Mux(); mb != nil {
				conn, err := mb.Dial(77)
				if err != nil {
					class = 3
					return
				}
				w, err := vp.NewNetCaller(newRPC(conn), mb).Call(vp.Req{Op: "who"})
				conn.Close()
				if err != nil || w.ID != 77 {
					class = 3
					return
				}
			}
		} else {
			class = 3
			return
		}
		if _, err := rc.Dispense("no-such-plugin"); err == nil {
			class = 7
			return
		}
		class = 0
		// a working pair that was asked for transport security must not be reachable in plaintext
		if c.HTLS != 0 {
			sock := cl.ReattachConfig().Addr.String()
			plain := false
			if c.Wire == 1 {
				plain = grpcAttempt(sock, nil, c.Mux)
			} else {
				plain = netrpcAttempt(sock, nil)
			}
			if plain {
				class = 6
			}
		}
		if proto := cl.Protocol(); (proto == plugin.ProtocolNetRPC && !(c.AllowNet || c.AllowNil) && c.Launch != 2) || (proto == plugin.ProtocolGRPC && !c.AllowGrpc && c.Launch != 2) {
			class = 6
		}
	}()
	select {
	case <-done:
	case <-time.After(40 * time.Second):
		class = 4
		buf := make([]byte, 1<<22)
		os.WriteFile(filepath.Join(os.TempDir(), fmt.Sprintf("hx-matrix-hang-%d.txt", idx)), append([]byte(fmt.Sprintf("%+v\n", c)), buf[:runtime.Stack(buf, true)]...), 0o644)
	}
	// no kill-by-pid here: pids are recycled within seconds on this machine and a stale pid may belong to another cell's plugin;
	// the clients' own Kill (started above) cleans up
	return in, sx.L{sx.I(class), sx.Bool(killed)}
}

func runMatrix(o opts) error {
	var cs []mxCase
	if o.cases != "" {
		if err := hk.LoadCases(o.cases, &cs); err != nil {
			return err
		}
	} else {
		cs = genMatrix(o)
	}
	sink, err := hk.NewSink(o.out, "matrix")
	if err != nil {
		return err
	}
	defer sink.Close()
	base, _ := os.MkdirTemp("", "hx-matrix")
	defer os.RemoveAll(base)
	setupStaticTLS(base)
	var wg sync.WaitGroup
	sem := make(chan struct{}, 8)
	for i, c := range cs {
		wg.Add(1)
		sem <- struct{}{}
		go func(i int, c mxCase) {
			defer wg.Done()
			defer func() { <-sem }()
			in, obs := runMatrixCell(c, base, i)
			sink.Put(14, fmt.Sprintf("a%d", i), in, obs, c)
		}(i, c)
	}
	wg.Wait()
	return nil
}

// runMatrixCell runs one cell.  A cell that does not simply work is run again with the process to itself (no other cell
// in flight) until two runs agree, at most four runs in all, and the agreed result is what is reported: interference
// between cells and machine load are the harness', not go-plugin's, while a deterministic outcome reproduces (net/rpc
// connection set-up also has a rare 'session shutdown' flake on the unchanged tree, seen in the repository's own suite
// at about 0.3 %).  A launcher that fails to start (class 8) is never an observation of the cell.
func runMatrixCell(c mxCase, base string, idx int) (sx.V, sx.V) {
	cellMu.RLock()
	in, obs := runOneMatrix(c, base, idx)
	cellMu.RUnlock()
	cls := func(o sx.V) string {
		if l, ok := o.(sx.L); ok && len(l) > 0 {
			return sx.String(l[0])
		}
		return "?"
	}
	if cls(obs) == "0" || cls(obs) == "2" {
		return in, obs
	}
	cellMu.Lock()
	defer cellMu.Unlock()
	seen := map[string]int{}
	if cls(obs) != "8" {
		seen[sx.String(obs)]++
	}
	for try := 1; try <= 3; try++ {
		in, obs = runOneMatrix(c, base, idx+100000*try)
		if cls(obs) == "8" {
			continue
		}
		seen[sx.String(obs)]++
		if seen[sx.String(obs)] >= 2 || cls(obs) == "0" {
			return in, obs
		}
	}
	return in, obs
}

var cellMu sync.RWMutex
