package main

// C05 over the whole of Client.Start: each case picks the stage at which Start is to end -- option checks, SecureConfig
// check, runner factory, runner.Start, the handshake (any of the handshake family's endings), or success -- and builds a
// configuration and an environment that make it end there.  The model is Model/StartPipe.v (the composition of the stage
// models, in the order the code runs them).  Observation: where Start ended (error class), whether anything was launched,
// whether Start itself killed it, and what one later Kill leaves (workload, plugin-dir* directory).

import (
	"crypto/sha256"
	"errors"
	"fmt"
	"os"
	"os/exec"
	"path/filepath"
	"strings"
	"sync"
	"sync/atomic"
	"time"

	hclog "github.com/hashicorp/go-hclog"
	plugin "github.com/hashicorp/go-plugin"
	"github.com/hashicorp/go-plugin/runner"
	"verif/harness/hk"
	"verif/harness/sx"
)

type spCase struct {
	Cmd, Reattach, Runner, Secure, Mux bool
	SecureFile                         int    // 0 matches, 1 does not match, 2 cannot be read
	FactoryFails                       bool   // RunnerFunc returns an error
	RunnerStart                        int    // 0 ok, 1 fails after launching, 2 fails before launching (named), 3 (unnamed)
	Out                                []byte // what the plugin prints
	Term                               string // eof | stall
	Kind                               string
}

func init() { families["startpipe"] = runStartPipe }

func genStartPipe(o opts) []spCase {
	good := []byte("1|1|tcp|127.0.0.1:1234|netrpc|\n")
	outs := []struct {
		b    []byte
		term string
	}{
		{good, "eof"}, {[]byte("1|1|tc"), "stall"}, {[]byte("1|1|tc"), "eof"}, {[]byte(""), "eof"}, {[]byte("1|9|tcp|127.0.0.1:1234|netrpc|\n"), "eof"},
		{[]byte("1|1|tcp|127.0.0.1:1234|grpc|\n"), "eof"}, {[]byte("\n1|1|tcp|127.0.0.1:1234|netrpc|\n"), "eof"},
	}
	var cs []spCase
	// the option stage: all combinations, with a world in which everything later would succeed
	for m := 0; m < 32; m++ {
		c := spCase{Cmd: m&1 != 0, Reattach: m&2 != 0, Runner: m&4 != 0, Secure: m&8 != 0, Mux: m&16 != 0, Out: good, Term: "eof", Kind: "options"}
		if c.Reattach && !c.Cmd && !c.Runner && !c.Secure && !c.Mux {
			continue // a reattach that goes through: the reattach family's subject (no plugin to attach to here)
		}
		cs = append(cs, c)
	}
	// the later stages, for both launching methods
	for _, byRunner := range []bool{false, true} {
		for _, sec := range []int{-1, 0, 1, 2} {
			for _, ff := range []bool{false, true} {
				for rs := 0; rs <= 3; rs++ {
					for _, out := range outs {
						if !byRunner && (ff || rs != 0) {
							continue // no factory and no custom runner.Start on a Cmd launch
						}
						if (sec == 1 || sec == 2 || ff || rs != 0) && string(out.b) != string(good) {
							continue // the output does not matter when Start ends earlier
						}
						c := spCase{Cmd: !byRunner, Runner: byRunner, Secure: sec >= 0, FactoryFails: ff, RunnerStart: rs, Out: out.b, Term: out.term, Kind: "stages"}
						if sec >= 0 {
							c.SecureFile = sec
						}
						cs = append(cs, c)
					}
				}
			}
		}
	}
	return cs
}

func runOneStartPipe(c spCase, tmpBase string, idx int) (sx.V, sx.V) {
	hc := hsCase{CVersion: 1, HasLegacy: true, AllowedNil: true, TLS: "none", Translate: "id", Out: c.Out, Term: c.Term, Mux: c.Mux}
	stall := c.Term == "stall"
	hin, _ := hsInput(hc, stall)
	hl := hin.(sx.L)
	// a bare RunnerFunc has no command path: its checksum cannot be read whatever the case says
	sf := c.SecureFile
	if c.Secure && c.Runner && !c.Cmd {
		sf = 2
	}
	in := sx.L{sx.L{sx.Bool(c.Cmd), sx.Bool(c.Reattach), sx.Bool(c.Runner), sx.Bool(c.Secure), sx.Bool(c.Mux)},
		sx.I(sf), sx.Bool(c.FactoryFails), sx.I(c.RunnerStart), hl[0], hl[1], sx.B(c.Out), hl[3]}

	cfg := &plugin.ClientConfig{
		HandshakeConfig:     plugin.HandshakeConfig{ProtocolVersion: 1, MagicCookieKey: "K", MagicCookieValue: "V"},
		Plugins:             mkSet(setSpec{1, 1}),
		StartTimeout:        hsStartTimeout,
		Logger:              hk.QuietLogger(),
		SkipHostEnv:         true,
		GRPCBrokerMultiplex: c.Mux,
		UnixSocketConfig:    &plugin.UnixSocketConfig{TempDir: tmpBase},
	}
	var cmd *exec.Cmd
	outFile := ""
	if c.Cmd {
		f, _ := os.CreateTemp(tmpBase, "out")
		f.Write(c.Out)
		f.Close()
		outFile = f.Name()
		script := `trap "" TERM; cat "$VERIF_OUT"; exec sleep 30` // the plugin ignores SIGTERM: only a real kill ends it
		if !stall && !strings.Contains(string(c.Out), "\n") {
			script = `cat "$VERIF_OUT"; exit 0`
		}
		cmd = exec.Command("/bin/sh", "-c", script)
		cmd.Env = []string{"VERIF_OUT=" + outFile}
		cfg.Cmd = cmd
	}
	if c.Reattach {
		cfg.Reattach = &plugin.ReattachConfig{Protocol: plugin.ProtocolNetRPC, ProtocolVersion: 1, Pid: os.Getpid(),
			Addr: &netAddrStub{"unix", filepath.Join(tmpBase, "nobody-listens")}}
	}
	var sr *hk.Scripted
	var factoryCalls int32
	if c.Runner {
		sr = hk.NewScripted()
		switch c.RunnerStart {
		case 1:
			sr.FailAfterLaunch = "now"
		case 2, 3:
			sr.StartErr = errors.New("scripted runner: nothing was launched")
			sr.Unnamed = c.RunnerStart == 3
		}
		sr.OnStart = func(s *hk.Scripted) {
			leaveSocket(s.TmpDir)
			s.StdoutW.Write(c.Out)
			if !stall && !strings.Contains(string(c.Out), "\n") {
				s.Exit()
			}
		}
		inner := sr.RunnerFunc(nil)
		cfg.RunnerFunc = func(l hclog.Logger, spec *exec.Cmd, tmp string) (runner.Runner, error) {
			atomic.AddInt32(&factoryCalls, 1)
			sr.TmpDir = tmp
			if c.FactoryFails {
				return nil, errors.New("runner factory: cannot create a runner")
			}
			return inner(l, spec, tmp)
		}
	}
	if c.Secure {
		sum := sha256.Sum256([]byte("no such content"))
		if b, err := os.ReadFile("/bin/sh"); err == nil && sf == 0 {
			sum = sha256.Sum256(b)
		}
		cfg.SecureConfig = &plugin.SecureConfig{Checksum: sum[:], Hash: sha256.New()}
		if sf == 2 && c.Cmd {
			cmd.Path = filepath.Join(tmpBase, "unreadable-binary") // cannot be opened: the check reports an I/O error
		}
	}
	cl := plugin.NewClient(cfg)
	var serr error
	if !within(hsStartTimeout+6*time.Second, func() { _, serr = cl.Start() }) {
		if sr != nil {
			sr.Exit()
		}
		return in, sx.L{sx.I(98), sx.I(0), sx.I(0), sx.I(0), sx.I(0), sx.I(0), sx.I(0)}
	}
	// where did it end?
	stage, code := 5, classifyStartErr(serr)
	switch {
	case serr == nil:
	case errors.Is(serr, plugin.ErrSecureConfigAndReattach):
		stage, code = 1, 2
	case strings.Contains(serr.Error(), "exactly one of"):
		stage, code = 1, 1
	case strings.Contains(serr.Error(), "multiplexing is not supported with Reattach"):
		stage, code = 1, 3
	case errors.Is(serr, plugin.ErrChecksumsDoNotMatch) || strings.Contains(serr.Error(), "error verifying checksum"):
		stage, code = 2, 0
	case strings.Contains(serr.Error(), "runner factory:"):
		stage, code = 3, 0
	case strings.Contains(serr.Error(), "scripted runner:"):
		stage, code = 4, 0
	}
	launched, killedByStart := false, false
	pid := 0
	if sr != nil {
		launched = atomic.LoadInt32(&sr.Starts) > 0 && c.RunnerStart <= 1 && !c.FactoryFails
		killedByStart = sr.KillCount() >= 1
	}
	if c.Cmd && cmd.Process != nil {
		launched = true
		pid = cmd.Process.Pid
		if serr != nil {
			for k := 0; k < 100 && procAlive(pid); k++ {
				time.Sleep(10 * time.Millisecond)
			}
			killedByStart = !procAlive(pid)
		}
	}
	// one later Kill
	within(6*time.Second, func() { cl.Kill() })
	workloadGone := true
	if sr != nil && launched {
		workloadGone = sr.Exited()
	}
	if pid > 0 {
		for k := 0; k < 100 && procAlive(pid); k++ {
			time.Sleep(10 * time.Millisecond)
		}
		workloadGone = !procAlive(pid)
	}
	dirGone := true
	if sr != nil && sr.TmpDir != "" {
		if _, e := os.Stat(sr.TmpDir); e == nil {
			dirGone = false
			os.RemoveAll(sr.TmpDir)
		}
	}
	if sr != nil {
		sr.Exit()
	}
	if pid > 0 && procAlive(pid) {
		cmd.Process.Kill()
	}
	if outFile != "" {
		os.Remove(outFile)
	}
	return in, sx.L{sx.I(stage), sx.I(code), sx.Bool(serr != nil), sx.Bool(launched), sx.Bool(killedByStart), sx.Bool(workloadGone), sx.Bool(dirGone)}
}

type netAddrStub struct{ n, a string }

func (s *netAddrStub) Network() string { return s.n }
func (s *netAddrStub) String() string  { return s.a }

func runStartPipe(o opts) error {
	var cs []spCase
	if o.cases != "" {
		if err := hk.LoadCases(o.cases, &cs); err != nil {
			return err
		}
	} else {
		cs = genStartPipe(o)
	}
	sink, err := hk.NewSink(o.out, "startpipe")
	if err != nil {
		return err
	}
	defer sink.Close()
	tmpBase, err := os.MkdirTemp("", "hx-sp")
	if err != nil {
		return err
	}
	defer os.RemoveAll(tmpBase)
	var wg sync.WaitGroup
	sem := make(chan struct{}, 12)
	for i, c := range cs {
		wg.Add(1)
		sem <- struct{}{}
		go func(i int, c spCase) {
			defer wg.Done()
			defer func() { <-sem }()
			in, obs := runOneStartPipe(c, tmpBase, i)
			sink.Put(205, fmt.Sprintf("sp%d", i), in, obs, c)
		}(i, c)
	}
	wg.Wait()
	return nil
}
