package main

// C12: AutoMTLS. Intruders of every credential class try every reachable listener of a real
// vplugin / of the host; an impostor plugin announces no certificate.

import (
	"context"
	"crypto/ecdsa"
	"crypto/elliptic"
	crand "crypto/rand"
	"crypto/tls"
	"crypto/x509"
	"crypto/x509/pkix"
	"encoding/base64"
	"encoding/pem"
	"fmt"
	"math/big"
	"net"
	"net/rpc"
	"os"
	"path/filepath"
	"strings"
	"sync"
	"time"

	plugin "github.com/hashicorp/go-plugin"
	"github.com/hashicorp/yamux"
	"google.golang.org/grpc"
	"google.golang.org/grpc/credentials"
	"google.golang.org/grpc/credentials/insecure"
	"google.golang.org/grpc/health"
	"google.golang.org/grpc/health/grpc_health_v1"
	"verif/harness/hk"
	"verif/harness/sx"
	"verif/harness/vp"
)

type mtCaseTLS struct {
	Proto string `json:"proto"`
	Mux   bool   `json:"mux"`
	Kind  string `json:"kind"` // intruders | impostor-nocert | impostor-chain | inherited-cert | sibling-cert
}

func init() { families["mtls"] = runMTLS }

func selfSigned(sameNames bool) tls.Certificate {
	key, _ := ecdsa.GenerateKey(elliptic.P256(), crand.Reader)
	name := pkix.Name{CommonName: fmt.Sprintf("intruder-%d", time.Now().UnixNano())}
	dns := []string{"intruder"}
	if sameNames {
		name = pkix.Name{CommonName: "localhost", Organization: []string{"HashiCorp"}}
		dns = []string{"localhost"}
	}
	tmpl := &x509.Certificate{SerialNumber: big.NewInt(time.Now().UnixNano()), Subject: name, DNSNames: dns,
		NotBefore: time.Now().Add(-time.Minute), NotAfter: time.Now().Add(time.Hour), IsCA: true, BasicConstraintsValid: true,
		KeyUsage:    x509.KeyUsageDigitalSignature | x509.KeyUsageKeyEncipherment | x509.KeyUsageKeyAgreement | x509.KeyUsageCertSign,
		ExtKeyUsage: []x509.ExtKeyUsage{x509.ExtKeyUsageClientAuth, x509.ExtKeyUsageServerAuth}}
	der, _ := x509.CreateCertificate(crand.Reader, tmpl, tmpl, key.Public(), key)
	return tls.Certificate{Certificate: [][]byte{der}, PrivateKey: key}
}

// a certificate authority that the family installs as the ONLY entry of the machine's trust store (SSL_CERT_FILE /
// SSL_CERT_DIR, for this process and the plugins it launches), and a leaf it issued
var sysCA struct {
	cert *x509.Certificate
	key  *ecdsa.PrivateKey
	pem  []byte
}

func makeSysCA() {
	key, _ := ecdsa.GenerateKey(elliptic.P256(), crand.Reader)
	tmpl := &x509.Certificate{SerialNumber: big.NewInt(time.Now().UnixNano()), Subject: pkix.Name{CommonName: "machine trust store CA"},
		NotBefore: time.Now().Add(-time.Minute), NotAfter: time.Now().Add(time.Hour), IsCA: true, BasicConstraintsValid: true,
		KeyUsage: x509.KeyUsageCertSign | x509.KeyUsageDigitalSignature}
	der, _ := x509.CreateCertificate(crand.Reader, tmpl, tmpl, key.Public(), key)
	sysCA.cert, _ = x509.ParseCertificate(der)
	sysCA.key = key
	sysCA.pem = pem.EncodeToMemory(&pem.Block{Type: "CERTIFICATE", Bytes: der})
}

func sysIssuedLeaf() tls.Certificate {
	key, _ := ecdsa.GenerateKey(elliptic.P256(), crand.Reader)
	tmpl := &x509.Certificate{SerialNumber: big.NewInt(time.Now().UnixNano()), Subject: pkix.Name{CommonName: "somebody.example"},
		DNSNames: []string{"localhost", "somebody.example"}, NotBefore: time.Now().Add(-time.Minute), NotAfter: time.Now().Add(time.Hour),
		KeyUsage: x509.KeyUsageDigitalSignature | x509.KeyUsageKeyEncipherment, ExtKeyUsage: []x509.ExtKeyUsage{x509.ExtKeyUsageClientAuth, x509.ExtKeyUsageServerAuth}}
	der, _ := x509.CreateCertificate(crand.Reader, tmpl, sysCA.cert, key.Public(), sysCA.key)
	return tls.Certificate{Certificate: [][]byte{der, sysCA.cert.Raw}, PrivateKey: key}
}

// intruder credential classes: 0 plaintext, 1 TLS without certificate, 2 fresh self-signed, 3 right names / other key,
// 4 a certificate issued by an authority of the machine's trust store
func intruderTLS(class int) *tls.Config {
	switch class {
	case 4:
		return &tls.Config{InsecureSkipVerify: true, MinVersion: tls.VersionTLS12, Certificates: []tls.Certificate{sysIssuedLeaf()}, ServerName: "localhost"}
	case 1:
		return &tls.Config{InsecureSkipVerify: true, MinVersion: tls.VersionTLS12}
	case 2:
		return &tls.Config{InsecureSkipVerify: true, MinVersion: tls.VersionTLS12, Certificates: []tls.Certificate{selfSigned(false)}}
	case 3:
		return &tls.Config{InsecureSkipVerify: true, MinVersion: tls.VersionTLS12, Certificates: []tls.Certificate{selfSigned(true)}, ServerName: "localhost"}
	}
	return nil
}

func grpcAttempt(sock string, cfg *tls.Config, mux bool) bool {
	ctx, cancel := context.WithTimeout(context.Background(), 3*time.Second)
	defer cancel()
	var sess *yamux.Session
	dialer := func(ctx context.Context, _ string) (net.Conn, error) {
		if mux {
			if sess == nil {
				c, err := net.DialTimeout("unix", sock, time.Second)
				if err != nil {
					return nil, err
				}
				s, err := yamux.Client(c, nil)
				if err != nil {
					return nil, err
				}
				sess = s
			}
			return sess.Open()
		}
		return net.DialTimeout("unix", sock, time.Second)
	}
	creds := insecure.NewCredentials()
	if cfg != nil {
		creds = credentials.NewTLS(cfg)
	}
	cc, err := grpc.DialContext(ctx, "passthrough:///intruder", grpc.WithContextDialer(dialer), grpc.WithTransportCredentials(creds))
	if err != nil {
		return false
	}
	defer cc.Close()
	if sess != nil {
		defer sess.Close()
	}
	done := make(chan bool, 1)
	go func() {
		_, err := vp.NewGRPCCaller(cc, nil).Call(vp.Req{Op: "who"})
		done <- err == nil
	}()
	select {
	case ok := <-done:
		return ok
	case <-ctx.Done():
		return false
	}
}

func netrpcAttempt(sock string, cfg *tls.Config) bool {
	conn, err := net.DialTimeout("unix", sock, time.Second)
	if err != nil {
		return false
	}
	defer conn.Close()
	conn.SetDeadline(time.Now().Add(3 * time.Second))
	var rw net.Conn = conn
	if cfg != nil {
		tc := tls.Client(conn, cfg)
		if err := tc.Handshake(); err != nil {
			return false
		}
		rw = tc
	}
	ycfg := yamux.DefaultConfig()
	ycfg.LogOutput = nil
	ycfg.Logger = nil
	ycfg.LogOutput = os.NewFile(0, os.DevNull)
	sess, err := yamux.Client(rw, nil)
	if err != nil {
		return false
	}
	defer sess.Close()
	st, err := sess.Open()
	if err != nil {
		return false
	}
	cl := rpc.NewClient(st)
	done := make(chan bool, 1)
	go func() {
		var empty struct{}
		done <- cl.Call("Control.Ping", true, &empty) == nil
	}()
	select {
	case ok := <-done:
		return ok
	case <-time.After(3 * time.Second):
		return false
	}
}

func newSocket(dir string, known map[string]bool) string {
	for k := 0; k < 100; k++ {
		ents, _ := os.ReadDir(dir)
		for _, e := range ents {
			p := filepath.Join(dir, e.Name())
			if !known[p] && e.Type()&os.ModeSocket != 0 {
				known[p] = true
				return p
			}
		}
		time.Sleep(20 * time.Millisecond)
	}
	return ""
}

func runOneMTLS(c mtCaseTLS, base string, idx int, put func(in, obs sx.V)) {
	pdir := filepath.Join(base, fmt.Sprintf("plugin-%d", idx))
	os.MkdirAll(pdir, 0o755)
	rec := func(path, peer int, announced bool, answered bool) {
		put(sx.L{sx.I(path), sx.I(peer), sx.Bool(announced)}, sx.L{sx.Bool(answered)})
	}
	mainPath := 0
	if c.Proto == "grpc" {
		mainPath = 1
	}
	if c.Kind == "sibling-cert" {
		first, second := siblingCertAnswered(c.Proto, pdir)
		rec(mainPath, 9, true, first)
		rec(mainPath, 11, true, second)
		return
	}
	if c.Kind == "inherited-cert" {
		legit, outsider := inheritedCertAnswers(c.Proto, pdir)
		rec(mainPath, 9, true, legit)
		rec(mainPath, 5, true, outsider)
		return
	}
	if c.Kind == "impostor-chain" {
		rec(mainPath, 10, true, impostorChainAnswered(c.Proto, pdir))
		return
	}
	if c.Kind == "impostor-nocert" {
		cl, caller, err := startVP(vpOpts{Proto: c.Proto, Mux: c.Mux, AutoMTLS: true, TmpDir: pdir, Plugin: map[string]interface{}{"drop_client_cert": true}, StartTO: 5 * time.Second})
		answered := false
		if err == nil {
			done := make(chan bool, 1)
			go func() { _, e := caller.Call(vp.Req{Op: "tag"}); done <- e == nil }()
			select {
			case answered = <-done:
			case <-time.After(4 * time.Second):
			}
			go cl.Kill()
		}
		rec(mainPath, 9, false, answered)
		return
	}
	cl, caller, err := startVP(vpOpts{Proto: c.Proto, Mux: c.Mux, AutoMTLS: true, TmpDir: pdir})
	if err != nil {
		rec(mainPath, 9, true, false)
		return
	}
	defer func() {
		// bounded: what Kill does is C04's subject, not this family's
		done := make(chan struct{})
		go func() { cl.Kill(); close(done) }()
		select {
		case <-done:
		case <-time.After(10 * time.Second):
		}
	}()
	_, e := caller.Call(vp.Req{Op: "tag"})
	rec(mainPath, 9, true, e == nil)
	known := map[string]bool{}
	mainSock := cl.ReattachConfig().Addr.String()
	known[mainSock] = true
	attempt := func(sock string, class int, grpcPath bool, mux bool) bool {
		if grpcPath {
			return grpcAttempt(sock, intruderTLS(class), mux)
		}
		return netrpcAttempt(sock, intruderTLS(class))
	}
	for class := 0; class < 5; class++ {
		rec(mainPath, class, true, attempt(mainSock, class, c.Proto == "grpc", c.Mux))
	}
	if c.Proto != "grpc" {
		return // brokered net/rpc streams live inside the authenticated main connection (TLS is below yamux there)
	}
	if c.Mux {
		// multiplexed gRPC: yamux runs on the raw socket and every stream does its own TLS.  An intruder cannot open a
		// stream of somebody else's session, so the brokered streams are probed from the inside: the legitimate pair
		// establishes one in each direction and the serving side reports how it sees the connection
		gb := caller.GRPC()
		ok := false
		if _, err := caller.Call(vp.Req{Op: "accept", ID: 50}); err == nil {
			if cc, err := gb.Dial(50); err == nil {
				bc := vp.Bounded(vp.NewGRPCCaller(cc, gb), callBound)
				if w, e := bc.Call(vp.Req{Op: "who"}); e == nil && w.ID == 50 {
					if sec, e := bc.Call(vp.Req{Op: "peer-tls"}); e == nil && sec.S == "tls" {
						ok = true
					}
				}
				cc.Close()
			}
		}
		rec(2, 9, true, ok)
		go gb.AcceptAndServe(60, func(opts []grpc.ServerOption) *grpc.Server {
			s := grpc.NewServer(opts...)
			vp.Register(s, hostWho(60), gb)
			return s
		})
		time.Sleep(100 * time.Millisecond)
		out, err := caller.Call(vp.Req{Op: "dial", ID: 60, K: "peer-tls"})
		rec(3, 9, true, err == nil && out.Err == "" && out.ID == 60 && out.S == "tls")
		return
	}
	gb := caller.GRPC()
	// plugin-side brokered listener
	if _, err := caller.Call(vp.Req{Op: "accept", ID: 50}); err == nil {
		if sock := newSocket(pdir, known); sock != "" {
			for class := 0; class < 5; class++ {
				rec(2, class, true, attempt(sock, class, true, false))
			}
		}
		ok := false
		if cc, err := gb.Dial(50); err == nil {
			_, e := vp.NewGRPCCaller(cc, gb).Call(vp.Req{Op: "who"})
			ok = e == nil
			cc.Close()
		}
		rec(2, 9, true, ok)
	}
	// host-side brokered listener (created in this process's TMPDIR)
	hdir := os.Getenv("TMPDIR")
	hknown := map[string]bool{}
	ents, _ := os.ReadDir(hdir)
	for _, e := range ents {
		hknown[filepath.Join(hdir, e.Name())] = true
	}
	go gb.AcceptAndServe(60, func(opts []grpc.ServerOption) *grpc.Server {
		s := grpc.NewServer(opts...)
		vp.Register(s, hostWho(60), gb)
		return s
	})
	if sock := newSocket(hdir, hknown); sock != "" {
		for class := 0; class < 5; class++ {
			rec(3, class, true, attempt(sock, class, true, false))
		}
	}
	out, err := caller.Call(vp.Req{Op: "dial", ID: 60})
	rec(3, 9, true, err == nil && out.Err == "" && out.ID == 60)
}

func runMTLS(o opts) error {
	cs := []mtCaseTLS{{"netrpc", false, "intruders"}, {"grpc", false, "intruders"}, {"grpc", true, "intruders"},
		{"netrpc", false, "impostor-chain"}, {"grpc", false, "impostor-chain"},
		{"netrpc", false, "inherited-cert"}, {"grpc", false, "inherited-cert"},
		{"netrpc", false, "sibling-cert"}, {"grpc", false, "sibling-cert"},
		{"netrpc", false, "impostor-nocert"}, {"grpc", false, "impostor-nocert"}, {"grpc", true, "impostor-nocert"}}
	if o.cases != "" {
		cs = nil
		if err := hk.LoadCases(o.cases, &cs); err != nil {
			return err
		}
	}
	sink, err := hk.NewSink(o.out, "mtls")
	if err != nil {
		return err
	}
	defer sink.Close()
	base, _ := os.MkdirTemp("", "hx-mtls")
	defer os.RemoveAll(base)
	makeSysCA()
	caFile, caDir := filepath.Join(base, "trust-store.pem"), filepath.Join(base, "trust-store.d")
	os.WriteFile(caFile, sysCA.pem, 0o644)
	os.MkdirAll(caDir, 0o755)
	os.Setenv("SSL_CERT_FILE", caFile) // read lazily by crypto/x509, once per process: set before any TLS is done here
	os.Setenv("SSL_CERT_DIR", caDir)
	hdir := filepath.Join(base, "host")
	os.MkdirAll(hdir, 0o755)
	os.Setenv("TMPDIR", hdir) // host-side brokered listeners are created here
	var mu sync.Mutex
	n := 0
	for i, c := range cs {
		// sequential: the host-side socket directory is shared
		runOneMTLS(c, base, i, func(in, obs sx.V) {
			mu.Lock()
			defer mu.Unlock()
			sink.Put(12, fmt.Sprintf("x%d", n), in, obs, map[string]interface{}{"scenario": c, "input": sx.String(in)})
			n++
		})
	}
	_ = plugin.ProtocolGRPC
	return nil
}

// impostorChainAnswered: an impostor plugin that announces certificate A (public: it is printed on stdout by the genuine
// plugin) but holds only the key of another certificate B, and serves with the list [B, A].  The AutoMTLS host is
// launched against it through a scripted runner; the answer is whether a Ping of the host was answered.
func impostorChainAnswered(proto, dir string) bool {
	a, b := selfSigned(true), selfSigned(true)
	chain := tls.Certificate{Certificate: [][]byte{b.Certificate[0], a.Certificate[0]}, PrivateKey: b.PrivateKey}
	return fakePluginSession(proto, dir, "impostor.sock", a.Certificate[0], chain)
}

// siblingCertAnswered: two AutoMTLS clients in one host process.  The first talks to a plugin that announces certificate B
// and holds its key (nothing wrong with that one: it must be answered).  The second is launched against an impostor that
// announces certificate A and serves with B -- the certificate of the sibling.  What the host trusts for one plugin must
// not be trusted for another.
func siblingCertAnswered(proto, dir string) (first, second bool) {
	a, b := selfSigned(true), selfSigned(true)
	first = fakePluginSession(proto, dir, "sibling1.sock", b.Certificate[0], b)
	second = fakePluginSession(proto, dir, "sibling2.sock", a.Certificate[0], b)
	return
}

// fakePluginSession: an in-process TLS endpoint (net/rpc: plugin.RPCServer behind tls.Server; gRPC: a health service)
// that serves with the certificate list and key of [serve], reached by an AutoMTLS host through a scripted runner whose
// handshake line announces the certificate [announceDER].  The answer is whether a Ping of the host was answered.
func fakePluginSession(proto, dir, sockName string, announceDER []byte, serve tls.Certificate) bool {
	scfg := &tls.Config{Certificates: []tls.Certificate{serve}, ClientAuth: tls.RequestClientCert, MinVersion: tls.VersionTLS12}
	sock := filepath.Join(dir, sockName)
	ln, err := net.Listen("unix", sock)
	if err != nil {
		return false
	}
	defer ln.Close()
	if proto == "grpc" {
		gs := grpc.NewServer(grpc.Creds(credentials.NewTLS(scfg)))
		hs := health.NewServer()
		hs.SetServingStatus("plugin", grpc_health_v1.HealthCheckResponse_SERVING)
		grpc_health_v1.RegisterHealthServer(gs, hs)
		go gs.Serve(ln)
		defer gs.Stop()
	} else {
		go func() {
			for {
				conn, err := ln.Accept()
				if err != nil {
					return
				}
				go func() {
					defer func() { recover() }()
					tc := tls.Server(conn, scfg)
					tc.SetDeadline(time.Now().Add(5 * time.Second))
					if tc.Handshake() != nil {
						conn.Close()
						return
					}
					tc.SetDeadline(time.Time{})
					(&plugin.RPCServer{Plugins: map[string]plugin.Plugin{}, Stdout: strings.NewReader(""), Stderr: strings.NewReader("")}).ServeConn(tc)
				}()
			}
		}()
	}
	sr := hk.NewScripted()
	line := fmt.Sprintf("1|1|unix|%s|%s|%s\n", sock, proto, base64.RawStdEncoding.EncodeToString(announceDER))
	sr.OnStart = func(s *hk.Scripted) { s.StdoutW.Write([]byte(line)) }
	cl := plugin.NewClient(&plugin.ClientConfig{
		HandshakeConfig:  plugin.HandshakeConfig{ProtocolVersion: 1, MagicCookieKey: vpCookieKey, MagicCookieValue: vpCookieVal},
		Plugins:          plugin.PluginSet{},
		AllowedProtocols: []plugin.Protocol{plugin.ProtocolNetRPC, plugin.ProtocolGRPC},
		AutoMTLS:         true,
		RunnerFunc:       sr.RunnerFunc(nil),
		Logger:           hk.QuietLogger(),
		StartTimeout:     5 * time.Second,
		UnixSocketConfig: &plugin.UnixSocketConfig{TempDir: dir},
	})
	defer func() { boundedKill(cl); sr.Exit() }()
	answered := false
	within(12*time.Second, func() {
		rpcc, err := cl.Client()
		if err != nil {
			return
		}
		if rpcc.Ping() == nil {
			answered = true
		}
	})
	return answered
}

// inheritedCertAnswers: the host is itself an AutoMTLS plugin of somebody else, so its own environment carries a
// PLUGIN_CLIENT_CERT (the certificate of ITS host).  It passes its environment on (SkipHostEnv off) and launches a plugin
// with AutoMTLS.  The plugin must pin this host's fresh certificate, not the inherited one: the legitimate host is
// answered, the holder of the inherited certificate is not.
func inheritedCertAnswers(proto, dir string) (legit, outsider bool) {
	out := selfSigned(true)
	os.Setenv("PLUGIN_CLIENT_CERT", string(pem.EncodeToMemory(&pem.Block{Type: "CERTIFICATE", Bytes: out.Certificate[0]})))
	defer os.Unsetenv("PLUGIN_CLIENT_CERT")
	cfg := vpClientConfig(vpOpts{Proto: proto, AutoMTLS: true, TmpDir: dir, StartTO: 8 * time.Second})
	var own []string
	for _, kv := range cfg.Cmd.Env {
		if strings.HasPrefix(kv, "VP_CONFIG=") {
			own = append(own, kv)
		}
	}
	cfg.Cmd.Env = own // the command's own entries only; the host environment comes in through SkipHostEnv = false
	cfg.SkipHostEnv = false
	cl := plugin.NewClient(cfg)
	defer boundedKill(cl)
	within(15*time.Second, func() {
		rpcc, err := cl.Client()
		if err != nil {
			return
		}
		raw, err := rpcc.Dispense("vp")
		if err != nil {
			return
		}
		if _, err := bounded(raw.(vp.Caller)).Call(vp.Req{Op: "tag"}); err == nil {
			legit = true
		}
	})
	rc := cl.ReattachConfig()
	if rc == nil {
		return legit, false
	}
	tc := &tls.Config{InsecureSkipVerify: true, MinVersion: tls.VersionTLS12, Certificates: []tls.Certificate{out}, ServerName: "localhost"}
	if proto == "grpc" {
		outsider = grpcAttempt(rc.Addr.String(), tc, false)
	} else {
		outsider = netrpcAttempt(rc.Addr.String(), tc)
	}
	return legit, outsider
}
