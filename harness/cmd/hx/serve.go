package main

// C16: the plugin's cookie gate and handshake line, observed on raw vplugin processes.

import (
	"bufio"
	"encoding/json"
	"fmt"
	"net"
	"os"
	"os/exec"
	"path/filepath"
	"strconv"
	"strings"
	"syscall"
	"sync"
	"time"

	"verif/harness/hk"
	"verif/harness/sx"
)

type svCase struct {
	Key       string      `json:"key"`   // configured MagicCookieKey
	Value     string      `json:"value"` // configured MagicCookieValue
	Proto     string      `json:"proto"` // netrpc | grpc
	Version   int         `json:"version"`
	Versioned []verEntry  `json:"versioned"` // kind 1 netrpc / 2 grpc
	Env       [][2]string `json:"env"`       // environment of the plugin process (besides VP_CONFIG, TMPDIR)
	Cert      bool        `json:"cert"`      // PLUGIN_CLIENT_CERT carries a certificate
}

func init() { families["serve"] = runServe }

func genServe(o opts) []svCase {
	r := hk.Rng(o.seed + 91)
	n := 60
	if o.tier == "thorough" {
		n = 1500
	}
	var cs []svCase
	for len(cs) < n {
		c := svCase{Key: hk.Pick(r, []string{"BASIC_PLUGIN", "BASIC_PLUGIN", "BASIC_PLUGIN", "K", ""}), Value: hk.Pick(r, []string{"hello", "hello", "hello", "a=b c", ""}),
			Proto: hk.Pick(r, []string{"netrpc", "grpc"}), Version: 1 + r.Intn(3)}
		if r.Intn(3) == 0 {
			k := 1
			if c.Proto == "grpc" {
				k = 2
			}
			c.Versioned = []verEntry{{2, 12, k}, {4, 14, k}}
		}
		// the cookie variable: unset / empty / exact / prefix / suffix / case change / other
		switch r.Intn(9) {
		case 0:
		case 1:
			c.Env = append(c.Env, [2]string{c.Key, ""})
		case 2:
			c.Env = append(c.Env, [2]string{c.Key, c.Value + "x"})
		case 3:
			if len(c.Value) > 1 {
				c.Env = append(c.Env, [2]string{c.Key, c.Value[:len(c.Value)-1]})
			}
		case 4:
			c.Env = append(c.Env, [2]string{c.Key, strings.ToUpper(c.Value)})
		case 5:
			c.Env = append(c.Env, [2]string{c.Key, "other"})
		default:
			c.Env = append(c.Env, [2]string{c.Key, c.Value})
		}
		if c.Key == "" {
			c.Env = nil
		}
		switch r.Intn(6) {
		case 0:
			c.Env = append(c.Env, [2]string{"PLUGIN_MULTIPLEX_GRPC", ""})
		case 1:
			c.Env = append(c.Env, [2]string{"PLUGIN_MULTIPLEX_GRPC", "true"})
		case 2:
			c.Env = append(c.Env, [2]string{"PLUGIN_MULTIPLEX_GRPC", "false"})
		case 3:
			c.Env = append(c.Env, [2]string{"PLUGIN_MULTIPLEX_GRPC", "garbage"})
		}
		if r.Intn(3) == 0 {
			c.Env = append(c.Env, [2]string{"PLUGIN_PROTOCOL_VERSIONS", hk.Pick(r, []string{"1,2,3", "4,2", "9", ""})})
		}
		c.Cert = r.Intn(4) == 0
		cs = append(cs, c)
	}
	return cs
}

var clientCertPEM string
var certOnce sync.Once

func runOneServe(c svCase, tmpBase string, idx int) (sx.V, sx.V) {
	dir := filepath.Join(tmpBase, fmt.Sprintf("p%d", idx))
	os.MkdirAll(dir, 0o755)
	defer os.RemoveAll(dir)
	kind := map[string]int{"netrpc": 1, "grpc": 2}[c.Proto]
	pc := map[string]interface{}{
		"cookie_key": c.Key, "cookie_value": c.Value, "version": c.Version,
		"legacy": map[string]string{"tag": "L", "kind": c.Proto}, "grpc_server": c.Proto == "grpc",
	}
	ents := sx.L{}
	if c.Versioned != nil {
		vm := map[string]map[string]string{}
		for _, e := range c.Versioned {
			vm[strconv.Itoa(e.V)] = map[string]string{"tag": fmt.Sprint(e.ID), "kind": c.Proto}
			ents = append(ents, sx.L{sx.I(e.V), sx.I(e.ID), sx.I(kind)})
		}
		pc["versioned"] = vm
	}
	b, _ := json.Marshal(pc)
	cmd := exec.Command(vpluginPath())
	cmd.Env = []string{"VP_CONFIG=" + string(b), "TMPDIR=" + dir, "PATH=/usr/bin:/bin"}
	envL := sx.L{}
	for _, kv := range c.Env {
		cmd.Env = append(cmd.Env, kv[0]+"="+kv[1])
		envL = append(envL, sx.L{sx.S(kv[0]), sx.S(kv[1])})
	}
	if c.Cert {
		certOnce.Do(func() { clientCertPEM = pemOfValidCert() })
		cmd.Env = append(cmd.Env, "PLUGIN_CLIENT_CERT="+clientCertPEM)
	}
	stdout, _ := cmd.StdoutPipe()
	cmd.Stderr = nil
	in := sx.L{sx.L{sx.S(c.Key), sx.S(c.Value), sx.L{sx.I(c.Version), sx.Bool(true), sx.L{sx.I(1), sx.I(kind)}, ents, sx.Bool(c.Proto == "grpc")}}, envL, sx.Bool(c.Cert)}
	fail := sx.L{sx.I(9), sx.I(-1), sx.I(-1), sx.I(-1), sx.I(-1), sx.S(""), sx.S(""), sx.I(0), sx.S(""), sx.I(0)}
	// anything ever created in the plugin's socket directory is reported by the kernel, even if it is gone again at exit
	ifd, ierr := syscall.InotifyInit1(syscall.IN_NONBLOCK | syscall.IN_CLOEXEC)
	if ierr == nil {
		defer syscall.Close(ifd)
		syscall.InotifyAddWatch(ifd, dir, syscall.IN_CREATE)
	}
	if err := cmd.Start(); err != nil {
		return in, fail
	}
	exited := make(chan int, 1)
	lineCh := make(chan string, 1)
	extraCh := make(chan string, 1)
	go func() {
		rd := bufio.NewReader(stdout)
		l, _ := rd.ReadString('\n')
		lineCh <- l
		rest := make([]byte, 4096)
		k, _ := rd.Read(rest)
		extraCh <- string(rest[:k])
	}()
	go func() {
		err := cmd.Wait()
		code := 0
		if ee, ok := err.(*exec.ExitError); ok {
			code = ee.ExitCode()
		}
		exited <- code
	}()
	var line string
	select {
	case line = <-lineCh:
	case <-time.After(5 * time.Second):
	}
	if !strings.HasSuffix(line, "\n") { // no line: the process must have exited
		select {
		case code := <-exited:
			// nothing may have been created in its socket directory
			entries, _ := os.ReadDir(dir)
			created := len(entries) > 0
			if ierr == nil {
				buf := make([]byte, 4096)
				if k, _ := syscall.Read(ifd, buf); k > 0 {
					created = true
				}
			}
			return in, sx.L{sx.I(1), sx.I(code), sx.I(-1), sx.I(-1), sx.I(-1), sx.S(""), sx.S(""), sx.I(0), sx.S(""), sx.Bool(created)}
		case <-time.After(3 * time.Second):
			cmd.Process.Kill()
			return in, fail
		}
	}
	fs := strings.Split(strings.TrimRight(line, "\n"), "|")
	get := func(i int) string {
		if i < len(fs) {
			return fs[i]
		}
		return ""
	}
	core, e1 := strconv.Atoi(get(0))
	if e1 != nil {
		core = -1
	}
	ver, e2 := strconv.Atoi(get(1))
	if e2 != nil {
		ver = -1
	}
	// the announced address is already accepting connections when the line appears
	listened := false
	if conn, err := net.DialTimeout(get(2), get(3), time.Second); err == nil {
		listened = true
		conn.Close()
	}
	// go-plugin writes nothing else to the real stdout
	extra := ""
	select {
	case extra = <-extraCh:
	case <-time.After(300 * time.Millisecond):
	}
	cmd.Process.Kill()
	nf := len(fs)
	if extra != "" {
		nf = 100 + nf
	}
	return in, sx.L{sx.I(0), sx.I(-1), sx.I(nf), sx.I(core), sx.I(ver), sx.S(get(2)), sx.S(get(4)), sx.Bool(get(5) != ""), sx.S(get(6)), sx.Bool(listened)}
}

func runServe(o opts) error {
	var cs []svCase
	if o.cases != "" {
		if err := hk.LoadCases(o.cases, &cs); err != nil {
			return err
		}
	} else {
		cs = genServe(o)
	}
	sink, err := hk.NewSink(o.out, "serve")
	if err != nil {
		return err
	}
	defer sink.Close()
	tmpBase, _ := os.MkdirTemp("", "hx-serve")
	defer os.RemoveAll(tmpBase)
	var wg sync.WaitGroup
	sem := make(chan struct{}, 12)
	for i, c := range cs {
		wg.Add(1)
		sem <- struct{}{}
		go func(i int, c svCase) {
			defer wg.Done()
			defer func() { <-sem }()
			in, obs := runOneServe(c, tmpBase, i)
			sink.Put(16, fmt.Sprintf("y%d", i), in, obs, c)
		}(i, c)
	}
	wg.Wait()
	return nil
}
