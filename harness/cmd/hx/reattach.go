package main

// C15: histories of start / reattach / set / get / kill / die / cancel on real vplugin daemons and on
// in-process test-mode servers.

import (
	"context"
	"encoding/json"
	"errors"
	"fmt"
	"net"
	"os"
	"os/exec"
	"path/filepath"
	"strconv"
	"strings"
	"sync"
	"sync/atomic"
	"syscall"
	"time"

	plugin "github.com/hashicorp/go-plugin"
	"github.com/hashicorp/go-plugin/runner"
	"verif/harness/hk"
	"verif/harness/sx"
	"verif/harness/vp"
)

type raOp struct {
	Kind int `json:"kind"` // 0 start(a=test) 1 reattach(a=client) 2 set(a=client,b=value) 3 get(a=client) 4 kill(a=client) 5 die(a=inst) 6 cancel(a=inst) 7 alive(a=inst)
	A    int `json:"a"`
	B    int `json:"b"`
}
type raCase struct {
	Proto string `json:"proto"`
	Ops   []raOp `json:"ops"`
	Kind  string `json:"kind"`
	// Foreign: real plugins are started by a launcher process, so the clients of this history are never their parent
	Foreign bool `json:"foreign,omitempty"`
	// Linger: the real plugins acknowledge the shutdown request and keep running (only a force kill ends them)
	Linger bool `json:"linger,omitempty"`
	// TestFunc: clients of test-mode servers attach through a caller-supplied ReattachFunc (test mode still means: Kill
	// leaves the server alone)
	TestFunc bool `json:"test_func,omitempty"`
}

func init() { families["reattach"] = runReattach }

func genReattach(o opts) []raCase {
	r := hk.Rng(o.seed + 103)
	n := 36
	if o.tier == "thorough" {
		n = 312
	}
	var cs []raCase
	for _, pr := range []string{"netrpc", "grpc"} {
		cs = append(cs,
			raCase{Proto: pr, Kind: "directed-basic", Ops: []raOp{{0, 0, 0}, {2, 0, 7}, {1, 0, 0}, {3, 1, 0}, {1, 1, 0}, {3, 2, 0}, {4, 2, 0}, {7, 0, 0}, {1, 0, 0}}},
			raCase{Proto: pr, Kind: "directed-test-mode", Ops: []raOp{{0, 1, 0}, {1, 0, 0}, {2, 1, 5}, {1, 1, 0}, {4, 2, 0}, {7, 0, 0}, {3, 0, 0}, {6, 0, 0}, {7, 0, 0}, {1, 0, 0}}},
			raCase{Proto: pr, Kind: "directed-die", Ops: []raOp{{0, 0, 0}, {1, 0, 0}, {5, 0, 0}, {7, 0, 0}, {1, 0, 0}, {3, 1, 0}}},
			// a failed attach stays failed: Start, Client and the accessors once more on the client whose attach found nothing
			raCase{Proto: pr, Kind: "directed-start-again", Ops: []raOp{{0, 0, 0}, {4, 0, 0}, {1, 0, 0}, {8, 1, 0}, {8, 1, 0}, {3, 1, 0}, {8, 0, 0}}},
			raCase{Proto: pr, Kind: "directed-start-again-test", Ops: []raOp{{0, 1, 0}, {6, 0, 0}, {1, 0, 0}, {8, 1, 0}, {3, 1, 0}, {8, 1, 0}}},
			raCase{Proto: pr, Kind: "directed-test-mode-func", TestFunc: true, Ops: []raOp{{0, 1, 0}, {2, 0, 5}, {4, 0, 0}, {7, 0, 0}, {1, 0, 0}, {3, 1, 0}, {4, 1, 0}, {7, 0, 0}, {6, 0, 0}, {7, 0, 0}}},
			raCase{Proto: pr, Kind: "directed-linger", Linger: true, Ops: []raOp{{0, 0, 0}, {1, 0, 0}, {2, 1, 9}, {4, 1, 0}, {7, 0, 0}, {1, 0, 0}}},
			raCase{Proto: pr, Kind: "directed-linger-foreign", Linger: true, Foreign: true, Ops: []raOp{{0, 0, 0}, {3, 0, 0}, {1, 0, 0}, {4, 1, 0}, {7, 0, 0}, {1, 1, 0}}},
			raCase{Proto: pr, Kind: "directed-foreign", Foreign: true, Ops: []raOp{{0, 0, 0}, {2, 0, 7}, {1, 0, 0}, {3, 1, 0}, {7, 0, 0}, {4, 1, 0}, {7, 0, 0}, {1, 0, 0}}},
		)
	}
	for len(cs) < n {
		c := raCase{Proto: hk.Pick(r, []string{"netrpc", "grpc"}), Kind: "random", Foreign: r.Intn(3) == 0}
		nin, ncl := 0, 0
		test := []bool{}
		for k := 2 + r.Intn(7); k > 0; k-- {
			if nin == 0 || (r.Intn(6) == 0 && nin < 2) {
				t := r.Intn(3) == 0
				c.Ops = append(c.Ops, raOp{0, map[bool]int{true: 1, false: 0}[t], 0})
				nin++
				ncl++
				test = append(test, t)
				continue
			}
			switch r.Intn(10) {
			case 0, 1, 2:
				c.Ops = append(c.Ops, raOp{1, r.Intn(ncl), 0})
				ncl++
			case 3:
				c.Ops = append(c.Ops, raOp{2, r.Intn(ncl), 1 + r.Intn(50)})
			case 4, 5:
				c.Ops = append(c.Ops, raOp{3, r.Intn(ncl), 0})
			case 6:
				c.Ops = append(c.Ops, raOp{4, r.Intn(ncl), 0})
			case 7:
				i := r.Intn(nin)
				if test[i] {
					c.Ops = append(c.Ops, raOp{6, i, 0})
				} else {
					c.Ops = append(c.Ops, raOp{5, i, 0})
				}
			case 8:
				c.Ops = append(c.Ops, raOp{8, r.Intn(ncl), 0})
			default:
				c.Ops = append(c.Ops, raOp{7, r.Intn(nin), 0})
			}
		}
		c.Linger = r.Intn(4) == 0
		c.TestFunc = r.Intn(3) == 0
		cs = append(cs, c)
	}
	return cs
}

type raInst struct {
	test    bool
	pid     int
	cancel  context.CancelFunc
	closeCh chan struct{}
	owner   *plugin.Client
}

func runOneReattach(c raCase) (sx.V, sx.V) {
	var insts []*raInst
	var clients []*plugin.Client
	var foreignCleanups []func()
	defer func() {
		for _, f := range foreignCleanups {
			f()
		}
	}()
	callers := map[int]vp.Caller{}
	in, obs := sx.L{}, sx.L{}
	behaviour, pcfg := "exit", map[string]interface{}(nil)
	if c.Linger {
		behaviour, pcfg = "ignore", map[string]interface{}{"shutdown": "ignore"}
	}
	hs := plugin.HandshakeConfig{ProtocolVersion: 1, MagicCookieKey: vpCookieKey, MagicCookieValue: vpCookieVal}
	plugs := func() plugin.PluginSet { return vp.MakeSet(vp.SetSpec{Tag: "set-1", Kind: c.Proto}, nil) }
	caller := func(i int) (vp.Caller, error) {
		if cl, ok := callers[i]; ok {
			return cl, nil
		}
		rc, err := clients[i].Client()
		if err != nil {
			return nil, err
		}
		raw, err := rc.Dispense("vp")
		if err != nil {
			return nil, err
		}
		callers[i] = bounded(raw.(vp.Caller))
		return callers[i], nil
	}
	call := func(i int, req vp.Req) (vp.Resp, error) {
		type res struct {
			r vp.Resp
			e error
		}
		ch := make(chan res, 1)
		go func() {
			defer func() {
				if r := recover(); r != nil {
					ch <- res{vp.Resp{}, fmt.Errorf("panic: %v", r)}
				}
			}()
			cl, err := caller(i)
			if err != nil {
				ch <- res{vp.Resp{}, err}
				return
			}
			r, e := cl.Call(req)
			ch <- res{r, e}
		}()
		select {
		case x := <-ch:
			return x.r, x.e
		case <-time.After(5 * time.Second):
			return vp.Resp{}, errors.New("call timed out")
		}
	}
	for _, op := range c.Ops {
		in = append(in, sx.L{sx.I(op.Kind), sx.I(op.A), sx.I(op.B)})
		out := 0
		switch op.Kind {
		case 0:
			if op.A == 1 { // test mode, served in this process
				ctx, cancel := context.WithCancel(context.Background())
				rch := make(chan *plugin.ReattachConfig, 1)
				cch := make(chan struct{})
				var mu sync.Mutex
				store := map[string]string{}
				h := func(r vp.Req, _ *plugin.MuxBroker, _ *plugin.GRPCBroker) vp.Resp {
					mu.Lock()
					defer mu.Unlock()
					switch r.Op {
					case "set":
						store[r.K] = r.V
						return vp.Resp{}
					case "get":
						return vp.Resp{S: store[r.K]}
					}
					return vp.Resp{Err: "unknown op"}
				}
				sc := &plugin.ServeConfig{HandshakeConfig: hs, Plugins: vp.MakeSet(vp.SetSpec{Tag: "set-1", Kind: c.Proto}, h),
					Logger: hk.QuietLogger(), Test: &plugin.ServeTestConfig{Context: ctx, ReattachConfigCh: rch, CloseCh: cch}}
				if c.Proto == "grpc" {
					sc.GRPCServer = plugin.DefaultGRPCServer
				}
				go plugin.Serve(sc)
				var cfg *plugin.ReattachConfig
				select {
				case cfg = <-rch:
				case <-time.After(5 * time.Second):
				}
				insts = append(insts, &raInst{test: true, cancel: cancel, closeCh: cch})
				if c.TestFunc && cfg != nil {
					cp := *cfg
					addr := cfg.Addr
					// like the default pid-based function: whoever attaches makes sure something answers at the address
					cp.ReattachFunc = func() (runner.AttachedRunner, error) {
						conn, err := net.DialTimeout(addr.Network(), addr.String(), time.Second)
						if err != nil {
							return nil, plugin.ErrProcessNotFound
						}
						conn.Close()
						return &fakeAttached{gone: cch}, nil
					}
					cfg = &cp
				}
				cl := plugin.NewClient(&plugin.ClientConfig{HandshakeConfig: hs, Plugins: plugs(), Reattach: cfg, Logger: hk.QuietLogger()})
				clients = append(clients, cl)
				if cfg != nil {
					if _, err := cl.Client(); err == nil {
						out = 1
					}
				}
			} else if c.Foreign {
				pid, na, proto, cleanup, err := startForeignPlugin(c.Proto, behaviour, filepath.Join(os.TempDir(), fmt.Sprintf("ra-marker-%d", len(insts))))
				cl := plugin.NewClient(&plugin.ClientConfig{HandshakeConfig: hs, Plugins: plugs(), Logger: hk.QuietLogger(),
					Reattach: &plugin.ReattachConfig{Protocol: plugin.Protocol(proto), ProtocolVersion: 1, Addr: na, Pid: pid}})
				clients = append(clients, cl)
				if err == nil {
					foreignCleanups = append(foreignCleanups, cleanup)
					done := make(chan error, 1)
					go func() { _, e := cl.Client(); done <- e }()
					select {
					case e := <-done:
						if e == nil {
							out = 1
						}
					case <-time.After(10 * time.Second):
					}
				}
				insts = append(insts, &raInst{pid: pid, owner: cl})
			} else {
				cl := plugin.NewClient(vpClientConfig(vpOpts{Proto: c.Proto, Plugin: pcfg}))
				clients = append(clients, cl)
				if _, err := cl.Client(); err == nil {
					out = 1
				}
				pid, _ := strconv.Atoi(cl.ID())
				insts = append(insts, &raInst{pid: pid, owner: cl})
			}
		case 1:
			cfg := clients[op.A].ReattachConfig()
			cl := plugin.NewClient(&plugin.ClientConfig{HandshakeConfig: hs, Plugins: plugs(), Reattach: cfg, Logger: hk.QuietLogger()})
			clients = append(clients, cl)
			if cfg == nil {
				out = -2
			} else if _, err := cl.Client(); err == nil {
				out = 1
			} else if errors.Is(err, plugin.ErrProcessNotFound) {
				out = 0
			} else {
				out = -3
			}
		case 2:
			if _, err := call(op.A, vp.Req{Op: "set", K: "x", V: strconv.Itoa(op.B)}); err == nil {
				out = 1
			}
		case 3:
			r, err := call(op.A, vp.Req{Op: "get", K: "x"})
			if err != nil {
				out = -1
			} else {
				out, _ = strconv.Atoi(r.S)
			}
		case 4:
			done := make(chan struct{})
			go func() { clients[op.A].Kill(); close(done) }()
			select {
			case <-done:
			case <-time.After(12 * time.Second):
				out = -9
			}
			delete(callers, op.A)
		case 5:
			if !insts[op.A].test {
				syscall.Kill(insts[op.A].pid, syscall.SIGKILL)
				for k := 0; k < 50 && procAlive(insts[op.A].pid); k++ {
					time.Sleep(20 * time.Millisecond)
				}
				time.Sleep(100 * time.Millisecond)
			}
		case 6:
			if insts[op.A].test {
				insts[op.A].cancel()
				select {
				case <-insts[op.A].closeCh:
				case <-time.After(5 * time.Second):
				}
			}
		case 8:
			var serr error
			if !within(10*time.Second, func() { _, serr = clients[op.A].Start() }) {
				out = -9
			} else if serr == nil {
				out = 1
			}
		case 7:
			it := insts[op.A]
			if it.test {
				select {
				case <-it.closeCh:
				default:
					out = 1
				}
			} else if procAlive(it.pid) {
				out = 1
			}
		}
		obs = append(obs, sx.I(out))
	}
	for _, it := range insts {
		if it.test {
			it.cancel()
		} else {
			syscall.Kill(it.pid, syscall.SIGKILL)
		}
	}
	for _, cl := range clients {
		go cl.Kill()
	}
	time.Sleep(50 * time.Millisecond)
	// the protocol is part of the input: a cancelled net/rpc test server keeps serving the connections it has
	return sx.L{sx.I(map[string]int{"netrpc": 0, "grpc": 1}[c.Proto]), in}, obs
}

func runReattach(o opts) error {
	var cs []raCase
	if o.cases != "" {
		if err := hk.LoadCases(o.cases, &cs); err != nil {
			return err
		}
	} else {
		cs = genReattach(o)
	}
	sink, err := hk.NewSink(o.out, "reattach")
	if err != nil {
		return err
	}
	defer sink.Close()
	if o.child {
		for i, c := range cs {
			in, obs := runOneReattach(c)
			sink.Put(15, fmt.Sprintf("r%d", i), in, obs, c)
		}
		return nil
	}
	// every history runs in its own child process: a test-mode server lives in the process that serves it, and a
	// client that wrongly force-kills "the plugin" would take the whole harness down with it
	self, _ := os.Executable()
	var wg sync.WaitGroup
	sem := make(chan struct{}, 12)
	for i, c := range cs {
		wg.Add(1)
		sem <- struct{}{}
		go func(i int, c raCase) {
			defer wg.Done()
			defer func() { <-sem }()
			in := sx.L{}
			for _, op := range c.Ops {
				in = append(in, sx.L{sx.I(op.Kind), sx.I(op.A), sx.I(op.B)})
			}
			tmp, _ := os.CreateTemp("", "hx-ra-*.json")
			b, _ := json.Marshal([]raCase{c})
			tmp.Write(b)
			tmp.Close()
			defer os.Remove(tmp.Name())
			outdir, _ := os.MkdirTemp("", "hx-ra-out")
			defer os.RemoveAll(outdir)
			cmd := exec.Command(self, "reattach", "-child", "-cases", tmp.Name(), "-out", outdir)
			err := cmd.Run()
			lines, _ := os.ReadFile(filepath.Join(outdir, "reattach.lines"))
			parts := strings.SplitN(strings.TrimRight(string(lines), "\n"), "\t", 4)
			if err != nil || len(parts) != 4 {
				// the process serving the (test-mode) plugin did not survive the history
				sink.Put(15, fmt.Sprintf("r%d", i), sx.L{sx.I(map[string]int{"netrpc": 0, "grpc": 1}[c.Proto]), in}, sx.L{sx.I(-99)}, c)
				return
			}
			sink.PutRaw(15, fmt.Sprintf("r%d", i), parts[2], parts[3], c)
		}(i, c)
	}
	wg.Wait()
	return nil
}

// fakeAttached: what a caller-supplied ReattachFunc hands back for an in-process test-mode server
type fakeAttached struct {
	gone  chan struct{}
	kills int32
}

func (f *fakeAttached) Wait(context.Context) error                       { <-f.gone; return nil }
func (f *fakeAttached) Kill(context.Context) error                       { atomic.AddInt32(&f.kills, 1); return nil }
func (f *fakeAttached) ID() string                                       { return "test-mode-server" }
func (f *fakeAttached) PluginToHost(n, a string) (string, string, error) { return n, a, nil }
func (f *fakeAttached) HostToPlugin(n, a string) (string, string, error) { return n, a, nil }
