package main

// C20: concurrent use under the Go race detector.  This family is meant to run from the race-instrumented
// build (hx-race, vplugin-race); every scenario is a child process so that its race reports (GORACE
// log_path) can be attributed.  Observed: race reports whose stacks have go-plugin frames, on the host and
// on the plugin; panics; the ids NextId handed out on each side.

import (
	"fmt"
	"os"
	"path/filepath"
	"sort"
	"strings"
	"sync"
	"sync/atomic"
	"time"

	plugin "github.com/hashicorp/go-plugin"
	"google.golang.org/grpc"
	"verif/harness/hk"
	"verif/harness/sx"
	"verif/harness/vp"
)

type rcCase struct {
	Kind   string `json:"kind"`  // client-methods | dispense | broker | shutdown
	Proto  string `json:"proto"` // netrpc | grpc
	Mux    bool   `json:"mux"`
	N      int    `json:"n"`      // goroutines
	K      int    `json:"k"`      // operations per goroutine
	Jitter int    `json:"jitter"` // microseconds of random delay at the hook points (both sides)
	Seed   int64  `json:"seed"`
	Note   string `json:"note,omitempty"`
}

func init() {
	families["race"] = runRace
	// a child that died: a panic on a goroutine of the library took the host process down
	childFailObs["race"] = func(c interface{}) (string, string) {
		return sx.String(sx.L{sx.I(0), sx.I(0)}), sx.String(sx.L{sx.I(0), sx.I(0), sx.I(1), sx.I(0), sx.L{}, sx.L{}})
	}
}

func genRace(o opts) []rcCase {
	r := hk.Rng(o.seed + 151)
	n := 18
	if o.tier == "thorough" {
		n = 120
	}
	var cs []rcCase
	for _, pm := range []string{"netrpc", "grpc"} {
		cs = append(cs, rcCase{Kind: "reuse-id", Proto: pm, N: 2, K: 2})
	}
	for _, kind := range []string{"client-methods", "dispense", "broker", "shutdown", "accept-close"} {
		for _, pm := range []struct {
			p string
			m bool
		}{{"netrpc", false}, {"grpc", false}, {"grpc", true}} {
			cs = append(cs, rcCase{Kind: kind, Proto: pm.p, Mux: pm.m, N: 8, K: 6, Jitter: 0})
		}
	}
	for len(cs) < n {
		pm := hk.Pick(r, []struct {
			p string
			m bool
		}{{"netrpc", false}, {"grpc", false}, {"grpc", true}})
		cs = append(cs, rcCase{Kind: hk.Pick(r, []string{"client-methods", "dispense", "broker", "broker", "shutdown", "shutdown", "accept-close"}), Proto: pm.p, Mux: pm.m,
			N: 2 + r.Intn(14), K: 1 + r.Intn(8), Jitter: hk.Pick(r, []int{0, 50, 500, 3000})})
	}
	for i := range cs {
		cs[i].Seed = o.seed*1000 + int64(i)
	}
	return cs
}

var racePanics int32

func guard(f func()) {
	defer func() {
		if r := recover(); r != nil {
			atomic.AddInt32(&racePanics, 1)
			fmt.Fprintln(os.Stderr, "panic in scenario goroutine:", r)
		}
	}()
	f()
}

// raceReports counts the DATA RACE blocks with go-plugin frames in the race detector's log of process pid.
func raceReports(prefix string, pid int) (int, string) {
	b, err := os.ReadFile(fmt.Sprintf("%s.%d", prefix, pid))
	if err != nil {
		return 0, ""
	}
	n, first := 0, ""
	for _, blk := range strings.Split(string(b), "==================") {
		if !strings.Contains(blk, "DATA RACE") {
			continue
		}
		if strings.Contains(blk, "github.com/hashicorp/go-plugin.") || strings.Contains(blk, "github.com/hashicorp/go-plugin/internal") {
			n++
			if first == "" {
				first = blk
			}
		}
	}
	return n, first
}

func runOneRace(c rcCase) (sx.V, sx.V, rcCase) {
	prefix := ""
	for _, kv := range strings.Fields(os.Getenv("GORACE")) {
		if strings.HasPrefix(kv, "log_path=") {
			prefix = strings.TrimPrefix(kv, "log_path=")
		}
	}
	var jstate uint64 = uint64(c.Seed)
	if c.Jitter > 0 {
		plugin.VerifSetHook(func(string, uint32) {
			x := atomic.AddUint64(&jstate, 0x9E3779B97F4A7C15)
			x ^= x >> 31
			time.Sleep(time.Duration(x%uint64(c.Jitter)) * time.Microsecond)
		})
	}
	if c.Kind == "accept-close" {
		return runAcceptClose(c, prefix)
	}
	if c.Kind == "reuse-id" {
		return runReuseID(c, prefix)
	}
	var perr syncBuf
	o := vpOpts{Proto: c.Proto, Mux: c.Mux, Plugin: map[string]interface{}{"jitter_us": c.Jitter}, Stderr: &perr}
	cfg := vpClientConfig(o)
	cl := plugin.NewClient(cfg)
	var hostIDs, plugIDs []uint32
	var idMu sync.Mutex
	pluginPid := 0
	var wg sync.WaitGroup
	spawn := func(n int, f func(g int)) {
		for g := 0; g < n; g++ {
			wg.Add(1)
			go func(g int) { defer wg.Done(); guard(func() { f(g) }) }(g)
		}
	}
	fails := int32(0)
	switch c.Kind {
	case "client-methods":
		// every goroutine starts at once on a fresh client
		spawn(c.N, func(g int) {
			for k := 0; k < c.K; k++ {
				switch (g + k) % 6 {
				case 0:
					cl.Start()
				case 1:
					if rc, err := cl.Client(); err == nil {
						rc.Ping()
					}
				case 2:
					cl.Protocol()
				case 3:
					cl.ID()
					cl.Exited()
				case 4:
					cl.ReattachConfig()
				case 5:
					if _, err := cl.Start(); err == nil {
						cl.NegotiatedVersion()
					}
				}
			}
		})
		waitBounded(&wg)
		if rc := cl.ReattachConfig(); rc != nil {
			pluginPid = rc.Pid
		}
		spawn(3, func(int) { cl.Kill() })
		spawn(2, func(int) { cl.Exited(); cl.ID() })
		waitBounded(&wg)
	default:
		var rpcc plugin.ClientProtocol
		var raw interface{}
		var err error
		if !within(25*time.Second, func() {
			if rpcc, err = cl.Client(); err == nil {
				raw, err = rpcc.Dispense("vp")
			}
		}) {
			err = fmt.Errorf("the plugin could not be started and dispensed within 25 s")
		}
		if err != nil {
			boundedKill(cl)
			return nil, nil, c
		}
		pluginPid = cl.ReattachConfig().Pid
		caller := bounded(raw.(vp.Caller))
		dispenseAndCall := func(g int) {
			for k := 0; k < c.K; k++ {
				raw, err := rpcc.Dispense("vp")
				if err != nil {
					atomic.AddInt32(&fails, 1)
					continue
				}
				cc := bounded(raw.(vp.Caller))
				if out, err := cc.Call(vp.Req{Op: "echo", Data: []byte{byte(g), byte(k)}}); err != nil || len(out.Data) != 2 {
					atomic.AddInt32(&fails, 1)
				}
				rpcc.Ping()
			}
		}
		brokerOps := func(g int) {
			for k := 0; k < c.K; k++ {
				// ids: NextId on both sides, recorded
				var hid uint32
				if gb := caller.GRPC(); gb != nil {
					hid = gb.NextId()
				} else {
					hid = caller.Mux().NextId()
				}
				out, err := caller.Call(vp.Req{Op: "nextid"})
				idMu.Lock()
				hostIDs = append(hostIDs, hid)
				if err == nil {
					plugIDs = append(plugIDs, out.ID)
				}
				idMu.Unlock()
				// distinct ids for establishments: host accepts on 100000+..., plugin accepts on 200000+...
				id := uint32(100000 + g*100 + k)
				if (g+k)%2 == 0 {
					if gb := caller.GRPC(); gb != nil {
						go gb.AcceptAndServe(id, func(opts []grpc.ServerOption) *grpc.Server {
							s := grpc.NewServer(opts...)
							vp.Register(s, hostWho(id), gb)
							return s
						})
					} else {
						mb := caller.Mux()
						go mb.AcceptAndServe(id, vp.NetService(hostWho(id), mb))
					}
					if out, err := caller.Call(vp.Req{Op: "dial", ID: id}); err != nil || out.Err != "" || out.ID != id {
						atomic.AddInt32(&fails, 1)
					}
				} else {
					id += 100000
					if _, err := caller.Call(vp.Req{Op: "accept", ID: id}); err != nil {
						atomic.AddInt32(&fails, 1)
						continue
					}
					if gb := caller.GRPC(); gb != nil {
						cc, err := gb.Dial(id)
						if err != nil {
							atomic.AddInt32(&fails, 1)
							continue
						}
						if w, err := vp.NewGRPCCaller(cc, gb).Call(vp.Req{Op: "who"}); err != nil || w.ID != id {
							atomic.AddInt32(&fails, 1)
						}
						cc.Close()
					} else {
						conn, err := caller.Mux().Dial(id)
						if err != nil {
							atomic.AddInt32(&fails, 1)
							continue
						}
						if w, err := vp.NewNetCaller(newRPC(conn), caller.Mux()).Call(vp.Req{Op: "who"}); err != nil || w.ID != id {
							atomic.AddInt32(&fails, 1)
						}
						conn.Close()
					}
				}
			}
		}
		switch c.Kind {
		case "dispense":
			spawn(c.N, dispenseAndCall)
			waitBounded(&wg)
			boundedKill(cl)
		case "broker":
			n := c.N
			if c.Mux && n > 1 {
				n = 1 // with multiplexing, establishments must not overlap (documented); ids still come from many goroutines below
				spawn(c.N, func(g int) {
					for k := 0; k < c.K; k++ {
						hid := caller.GRPC().NextId()
						out, err := caller.Call(vp.Req{Op: "nextid"})
						idMu.Lock()
						hostIDs = append(hostIDs, hid)
						if err == nil {
							plugIDs = append(plugIDs, out.ID)
						}
						idMu.Unlock()
					}
				})
				waitBounded(&wg)
			}
			spawn(n, brokerOps)
			waitBounded(&wg)
			boundedKill(cl)
		case "shutdown":
			// operations in flight while the client is shut down from several goroutines at once
			spawn(c.N/2+1, func(g int) { dispenseAndCall(g) })
			if !c.Mux {
				spawn(c.N/2+1, func(g int) { brokerOps(g) })
			}
			time.Sleep(time.Duration(5+c.Seed%40) * time.Millisecond)
			spawn(c.N, func(int) { rpcc.Close() }) // many closers at once: the close-once guards are what is under test
			spawn(3, func(int) { cl.Kill() })
			waitBounded(&wg)
			fails = 0 // operations cut short by the shutdown fail legitimately
		}
	}
	boundedKill(cl)
	time.Sleep(300 * time.Millisecond) // let the plugin's race log reach the disk
	rh, firstH := raceReports(prefix, os.Getpid())
	rp, firstP := raceReports(prefix, pluginPid)
	np := int(atomic.LoadInt32(&racePanics)) + pluginPanics(perr.Bytes())
	if firstH != "" || firstP != "" {
		c.Note = firstH + firstP
		if len(c.Note) > 3000 {
			c.Note = c.Note[:3000]
		}
	}
	sort.Slice(hostIDs, func(i, j int) bool { return hostIDs[i] < hostIDs[j] })
	sort.Slice(plugIDs, func(i, j int) bool { return plugIDs[i] < plugIDs[j] })
	ids := func(l []uint32) sx.L {
		out := sx.L{}
		for _, x := range l {
			out = append(out, sx.I(int64(x)))
		}
		return out
	}
	in := sx.L{sx.I(len(hostIDs)), sx.I(len(plugIDs))}
	obs := sx.L{sx.I(rh), sx.I(rp), sx.I(np), sx.I(int(fails) + int(atomic.LoadInt32(&raceHangs))), ids(hostIDs), ids(plugIDs)}
	return in, obs, c
}

func runRace(o opts) error {
	var cs []rcCase
	if o.cases != "" {
		if err := hk.LoadCases(o.cases, &cs); err != nil {
			return err
		}
	} else {
		cs = genRace(o)
	}
	sink, err := hk.NewSink(o.out, "race")
	if err != nil {
		return err
	}
	defer sink.Close()
	if o.child {
		in, obs, c := runOneRace(cs[0])
		if in == nil {
			return fmt.Errorf("the plugin did not start")
		}
		sink.Put(20, "r0", in, obs, c)
		return nil
	}
	logdir := filepath.Join(o.out, "racelogs")
	os.RemoveAll(logdir)
	os.MkdirAll(logdir, 0o755)
	os.Setenv("GORACE", "log_path="+filepath.Join(logdir, "r")+" halt_on_error=0 exitcode=0")
	return fanOut(o, "race", 20, "r", len(cs), func(i int) interface{} { return cs[i] }, sink, 6)
}

// pluginPanics counts Go panics in what the plugin wrote to its stderr.
func pluginPanics(b []byte) int {
	n := 0
	for _, ln := range strings.Split(string(b), "\n") {
		if strings.HasPrefix(ln, "panic: ") || strings.HasPrefix(ln, "fatal error: ") {
			n++
		}
	}
	return n
}

// runAcceptClose: broker Accept calls with distinct fresh ids in flight on both sides while the protocol client is closed
// (shutdown racing in-flight operations), several sessions per case.  A panic on the host kills this child (reported by
// the parent); a panic in the plugin shows on its stderr.
func runAcceptClose(c rcCase, prefix string) (sx.V, sx.V, rcCase) {
	rh, rp, np := 0, 0, 0
	first := ""
	if c.Proto != "grpc" {
		// net/rpc: Accept/Dial on the MuxBroker racing Close
		c.Note = "net/rpc variant"
	}
	for trial := 0; trial < 8; trial++ {
		var perr syncBuf
		cfg := vpClientConfig(vpOpts{Proto: c.Proto, Mux: c.Mux, Plugin: map[string]interface{}{"jitter_us": c.Jitter}, Stderr: &perr})
		cl := plugin.NewClient(cfg)
		rpcc, err := cl.Client()
		if err != nil {
			boundedKill(cl)
			continue
		}
		pid := cl.ReattachConfig().Pid
		raw, err := rpcc.Dispense("vp")
		if err != nil {
			boundedKill(cl)
			continue
		}
		caller := bounded(raw.(vp.Caller))
		var wg sync.WaitGroup
		stop := make(chan struct{})
		for g := 0; g < c.N; g++ {
			wg.Add(1)
			go func(g int) {
				defer wg.Done()
				guard(func() {
					for k := 0; ; k++ {
						select {
						case <-stop:
							return
						default:
						}
						id := uint32(300000 + trial*10000 + g*500 + k)
						if g%2 == 0 {
							if gb := caller.GRPC(); gb != nil {
								if ln, err := gb.Accept(id); err == nil {
									ln.Close()
								} else {
									return
								}
							} else {
								done := make(chan struct{})
								go func() { caller.Mux().Dial(id); close(done) }()
								select {
								case <-done:
								case <-stop:
									return
								}
							}
						} else {
							// the plugin accepts: its Send is in flight when Stop arrives
							if _, err := caller.Call(vp.Req{Op: "accept", ID: id + 100000}); err != nil {
								return
							}
						}
					}
				})
			}(g)
		}
		// Dial racing Close (gRPC without multiplexing): the plugin accepts an id, the host dials it; the moment between taking
		// the connection information and closing the entry's done channel is stretched by a hook point, and Close arrives in it
		if gb := caller.GRPC(); gb != nil && !c.Mux && trial%2 == 1 {
			plugin.VerifSetHook(func(name string, id uint32) {
				if name == "grpc.dial.taking" {
					time.Sleep(120 * time.Millisecond)
				}
			})
			for g := 0; g < 4; g++ {
				wg.Add(1)
				go func(g int) {
					defer wg.Done()
					guard(func() {
						id := uint32(900000 + trial*100 + g)
						if _, err := caller.Call(vp.Req{Op: "accept", ID: id}); err != nil {
							return
						}
						if cc, err := gb.Dial(id); err == nil {
							cc.Close()
						}
					})
				}(g)
			}
			time.Sleep(40 * time.Millisecond)
		}
		time.Sleep(time.Duration(3+(int(c.Seed)+trial*7)%25) * time.Millisecond)
		var cw sync.WaitGroup
		for k := 0; k < 2; k++ {
			cw.Add(1)
			go func() { defer cw.Done(); guard(func() { rpcc.Close() }) }()
		}
		waitBounded(&cw)
		close(stop)
		wgDone := make(chan struct{})
		go func() { wg.Wait(); close(wgDone) }()
		select {
		case <-wgDone:
		case <-time.After(8 * time.Second):
		}
		kd := make(chan struct{})
		go func() { cl.Kill(); close(kd) }()
		select {
		case <-kd:
		case <-time.After(8 * time.Second):
		}
		time.Sleep(100 * time.Millisecond)
		n, f := raceReports(prefix, pid)
		rp += n
		if first == "" {
			first = f
		}
		np += pluginPanics(perr.Bytes())
		if pp := pluginPanics(perr.Bytes()); pp > 0 && first == "" {
			first = string(perr.Bytes())
		}
	}
	n, f := raceReports(prefix, os.Getpid())
	rh = n
	if first == "" {
		first = f
	}
	np += int(atomic.LoadInt32(&racePanics))
	if len(first) > 3000 {
		first = first[:3000]
	}
	c.Note = first
	return sx.L{sx.I(0), sx.I(0)}, sx.L{sx.I(rh), sx.I(rp), sx.I(np), sx.I(0), sx.L{}, sx.L{}}, c
}

// runReuseID: one id used again right after its first use (never two uses at the same time): the plugin dials, the host
// accepts, and once more; for gRPC the plugin accepts and the host dials, twice.  The pending entry of the first use is
// still in the broker's map while its expiry goroutine is on its way to remove it (a hook point holds that goroutine up
// for a quarter of a second), so the second connection is parked in the same entry.  Nothing may panic.
func runReuseID(c rcCase, prefix string) (sx.V, sx.V, rcCase) {
	plugin.VerifSetHook(func(name string, id uint32) {
		if name == "mux.timeout.wake" || name == "grpc.timeout.wake" {
			time.Sleep(250 * time.Millisecond)
		}
	})
	rp, np := 0, 0
	first := ""
	for trial := 0; trial < 3; trial++ {
		var perr syncBuf
		cl, caller, err := startVP(vpOpts{Proto: c.Proto, Stderr: &perr})
		if err != nil {
			continue
		}
		pid := cl.ReattachConfig().Pid
		id := uint32(700000 + trial)
		guard(func() {
			for use := 0; use < 2; use++ {
				if gb := caller.GRPC(); gb != nil {
					if _, err := caller.Call(vp.Req{Op: "accept", ID: id}); err != nil {
						return
					}
					cc, err := gb.Dial(id)
					if err == nil {
						cc.Close()
					}
				} else {
					go caller.Call(vp.Req{Op: "dial", ID: id})
					conn, err := caller.Mux().Accept(id)
					if err == nil {
						conn.Close()
					}
				}
				time.Sleep(20 * time.Millisecond)
			}
		})
		time.Sleep(400 * time.Millisecond)
		boundedKill(cl)
		n, f := raceReports(prefix, pid)
		rp += n
		if first == "" {
			first = f
		}
		np += pluginPanics(perr.Bytes())
	}
	rh, f := raceReports(prefix, os.Getpid())
	if first == "" {
		first = f
	}
	np += int(atomic.LoadInt32(&racePanics))
	if len(first) > 3000 {
		first = first[:3000]
	}
	c.Note = first
	return sx.L{sx.I(0), sx.I(0)}, sx.L{sx.I(rh), sx.I(rp), sx.I(np), sx.I(0), sx.L{}, sx.L{}}, c
}

// waitBounded: a scenario's goroutines normally finish within seconds; a changed library can block one of them for good
// (a Dial that never gets its ack): after 40 s the scenario goes on without them and the hang is counted as a failure.
var raceHangs int32

func waitBounded(wg *sync.WaitGroup) {
	if !within(40*time.Second, wg.Wait) {
		atomic.AddInt32(&raceHangs, 1)
	}
}
