package main

// C04: Kill / CleanupClients against real vplugin processes with scripted shutdown behaviour.

import (
	"context"
	"errors"
	"fmt"
	"io"
	"net"
	"os"
	"os/exec"
	"path/filepath"
	"strconv"
	"strings"
	"sync"
	"syscall"
	"time"

	hclog "github.com/hashicorp/go-hclog"
	plugin "github.com/hashicorp/go-plugin"
	"github.com/hashicorp/go-plugin/runner"
	"verif/harness/hk"
	"verif/harness/sx"
)

type killCase struct {
	Proto     string `json:"proto"`
	Behaviour string `json:"behaviour"` // exit | delay | ignore | frozen | dead | badhandshake | neverstarted | launchfails | runnerfails
	Launch    string `json:"launch"`    // cmd | reattach
	Pattern   string `json:"pattern"`   // single | repeat3 | concurrent4 | cleanup
	Mux       bool   `json:"mux"`
}

func init() {
	families["kill"] = runKill
	families["kill-launcher"] = runKillLauncher
}

// runKillLauncher (internal): start the plugin described by the single case, print where it is, and stay until
// stdin closes -- then leave WITHOUT touching the plugin.  Lets the kill family reattach to a plugin that is somebody
// else's child.
func runKillLauncher(o opts) error {
	var cs []killCase
	if err := hk.LoadCases(o.cases, &cs); err != nil || len(cs) != 1 {
		return fmt.Errorf("kill-launcher: one case expected")
	}
	c := cs[0]
	pc := map[string]interface{}{"marker": os.Getenv("KILL_MARKER")}
	switch c.Behaviour {
	case "delay":
		pc["shutdown"], pc["shutdown_ms"] = "delay", 300
	case "ignore":
		pc["shutdown"] = "ignore"
	}
	cl := plugin.NewClient(vpClientConfig(vpOpts{Proto: c.Proto, Mux: c.Mux, Plugin: pc}))
	if _, err := cl.Client(); err != nil {
		return err
	}
	rc := cl.ReattachConfig()
	fmt.Printf("%d %s %s %s\n", rc.Pid, rc.Addr.Network(), rc.Addr.String(), rc.Protocol)
	os.Stdout.Sync()
	io.Copy(io.Discard, os.Stdin)
	os.Exit(0)
	return nil
}

// launchfails / runnerfails: Start was called but no process ever ran (exec error; a custom runner whose Start fails):
// no process, but a runner is recorded
var behCode = map[string]int{"exit": 0, "delay": 1, "ignore": 2, "frozen": 3, "dead": 4, "badhandshake": 5, "neverstarted": 6, "launchfails": 7, "runnerfails": 7}

func genKill(o opts) []killCase {
	r := hk.Rng(o.seed + 101)
	var cs []killCase
	for _, pr := range []string{"netrpc", "grpc"} {
		for _, b := range []string{"exit", "delay", "ignore", "frozen", "dead", "badhandshake", "neverstarted", "launchfails", "runnerfails"} {
			if b == "frozen" && pr == "netrpc" && o.tier != "thorough" {
				continue // bounded only by yamux's keep-alive (about 40 s): thorough tier
			}
			cs = append(cs, killCase{Proto: pr, Behaviour: b, Launch: "cmd", Pattern: "single"})
		}
	}
	cs = append(cs,
		killCase{Proto: "grpc", Behaviour: "delay", Launch: "cmd", Pattern: "concurrent4"},
		killCase{Proto: "netrpc", Behaviour: "delay", Launch: "cmd", Pattern: "concurrent4"},
		killCase{Proto: "grpc", Behaviour: "ignore", Launch: "cmd", Pattern: "repeat3"},
		killCase{Proto: "netrpc", Behaviour: "exit", Launch: "cmd", Pattern: "cleanup"},
		killCase{Proto: "grpc", Behaviour: "delay", Launch: "cmd", Pattern: "cleanup"},
		killCase{Proto: "grpc", Behaviour: "exit", Launch: "reattach", Pattern: "single"},
		killCase{Proto: "netrpc", Behaviour: "ignore", Launch: "reattach", Pattern: "single"},
		// a custom runner (whose Kill, like an API-backed runner's, refuses a request made with a finished context)
		killCase{Proto: "netrpc", Behaviour: "ignore", Launch: "runner", Pattern: "single"},
		killCase{Proto: "grpc", Behaviour: "ignore", Launch: "runner", Pattern: "single"},
		killCase{Proto: "grpc", Behaviour: "delay", Launch: "runner", Pattern: "single"},
		// the plugin was started by ANOTHER process (it is not a child of the host that reattaches and kills)
		killCase{Proto: "grpc", Behaviour: "ignore", Launch: "reattach-foreign", Pattern: "single"},
		killCase{Proto: "netrpc", Behaviour: "delay", Launch: "reattach-foreign", Pattern: "single"},
		killCase{Proto: "netrpc", Behaviour: "exit", Launch: "reattach-foreign", Pattern: "repeat3"},
		killCase{Proto: "grpc", Behaviour: "exit", Launch: "cmd", Pattern: "single", Mux: true},
		killCase{Proto: "grpc", Behaviour: "frozen", Launch: "cmd", Pattern: "concurrent4", Mux: true},
	)
	if o.tier == "thorough" {
		for k := 0; k < 60; k++ {
			c := killCase{Proto: hk.Pick(r, []string{"netrpc", "grpc"}), Behaviour: hk.Pick(r, []string{"exit", "delay", "ignore", "frozen", "dead", "badhandshake"}),
				Launch: hk.Pick(r, []string{"cmd", "cmd", "reattach"}), Pattern: hk.Pick(r, []string{"single", "repeat3", "concurrent4", "cleanup"})}
			c.Mux = c.Proto == "grpc" && r.Intn(3) == 0 && c.Launch == "cmd"
			if c.Behaviour == "frozen" && c.Proto == "netrpc" {
				c.Behaviour = "ignore"
			}
			if c.Launch == "reattach" && (c.Behaviour == "badhandshake" || c.Mux) {
				c.Launch = "cmd"
			}
			cs = append(cs, c)
		}
	}
	return cs
}

func runOneKill(c killCase, tmpBase string, idx int) (sx.V, sx.V) {
	pr := 0
	if c.Proto == "grpc" {
		pr = 1
	}
	in := sx.L{sx.I(pr), sx.I(behCode[c.Behaviour])}
	marker := filepath.Join(tmpBase, fmt.Sprintf("marker-%d", idx))
	pc := map[string]interface{}{"marker": marker}
	switch c.Behaviour {
	case "delay":
		pc["shutdown"], pc["shutdown_ms"] = "delay", 300
	case "ignore":
		pc["shutdown"] = "ignore"
	case "badhandshake":
		pc["pre_output"] = "this is a banner, not a handshake\n" // Start fails on the first line; the real line follows it
	}
	if c.Launch == "reattach-foreign" {
		return runForeignKill(c, in, marker)
	}
	cfg := vpClientConfig(vpOpts{Proto: c.Proto, Mux: c.Mux, Plugin: pc, Managed: c.Pattern == "cleanup"})
	switch c.Behaviour {
	case "launchfails":
		cfg.Cmd = exec.Command(filepath.Join(tmpBase, "no-such-plugin-binary"))
	case "runnerfails":
		cfg.Cmd = nil
		cfg.RunnerFunc = func(hclog.Logger, *exec.Cmd, string) (runner.Runner, error) { return failingRunner{}, nil }
	}
	if c.Launch == "runner" {
		cmd := cfg.Cmd
		cfg.Cmd = nil
		cfg.RunnerFunc = func(l hclog.Logger, spec *exec.Cmd, tmp string) (runner.Runner, error) {
			real := exec.Command(cmd.Path)
			real.Env = append(append([]string{}, cmd.Env...), spec.Env...)
			return newProcRunner(real)
		}
	}
	cl := plugin.NewClient(cfg)
	pid := 0
	if c.Behaviour == "launchfails" || c.Behaviour == "runnerfails" {
		if _, err := cl.Start(); err == nil {
			cl.Kill()
			return in, sx.L{sx.I(0), sx.I(0), sx.I(0), sx.I(0), sx.I(0)}
		}
	} else if c.Behaviour != "neverstarted" {
		_, err := cl.Client()
		pid, _ = strconv.Atoi(cl.ID())
		if c.Behaviour == "badhandshake" {
			if err == nil {
				return in, sx.L{sx.I(0), sx.I(0), sx.I(0), sx.I(0), sx.I(0)}
			}
		} else if err != nil {
			cl.Kill()
			return in, sx.L{sx.I(0), sx.I(0), sx.I(0), sx.I(0), sx.I(0)}
		}
	}
	target := cl
	if c.Launch == "reattach" {
		target = plugin.NewClient(&plugin.ClientConfig{HandshakeConfig: cfg.HandshakeConfig, Plugins: cfg.Plugins, Reattach: cl.ReattachConfig(),
			Logger: hk.QuietLogger(), Managed: c.Pattern == "cleanup"})
		if _, err := target.Client(); err != nil {
			cl.Kill()
			return in, sx.L{sx.I(0), sx.I(0), sx.I(0), sx.I(0), sx.I(0)}
		}
	}
	switch c.Behaviour {
	case "frozen":
		syscall.Kill(pid, syscall.SIGSTOP)
	case "dead":
		syscall.Kill(pid, syscall.SIGKILL)
		time.Sleep(300 * time.Millisecond)
	}
	// each Kill call must itself return only once the process is gone (when there was one)
	bound := 9 * time.Second
	if c.Behaviour == "frozen" && c.Proto == "netrpc" {
		bound = 60 * time.Second // the quit request to a stopped net/rpc plugin ends with yamux's keep-alive (30 s + 10 s), then the force kill
	}
	okAll := true
	var mu sync.Mutex
	oneKill := func() {
		done := make(chan struct{})
		go func() {
			defer func() {
				if r := recover(); r != nil {
					mu.Lock()
					okAll = false // Kill panicked
					mu.Unlock()
				}
				close(done)
			}()
			if c.Pattern == "cleanup" {
				plugin.CleanupClients()
			} else {
				target.Kill()
			}
		}()
		select {
		case <-done:
			if pid > 0 && procAlive(pid) {
				mu.Lock()
				okAll = false // returned while the process is still there
				mu.Unlock()
			}
		case <-time.After(bound):
			mu.Lock()
			okAll = false
			mu.Unlock()
		}
	}
	switch c.Pattern {
	case "repeat3":
		oneKill()
		oneKill()
		oneKill()
	case "concurrent4":
		var wg sync.WaitGroup
		for k := 0; k < 4; k++ {
			wg.Add(1)
			go func(k int) {
				defer wg.Done()
				time.Sleep(time.Duration(k*150) * time.Millisecond)
				oneKill()
			}(k)
		}
		wg.Wait()
	default:
		oneKill()
	}
	exited := target.Exited()
	gone := pid == 0 || !procAlive(pid)
	_, merr := os.Stat(marker)
	// the processKilled flag also becomes true when the plugin had already exited by itself and the reply to the
	// quit request was lost in the exit (a benign race of net/rpc); what matters is a force kill that cut the cleanup short
	forced := plugin.VerifKilled(target) && merr != nil
	if pid > 0 && procAlive(pid) {
		syscall.Kill(pid, syscall.SIGCONT)
		syscall.Kill(pid, syscall.SIGKILL)
	}
	if target != cl {
		cl.Kill()
	}
	os.Remove(marker)
	return in, sx.L{sx.Bool(okAll), sx.Bool(exited), sx.Bool(gone), sx.Bool(merr == nil), sx.Bool(forced)}
}

func runKill(o opts) error {
	var cs []killCase
	if o.cases != "" {
		if err := hk.LoadCases(o.cases, &cs); err != nil {
			return err
		}
	} else {
		cs = genKill(o)
	}
	sink, err := hk.NewSink(o.out, "kill")
	if err != nil {
		return err
	}
	defer sink.Close()
	tmpBase, _ := os.MkdirTemp("", "hx-kill")
	defer os.RemoveAll(tmpBase)
	// CleanupClients is process-global: those cases run in child processes, the rest in parallel here
	var wg sync.WaitGroup
	sem := make(chan struct{}, 12)
	for i, c := range cs {
		if c.Pattern == "cleanup" && !o.child {
			continue
		}
		wg.Add(1)
		sem <- struct{}{}
		go func(i int, c killCase) {
			defer wg.Done()
			defer func() { <-sem }()
			in, obs := runOneKill(c, tmpBase, i)
			sink.Put(4, fmt.Sprintf("z%d", i), in, obs, c)
		}(i, c)
	}
	wg.Wait()
	if !o.child {
		var cl []killCase
		for _, c := range cs {
			if c.Pattern == "cleanup" {
				cl = append(cl, c)
			}
		}
		if len(cl) > 0 {
			return fanOut(o, "kill", 4, "zc", len(cl), func(i int) interface{} { return cl[i] }, sink, 8)
		}
	}
	return nil
}

// failingRunner: a custom runner whose Start fails (nothing is ever launched).
type failingRunner struct{}

func (failingRunner) Start(context.Context) error                      { return errors.New("runner cannot start") }
func (failingRunner) Wait(context.Context) error                       { return nil }
func (failingRunner) Kill(context.Context) error                       { return nil }
func (failingRunner) Stdout() io.ReadCloser                            { return io.NopCloser(strings.NewReader("")) }
func (failingRunner) Stderr() io.ReadCloser                            { return io.NopCloser(strings.NewReader("")) }
func (failingRunner) Name() string                                     { return "failing-runner" }
func (failingRunner) ID() string                                       { return "failing-runner-1" }
func (failingRunner) Diagnose(context.Context) string                  { return "" }
func (failingRunner) PluginToHost(n, a string) (string, string, error) { return n, a, nil }
func (failingRunner) HostToPlugin(n, a string) (string, string, error) { return n, a, nil }

// startForeignPlugin starts a plugin as the child of a launcher process (not of this one) and returns where it is.
func startForeignPlugin(proto, behaviour, marker string) (pid int, na net.Addr, protoStr string, cleanup func(), err error) {
	self, _ := os.Executable()
	cf, _ := os.CreateTemp("", "hx-kl-*.json")
	fmt.Fprintf(cf, `[{"proto":%q,"behaviour":%q,"launch":"cmd","pattern":"single","mux":false}]`, proto, behaviour)
	cf.Close()
	lc := exec.Command(self, "kill-launcher", "-cases", cf.Name(), "-out", os.TempDir())
	lc.Env = append(os.Environ(), "KILL_MARKER="+marker)
	stdin, _ := lc.StdinPipe()
	stdout, _ := lc.StdoutPipe()
	if err = lc.Start(); err != nil {
		os.Remove(cf.Name())
		return 0, nil, "", func() {}, err
	}
	cleanup = func() {
		stdin.Close()
		lc.Process.Kill()
		lc.Wait()
		os.Remove(cf.Name())
		if pid > 0 && procAlive(pid) {
			syscall.Kill(pid, syscall.SIGKILL)
		}
	}
	var network, addr string
	lineCh := make(chan bool, 1)
	go func() {
		_, e := fmt.Fscanf(stdout, "%d %s %s %s\n", &pid, &network, &addr, &protoStr)
		lineCh <- e == nil
	}()
	select {
	case ok := <-lineCh:
		if !ok {
			cleanup()
			return 0, nil, "", func() {}, fmt.Errorf("launcher printed nothing usable")
		}
	case <-time.After(15 * time.Second):
		cleanup()
		return 0, nil, "", func() {}, fmt.Errorf("launcher timed out")
	}
	if network == "unix" {
		na, _ = net.ResolveUnixAddr("unix", addr)
	} else {
		na, _ = net.ResolveTCPAddr("tcp", addr)
	}
	return pid, na, protoStr, cleanup, nil
}

// runForeignKill: the plugin is the child of a launcher process; this process only reattaches and kills.
func runForeignKill(c killCase, in sx.V, marker string) (sx.V, sx.V) {
	fail := sx.L{sx.I(0), sx.I(0), sx.I(0), sx.I(0), sx.I(0)}
	pid, na, proto, cleanup, err := startForeignPlugin(c.Proto, c.Behaviour, marker)
	if err != nil {
		return in, fail
	}
	defer cleanup()
	defer os.Remove(marker)
	base := vpClientConfig(vpOpts{Proto: c.Proto})
	target := plugin.NewClient(&plugin.ClientConfig{HandshakeConfig: base.HandshakeConfig, Plugins: base.Plugins,
		Reattach: &plugin.ReattachConfig{Protocol: plugin.Protocol(proto), ProtocolVersion: 1, Addr: na, Pid: pid}, Logger: hk.QuietLogger()})
	started := make(chan error, 1)
	go func() { _, err := target.Client(); started <- err }()
	select {
	case err := <-started:
		if err != nil {
			return in, fail
		}
	case <-time.After(15 * time.Second):
		return in, fail
	}
	okAll := true
	kills := 1
	if c.Pattern == "repeat3" {
		kills = 3
	}
	for k := 0; k < kills; k++ {
		done := make(chan bool, 1)
		go func() {
			defer func() {
				if r := recover(); r != nil {
					done <- false
				}
			}()
			target.Kill()
			done <- true
		}()
		select {
		case ok := <-done:
			if !ok || procAlive(pid) {
				okAll = false
			}
		case <-time.After(9 * time.Second):
			okAll = false
		}
	}
	exited := false
	within(3*time.Second, func() { exited = target.Exited() })
	gone := !procAlive(pid)
	_, merr := os.Stat(marker)
	forced := false
	within(3*time.Second, func() { forced = plugin.VerifKilled(target) && merr != nil })
	return in, sx.L{sx.Bool(okAll), sx.Bool(exited), sx.Bool(gone), sx.Bool(merr == nil), sx.Bool(forced)}
}
