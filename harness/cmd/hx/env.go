package main

// C17: the environment and stdin handed to the plugin. The host environment is varied by running
// the cases in child hx processes started with an explicit environment.

import (
	"bytes"
	"crypto/tls"
	"encoding/json"
	"errors"
	"fmt"
	"io"
	"os"
	"os/exec"
	"path/filepath"
	"sort"
	"strconv"
	"strings"
	"time"

	hclog "github.com/hashicorp/go-hclog"
	plugin "github.com/hashicorp/go-plugin"
	"github.com/hashicorp/go-plugin/runner"
	"verif/harness/hk"
	"verif/harness/sx"
)

type envCase struct {
	CookieKey string     `json:"cookie_key"`
	CookieVal string     `json:"cookie_value"`
	MinPort   uint       `json:"min_port"`
	MaxPort   uint       `json:"max_port"`
	CVersion  int        `json:"cversion"`
	HasLegacy bool       `json:"has_legacy"`
	Versioned []verEntry `json:"versioned"`
	Mux       bool       `json:"mux"`
	AutoMTLS  bool       `json:"automtls"`
	Group     string     `json:"group"`
	Launch    string     `json:"launch"` // cmd | runnerfunc
	Skip      bool       `json:"skip_host_env"`
	CmdEnv    []string   `json:"cmd_env"`
	HostEnv   []string   `json:"host_env"` // the environment of the hx child that runs this case
	// PresetStdin: the caller's exec.Cmd already has a Stdin of its own (the launched command must still read the host's stdin)
	PresetStdin bool `json:"preset_stdin,omitempty"`
	// PresetTLS: the caller also supplied a TLSConfig of its own (the certificate goes out exactly when AutoMTLS is on, all the same)
	PresetTLS bool `json:"preset_tls,omitempty"`
}

func init() {
	families["env"] = runEnv
	families["env-child"] = runEnvChild
}

var watchKeys = []string{"HOST_MARKER", "HOST_ONLY_2", "PATH", "CMD_OWN", "PLUGIN_EXTRA_UNKNOWN"}

func genEnv(o opts) [][]envCase {
	r := hk.Rng(o.seed + 53)
	nEnvs, perEnv := 10, 30
	if o.tier == "thorough" {
		nEnvs, perEnv = 60, 80
	}
	myGid := strconv.Itoa(os.Getgid())
	hostVariants := [][]string{
		{"PATH=/usr/bin:/bin", "HOST_MARKER=1"},
		{"PATH=/usr/bin:/bin", "HOST_MARKER=1", "PLUGIN_CLIENT_CERT=-----BEGIN CERTIFICATE-----\nAMBIENT\n-----END CERTIFICATE-----\n", "PLUGIN_MULTIPLEX_GRPC=true"},
		{"PATH=/usr/bin:/bin", "PLUGIN_MULTIPLEX_GRPC=false", "PLUGIN_PROTOCOL_VERSIONS=9,8", "PLUGIN_MIN_PORT=1", "PLUGIN_MAX_PORT=2"},
		{"PATH=/usr/bin:/bin", "HOST_ONLY_2=a=b=c", "HOST_MARKER=", "K=ambient-cookie", "BASIC_PLUGIN=ambient"},
		{"PATH=/usr/bin:/bin", "PLUGIN_CLIENT_CERT=x", "PLUGIN_CLIENT_CERT=y", "HOST_MARKER=1", "HOST_MARKER=2"},
		{"PATH=/usr/bin:/bin", "PLUGIN_EXTRA_UNKNOWN=1", "PLUGIN_UNIX_SOCKET_DIR=/nonexistent-ambient", "PLUGIN_UNIX_SOCKET_GROUP=" + myGid},
	}
	var groups [][]envCase
	for e := 0; e < nEnvs; e++ {
		host := append([]string{}, hostVariants[e%len(hostVariants)]...)
		if e >= len(hostVariants) {
			for k := r.Intn(4); k > 0; k-- {
				host = append(host, hk.Pick(r, []string{"PLUGIN_CLIENT_CERT=zzz", "PLUGIN_MULTIPLEX_GRPC=1", "PLUGIN_MULTIPLEX_GRPC=", "HOST_MARKER=r", "HOST_ONLY_2=", "PLUGIN_PROTOCOL_VERSIONS=", "K=V2", "PLUGIN_MIN_PORT=77"}))
			}
		}
		var cs []envCase
		for i := 0; i < perEnv; i++ {
			c := envCase{CookieKey: hk.Pick(r, []string{"K", "BASIC_PLUGIN", "MAGIC_COOKIE"}), CookieVal: hk.Pick(r, []string{"V", "hello", "a=b", ""}),
				CVersion: r.Intn(4), HasLegacy: r.Intn(2) == 0, Mux: r.Intn(2) == 0, AutoMTLS: r.Intn(3) == 0,
				Launch: hk.Pick(r, []string{"cmd", "runnerfunc"}), Skip: r.Intn(2) == 0, HostEnv: host, PresetStdin: r.Intn(3) == 0}
			c.PresetTLS = i%4 == 1
			switch r.Intn(3) {
			case 0:
				c.MinPort, c.MaxPort = 0, 0
			case 1:
				c.MinPort, c.MaxPort = 12000, 12010
			default:
				c.MinPort, c.MaxPort = 0, 5
			}
			seen := map[int]bool{}
			for k := r.Intn(4); k > 0; k-- {
				v := r.Intn(6)
				if !seen[v] {
					seen[v] = true
					c.Versioned = append(c.Versioned, verEntry{v, 10 + v, 1})
				}
			}
			if !c.HasLegacy && len(c.Versioned) == 0 {
				c.HasLegacy = true
			}
			if r.Intn(4) == 0 {
				c.Group = myGid
			}
			if c.Launch == "cmd" {
				for k := r.Intn(3); k > 0; k-- {
					c.CmdEnv = append(c.CmdEnv, hk.Pick(r, []string{"CMD_OWN=1", "PLUGIN_CLIENT_CERT=from-cmd", "PLUGIN_MULTIPLEX_GRPC=from-cmd", "HOST_MARKER=from-cmd", "K=from-cmd"}))
				}
			}
			cs = append(cs, c)
		}
		groups = append(groups, cs)
	}
	return groups
}

func runEnv(o opts) error {
	sink, err := hk.NewSink(o.out, "env")
	if err != nil {
		return err
	}
	defer sink.Close()
	var groups [][]envCase
	if o.cases != "" {
		var cs []envCase
		if err := hk.LoadCases(o.cases, &cs); err != nil {
			return err
		}
		for _, c := range cs {
			groups = append(groups, []envCase{c})
		}
	} else {
		groups = genEnv(o)
	}
	self, _ := os.Executable()
	n := 0
	for _, g := range groups {
		tmp, _ := os.CreateTemp("", "hx-env-*.json")
		b, _ := json.Marshal(g)
		tmp.Write(b)
		tmp.Close()
		outdir, _ := os.MkdirTemp("", "hx-env-out")
		cmd := exec.Command(self, "env-child", "-cases", tmp.Name(), "-out", outdir)
		cmd.Env = append([]string{}, g[0].HostEnv...)
		cmd.Env = append(cmd.Env, "HOME="+os.Getenv("HOME")) // harmless; not a watched key
		cmd.Stdin = os.Stdin
		out, err := cmd.CombinedOutput()
		if err != nil {
			return fmt.Errorf("env-child: %v: %s", err, out)
		}
		lines, _ := os.ReadFile(filepath.Join(outdir, "env-child.lines"))
		for i, ln := range strings.Split(strings.TrimRight(string(lines), "\n"), "\n") {
			parts := strings.SplitN(ln, "\t", 4)
			if len(parts) != 4 {
				continue
			}
			sink.PutRaw(17, fmt.Sprintf("v%d", n), parts[2], parts[3], g[i])
			n++
		}
		os.Remove(tmp.Name())
		os.RemoveAll(outdir)
	}
	return nil
}

type refusingRunner struct {
	cmd    *exec.Cmd
	tmpDir string
}

func effectiveOf(env []string, key string) (string, bool) {
	val, ok := "", false
	for _, kv := range env {
		if i := strings.IndexByte(kv, '='); i >= 0 && kv[:i] == key {
			val, ok = kv[i+1:], true
		}
	}
	return val, ok
}

func runEnvChild(o opts) error {
	var cs []envCase
	if err := hk.LoadCases(o.cases, &cs); err != nil {
		return err
	}
	sink, err := hk.NewSink(o.out, "env-child")
	if err != nil {
		return err
	}
	defer sink.Close()
	tmpBase, _ := os.MkdirTemp("", "hx-envc")
	defer os.RemoveAll(tmpBase)
	hostEnv := os.Environ()
	for i, c := range cs {
		cfg := &plugin.ClientConfig{
			HandshakeConfig: plugin.HandshakeConfig{ProtocolVersion: uint(c.CVersion), MagicCookieKey: c.CookieKey, MagicCookieValue: c.CookieVal},
			MinPort:         c.MinPort, MaxPort: c.MaxPort,
			StartTimeout:        3 * time.Second,
			Logger:              hk.QuietLogger(),
			SkipHostEnv:         c.Skip,
			GRPCBrokerMultiplex: c.Mux,
			AutoMTLS:            c.AutoMTLS,
			AllowedProtocols:    []plugin.Protocol{plugin.ProtocolNetRPC, plugin.ProtocolGRPC},
		}
		if c.PresetTLS {
			cfg.TLSConfig = &tls.Config{ServerName: "localhost", MinVersion: tls.VersionTLS12}
		}
		if c.Group != "" || true {
			cfg.UnixSocketConfig = &plugin.UnixSocketConfig{Group: c.Group, TempDir: tmpBase}
		}
		if c.HasLegacy {
			cfg.Plugins = mkSet(setSpec{1, 1})
		}
		var versions []int
		if c.Versioned != nil {
			cfg.VersionedPlugins = map[int]plugin.PluginSet{}
			for _, e := range c.Versioned {
				cfg.VersionedPlugins[e.V] = mkSet(setSpec{e.ID, e.Kind})
				versions = append(versions, e.V)
			}
		}
		if c.HasLegacy {
			dup := false
			for _, v := range versions {
				if v == c.CVersion {
					dup = true
				}
			}
			if !dup {
				versions = append(versions, c.CVersion)
			}
		}
		var seen []string
		stdinOK := true
		if c.Launch == "runnerfunc" {
			cfg.RunnerFunc = func(l hclog.Logger, cmd *exec.Cmd, tmp string) (runner.Runner, error) {
				seen = append([]string{}, cmd.Env...)
				stdinOK = cmd.Stdin == os.Stdin
				return nil, errors.New("refused by the harness")
			}
		} else {
			dump := filepath.Join(tmpBase, fmt.Sprintf("environ-%d", i))
			cmd := exec.Command("/bin/sh", "-c", `cat /proc/self/environ > "$0"; if [ -t 0 ] || [ -e /proc/self/fd/0 ]; then :; fi`, dump)
			if c.CmdEnv != nil {
				cmd.Env = append([]string{}, c.CmdEnv...)
			}
			if c.PresetStdin {
				cmd.Stdin = strings.NewReader("preset by the caller\n")
			}
			cfg.Cmd = cmd
			defer os.Remove(dump)
			cl := plugin.NewClient(cfg)
			cl.Start()
			boundedKill(cl)
			b, _ := os.ReadFile(dump)
			for _, e := range bytes.Split(b, []byte{0}) {
				if len(e) > 0 {
					seen = append(seen, string(e))
				}
			}
			stdinOK = cmd.Stdin == os.Stdin
			cfg = nil
		}
		if cfg != nil {
			cl := plugin.NewClient(cfg)
			cl.Start()
			boundedKill(cl)
		}
		// model input
		vs := sx.L{}
		for _, v := range versions {
			vs = append(vs, sx.I(v))
		}
		mn, mx := c.MinPort, c.MaxPort
		if mn == 0 && mx == 0 {
			mn, mx = 10000, 25000
		}
		launch := 0
		if c.Launch == "runnerfunc" {
			launch = 1
		}
		toL := func(xs []string) sx.L {
			l := sx.L{}
			for _, x := range xs {
				l = append(l, sx.S(x))
			}
			return l
		}
		in := sx.L{
			sx.L{sx.S(c.CookieKey), sx.S(c.CookieVal), sx.I(mn), sx.I(mx), vs, sx.Bool(c.Mux), sx.Bool(c.AutoMTLS), sx.S(c.Group), sx.I(launch), sx.Bool(c.Skip)},
			toL(c.CmdEnv), toL(hostEnv), toL(watchKeys),
		}
		// observation
		ov := func(k string) sx.V {
			if v, ok := effectiveOf(seen, k); ok {
				return sx.L{sx.S(v)}
			}
			return sx.L{}
		}
		nonempty := func(k string) bool { v, ok := effectiveOf(seen, k); return ok && v != "" }
		var parsed []int
		if v, ok := effectiveOf(seen, "PLUGIN_PROTOCOL_VERSIONS"); ok && v != "" {
			for _, s := range strings.Split(v, ",") {
				if x, err := strconv.Atoi(s); err == nil {
					parsed = append(parsed, x)
				}
			}
		}
		sort.Sort(sort.Reverse(sort.IntSlice(parsed)))
		pv := sx.L{}
		for _, x := range parsed {
			pv = append(pv, sx.I(x))
		}
		present := sx.L{}
		for _, k := range watchKeys {
			if _, ok := effectiveOf(seen, k); ok {
				present = append(present, sx.S(k))
			}
		}
		obs := sx.L{ov(c.CookieKey), ov("PLUGIN_MIN_PORT"), ov("PLUGIN_MAX_PORT"), pv,
			sx.Bool(nonempty("PLUGIN_MULTIPLEX_GRPC")), ov("PLUGIN_MULTIPLEX_GRPC"), sx.Bool(nonempty("PLUGIN_CLIENT_CERT")),
			ov("PLUGIN_UNIX_SOCKET_GROUP"), sx.Bool(nonempty("PLUGIN_UNIX_SOCKET_DIR")), present, sx.Bool(stdinOK)}
		sink.Put(17, fmt.Sprintf("c%d", i), in, obs, nil)
	}
	return nil
}

var _ = io.Discard
