// hx: host-side drivers of the correspondence check, one sub-command per property family.
// Usage: hx <family> -seed N -tier quick|thorough -out DIR [-cases FILE]
package main

import (
	"encoding/json"
	"flag"
	"fmt"
	"io"
	"log"
	"os"
	"os/exec"
	"path/filepath"
	"strings"
	"sync"

	"verif/harness/hk"
)

type opts struct {
	seed     int64
	tier     string
	out      string
	cases    string
	n        int
	realproc bool
	child    bool
}

var families = map[string]func(o opts) error{}

// childFailObs: for families in which the death of the child process is itself an observation
var childFailObs = map[string]func(c interface{}) (string, string){}

func main() {
	log.SetOutput(io.Discard) // go-plugin logs through the std logger in places
	if len(os.Args) < 2 {
		fmt.Fprintln(os.Stderr, "usage: hx <family> [flags]")
		os.Exit(2)
	}
	fam := os.Args[1]
	fs := flag.NewFlagSet(fam, flag.ExitOnError)
	var o opts
	fs.Int64Var(&o.seed, "seed", 1, "PRNG seed")
	fs.StringVar(&o.tier, "tier", "quick", "quick|thorough")
	fs.StringVar(&o.out, "out", ".", "output directory")
	fs.StringVar(&o.cases, "cases", "", "JSON file of cases to run instead of generating")
	fs.IntVar(&o.n, "n", 0, "override number of generated cases")
	fs.BoolVar(&o.child, "child", false, "internal: run the given cases in this process")
	fs.Parse(os.Args[2:])
	f, ok := families[fam]
	if !ok {
		fmt.Fprintln(os.Stderr, "unknown family", fam)
		os.Exit(2)
	}
	// everything this run and the plugins it launches put into the temp directory (socket files of plugins that were
	// killed or made to crash, runner directories) goes into one private directory that is removed at the end
	cleanup := func() {}
	if !o.child {
		if d, err := os.MkdirTemp("", "hx-run-"); err == nil {
			os.Setenv("TMPDIR", d)
			cleanup = func() { os.RemoveAll(d) }
		}
	}
	err := f(o)
	if fam != "kill-launcher" { // that one exists to leave its plugin running
		reapLaunched()
	}
	cleanup()
	if err != nil {
		fmt.Fprintln(os.Stderr, "hx:", err)
		os.Exit(3)
	}
}

// fanOut runs n cases each in its own child hx process (at most par at a time) and gathers their
// lines into sink with ids <prefix><index>.  A child that dies is reported as an undecodable case.
func fanOut(o opts, family string, prop int, prefix string, n int, get func(i int) interface{}, sink *hk.Sink, par int) error {
	self, _ := os.Executable()
	var wg sync.WaitGroup
	sem := make(chan struct{}, par)
	for i := 0; i < n; i++ {
		wg.Add(1)
		sem <- struct{}{}
		go func(i int) {
			defer wg.Done()
			defer func() { <-sem }()
			c := get(i)
			tmp, _ := os.CreateTemp("", "hx-fan-*.json")
			b, _ := json.Marshal([]interface{}{c})
			tmp.Write(b)
			tmp.Close()
			defer os.Remove(tmp.Name())
			outdir, _ := os.MkdirTemp("", "hx-fan-out")
			defer os.RemoveAll(outdir)
			cmd := exec.Command(self, family, "-child", "-cases", tmp.Name(), "-out", outdir, "-seed", fmt.Sprint(o.seed), "-tier", o.tier)
			out, err := cmd.CombinedOutput()
			lines, _ := os.ReadFile(filepath.Join(outdir, family+".lines"))
			parts := strings.SplitN(strings.TrimRight(string(lines), "\n"), "\t", 4)
			if err != nil || len(parts) != 4 {
				msg := string(out)
				if len(msg) > 300 {
					msg = msg[len(msg)-300:]
				}
				if f, ok := childFailObs[family]; ok {
					in, obs := f(c)
					sink.PutRaw(prop, fmt.Sprintf("%s%d", prefix, i), in, obs, map[string]interface{}{"case": c, "child_output": msg})
					return
				}
				sink.PutRaw(prop, fmt.Sprintf("%s%d", prefix, i), "(child-failed)", "(child-failed)", map[string]interface{}{"case": c, "child_output": msg})
				return
			}
			// the child may have annotated its case description
			if mb, err := os.ReadFile(filepath.Join(outdir, family+".meta.jsonl")); err == nil {
				var m struct {
					Case json.RawMessage `json:"case"`
				}
				if json.Unmarshal([]byte(strings.SplitN(string(mb), "\n", 2)[0]), &m) == nil && len(m.Case) > 0 {
					c = m.Case
				}
			}
			sink.PutRaw(prop, fmt.Sprintf("%s%d", prefix, i), parts[2], parts[3], c)
		}(i)
	}
	wg.Wait()
	return nil
}
