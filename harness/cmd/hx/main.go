// hx: host-side drivers of the correspondence check, one sub-command per property family.
// Usage: hx <family> -seed N -tier quick|thorough -out DIR [-cases FILE]
package main

import (
	"flag"
	"fmt"
	"os"
)

type opts struct {
	seed     int64
	tier     string
	out      string
	cases    string
	n        int
	realproc bool
}

var families = map[string]func(o opts) error{}

func main() {
	if len(os.Args) < 2 {
		fmt.Fprintln(os.Stderr, "usage: hx <family> [flags]")
		os.Exit(2)
	}
	fam := os.Args[1]
	fs := flag.NewFlagSet(fam, flag.ExitOnError)
	var o opts
	fs.Int64Var(&o.seed, "seed", 1, "PRNG seed")
	fs.StringVar(&o.tier, "tier", "quick", "quick|thorough")
	fs.StringVar(&o.out, "out", ".", "output directory")
	fs.StringVar(&o.cases, "cases", "", "JSON file of cases to run instead of generating")
	fs.IntVar(&o.n, "n", 0, "override number of generated cases")
	fs.Parse(os.Args[2:])
	f, ok := families[fam]
	if !ok {
		fmt.Fprintln(os.Stderr, "unknown family", fam)
		os.Exit(2)
	}
	if err := f(o); err != nil {
		fmt.Fprintln(os.Stderr, "hx:", err)
		os.Exit(3)
	}
}
