package main

// C11: synced stdout/stderr. Families:
//   copychan - copyChan (verif_export) over a reader with scripted read sizes vs the model's chunking
//   stdio    - real vplugin processes (netrpc / grpc / grpc+mux): byte scripts written by the plugin to its
//              os.Stdout/os.Stderr must arrive exactly in SyncStdout/SyncStderr

import (
	"bytes"
	"fmt"
	"io"
	"sync"
	"sync/atomic"
	"time"

	plugin "github.com/hashicorp/go-plugin"
	"verif/harness/hk"
	"verif/harness/sx"
	"verif/harness/vp"
)

func init() {
	families["copychan"] = runCopyChan
	families["stdio"] = runStdio
}

type ccCase struct {
	Reads []int  `json:"reads"`
	Data  []byte `json:"data"`
}

type scriptedReader struct {
	data  []byte
	reads []int
	i     int
}

func (r *scriptedReader) Read(p []byte) (int, error) {
	if len(r.data) == 0 {
		return 0, io.EOF
	}
	k := len(p)
	if r.i < len(r.reads) {
		k = r.reads[r.i]
		if k < 1 {
			k = 1
		}
		if k > len(p) {
			k = len(p)
		}
	}
	r.i++
	if k > len(r.data) {
		k = len(r.data)
	}
	copy(p, r.data[:k])
	r.data = r.data[k:]
	return k, nil
}

func runCopyChan(o opts) error {
	r := hk.Rng(o.seed + 61)
	var cs []ccCase
	if o.cases != "" {
		if err := hk.LoadCases(o.cases, &cs); err != nil {
			return err
		}
	} else {
		n := 300
		if o.tier == "thorough" {
			n = 8000
		}
		for _, l := range []int{0, 1, 1023, 1024, 1025, 2047, 2048, 2049, 4095, 4096, 4097, 10240} {
			cs = append(cs, ccCase{Data: hk.RandBytes(r, l)})
			cs = append(cs, ccCase{Data: hk.RandBytes(r, l), Reads: []int{1, 1024, 1025, 4096, 5000}})
		}
		for len(cs) < n {
			c := ccCase{Data: hk.RandBytes(r, hk.Pick(r, []int{0, 1, 10, 1000, 1024, 1025, 3000, 4096, 5000, 9000, 20000}))}
			for k := r.Intn(12); k > 0; k-- {
				c.Reads = append(c.Reads, hk.Pick(r, []int{1, 2, 100, 1023, 1024, 1025, 2048, 3000, 4095, 4096, 8000}))
			}
			cs = append(cs, c)
		}
	}
	sink, err := hk.NewSink(o.out, "copychan")
	if err != nil {
		return err
	}
	defer sink.Close()
	for i, c := range cs {
		ch := make(chan []byte)
		go func() {
			plugin.VerifCopyChan(hk.QuietLogger(), ch, &scriptedReader{data: append([]byte{}, c.Data...), reads: c.Reads})
			close(ch)
		}()
		// consume the way StreamStdio does: the chunk is used after the next receive started, so copy late
		var got [][]byte
		var prev []byte
		for b := range ch {
			if prev != nil {
				got = append(got, append([]byte{}, prev...))
			}
			prev = b
		}
		if prev != nil {
			got = append(got, append([]byte{}, prev...))
		}
		reads := sx.L{}
		for _, x := range c.Reads {
			reads = append(reads, sx.I(x))
		}
		chunks := sx.L{}
		for _, g := range got {
			chunks = append(chunks, sx.B(g))
		}
		sink.Put(111, fmt.Sprintf("k%d", i), sx.L{reads, sx.B(c.Data)}, chunks, c)
	}
	return nil
}

// ---- real processes

type stdioWrite struct {
	Stderr bool   `json:"stderr"`
	Data   []byte `json:"data"`
}
type stdioCase struct {
	Proto      string       `json:"proto"`
	Mux        bool         `json:"mux"`
	EarlyOut   []byte       `json:"early_stdout"` // written by the plugin before the host attaches
	EarlyErr   []byte       `json:"early_stderr"`
	Writes     []stdioWrite `json:"writes"`
	Concurrent bool         `json:"concurrent"` // the two streams are written by concurrent RPCs
	PauseMs    int          `json:"pause_ms"`   // pause in the middle of the script (the stream must stay attached)
	Kind       string       `json:"kind"`
}

func genStdio(o opts) []stdioCase {
	r := hk.Rng(o.seed + 67)
	n := 14
	if o.tier == "thorough" {
		n = 120
	}
	protos := []struct {
		p   string
		mux bool
	}{{"netrpc", false}, {"grpc", false}, {"grpc", true}}
	sizes := []int{0, 1, 1023, 1024, 1025, 4095, 4096, 4097, 10240, 65536}
	var cs []stdioCase
	// directed: boundary sizes on both streams, binary content
	for _, pr := range protos {
		c := stdioCase{Proto: pr.p, Mux: pr.mux, Kind: "boundaries"}
		for _, s := range sizes {
			c.Writes = append(c.Writes, stdioWrite{Stderr: false, Data: hk.RandBytes(r, s)}, stdioWrite{Stderr: true, Data: hk.RandBytes(r, s)})
		}
		cs = append(cs, c)
		cs = append(cs, stdioCase{Proto: pr.p, Mux: pr.mux, Kind: "before-attach", EarlyOut: hk.RandBytes(r, 3000), EarlyErr: hk.RandBytes(r, 5000),
			Writes: []stdioWrite{{false, []byte("after-out\n")}, {true, []byte("after-err\n")}}})
		cs = append(cs, stdioCase{Proto: pr.p, Mux: pr.mux, Kind: "concurrent", Concurrent: true,
			Writes: []stdioWrite{{false, hk.RandBytes(r, 30000)}, {true, hk.RandBytes(r, 30000)}, {false, hk.RandBytes(r, 7000)}, {true, hk.RandBytes(r, 9000)}}})
	}
	// the stream must stay attached over time: one case pauses longer than any connect-style timeout
	cs = append(cs, stdioCase{Proto: "grpc", Kind: "pause", PauseMs: 6500,
		Writes: []stdioWrite{{false, []byte("out-1\n")}, {true, []byte("err-1\n")}, {false, []byte("out-2\n")}, {true, []byte("err-2\n")}}})
	for len(cs) < n {
		pr := hk.Pick(r, protos)
		c := stdioCase{Proto: pr.p, Mux: pr.mux, Kind: "random", Concurrent: r.Intn(3) == 0}
		for k := 1 + r.Intn(8); k > 0; k-- {
			c.Writes = append(c.Writes, stdioWrite{Stderr: r.Intn(2) == 0, Data: hk.RandBytes(r, hk.Pick(r, sizes))})
		}
		if r.Intn(4) == 0 {
			c.EarlyOut = hk.RandBytes(r, r.Intn(6000))
		}
		cs = append(cs, c)
	}
	return cs
}

type syncBuf struct {
	mu sync.Mutex
	b  bytes.Buffer
}

func (s *syncBuf) Write(p []byte) (int, error) { s.mu.Lock(); defer s.mu.Unlock(); return s.b.Write(p) }
func (s *syncBuf) Len() int                    { s.mu.Lock(); defer s.mu.Unlock(); return s.b.Len() }
func (s *syncBuf) Bytes() []byte {
	s.mu.Lock()
	defer s.mu.Unlock()
	return append([]byte{}, s.b.Bytes()...)
}

func runOneStdio(c stdioCase) (sx.V, sx.V) {
	var so, se syncBuf
	pcfg := map[string]interface{}{}
	if len(c.EarlyOut) > 0 {
		pcfg["early_stdout"] = c.EarlyOut
	}
	if len(c.EarlyErr) > 0 {
		pcfg["early_stderr"] = c.EarlyErr
	}
	in := sx.L{}
	if len(c.EarlyOut) > 0 {
		in = append(in, sx.L{sx.Bool(false), sx.B(c.EarlyOut)})
	}
	if len(c.EarlyErr) > 0 {
		in = append(in, sx.L{sx.Bool(true), sx.B(c.EarlyErr)})
	}
	wantO, wantE := len(c.EarlyOut), len(c.EarlyErr)
	for _, w := range c.Writes {
		in = append(in, sx.L{sx.Bool(w.Stderr), sx.B(w.Data)})
		if w.Stderr {
			wantE += len(w.Data)
		} else {
			wantO += len(w.Data)
		}
	}
	cl, caller, err := startVP(vpOpts{Proto: c.Proto, Mux: c.Mux, Plugin: pcfg, SyncStdout: &so, SyncStderr: &se})
	if err != nil {
		return in, sx.L{sx.S("start-error: " + err.Error()), sx.S("")}
	}
	defer boundedKill(cl)
	// a write blocks in the plugin when nobody drains its stdio any more: bounded, and after the first one that
	// does not come back the rest are skipped (what arrived is the observation)
	var stuck int32
	write := func(w stdioWrite) {
		if atomic.LoadInt32(&stuck) != 0 {
			return
		}
		k := "stdout"
		if w.Stderr {
			k = "stderr"
		}
		done := make(chan struct{})
		go func() { caller.Call(vp.Req{Op: "write", K: k, Data: w.Data}); close(done) }()
		select {
		case <-done:
		case <-time.After(8 * time.Second):
			atomic.StoreInt32(&stuck, 1)
		}
	}
	if c.Concurrent {
		var wg sync.WaitGroup
		for _, side := range []bool{false, true} {
			wg.Add(1)
			go func(side bool) {
				defer wg.Done()
				for _, w := range c.Writes {
					if w.Stderr == side {
						write(w)
					}
				}
			}(side)
		}
		wg.Wait()
	} else {
		for i, w := range c.Writes {
			if c.PauseMs > 0 && i == len(c.Writes)/2 {
				time.Sleep(time.Duration(c.PauseMs) * time.Millisecond)
			}
			write(w)
		}
	}
	deadline := time.Now().Add(4 * time.Second)
	for time.Now().Before(deadline) && (so.Len() < wantO || se.Len() < wantE) {
		time.Sleep(10 * time.Millisecond)
	}
	time.Sleep(50 * time.Millisecond) // anything duplicated would arrive now
	return in, sx.L{sx.B(so.Bytes()), sx.B(se.Bytes())}
}

func runStdio(o opts) error {
	var cs []stdioCase
	if o.cases != "" {
		if err := hk.LoadCases(o.cases, &cs); err != nil {
			return err
		}
	} else {
		cs = genStdio(o)
	}
	sink, err := hk.NewSink(o.out, "stdio")
	if err != nil {
		return err
	}
	defer sink.Close()
	var wg sync.WaitGroup
	sem := make(chan struct{}, 8)
	for i, c := range cs {
		wg.Add(1)
		sem <- struct{}{}
		go func(i int, c stdioCase) {
			defer wg.Done()
			defer func() { <-sem }()
			in, obs := runOneStdio(c)
			sink.Put(11, fmt.Sprintf("t%d", i), in, obs, c)
		}(i, c)
	}
	wg.Wait()
	return nil
}
