package main

// C14, "option conflicts surface at start": every combination of the three launch options (Cmd, Reattach,
// RunnerFunc) with SecureConfig and GRPCBrokerMultiplex.  Whatever is named is real: the command is vplugin, the
// reattach configuration points at a live vplugin started for the case, the runner launches vplugin, the checksum is
// vplugin's.  Observation: which of the option-conflict errors Start returned (0 = none), and whether anything was
// launched / attached to by this client.

import (
	"crypto/sha256"
	"errors"
	"fmt"
	"os"
	"os/exec"
	"strings"
	"sync"
	"sync/atomic"
	"time"

	hclog "github.com/hashicorp/go-hclog"
	plugin "github.com/hashicorp/go-plugin"
	"github.com/hashicorp/go-plugin/runner"
	"verif/harness/hk"
	"verif/harness/sx"
)

type cfCase struct {
	Cmd      bool   `json:"cmd"`
	Reattach bool   `json:"reattach"`
	Runner   bool   `json:"runnerfunc"`
	Secure   bool   `json:"secure"`
	Mux      bool   `json:"mux"`
	Proto    string `json:"proto"`
	Kind     string `json:"kind"`
}

func init() { families["conflict"] = runConflict }

func genConflict(o opts) []cfCase {
	var cs []cfCase
	for m := 0; m < 32; m++ {
		c := cfCase{Cmd: m&1 != 0, Reattach: m&2 != 0, Runner: m&4 != 0, Secure: m&8 != 0, Mux: m&16 != 0, Proto: "grpc", Kind: "option-combination"}
		if c.Runner && !c.Cmd && !c.Reattach && c.Secure {
			continue // a checksum needs a command path to read; a bare RunnerFunc has none (not an option conflict)
		}
		cs = append(cs, c)
		if !c.Mux && o.tier == "thorough" {
			c.Proto = "netrpc"
			cs = append(cs, c)
		}
	}
	return cs
}

var vpSumOnce sync.Once
var vpSum []byte

func vpluginChecksum() []byte {
	vpSumOnce.Do(func() {
		b, err := os.ReadFile(vpluginPath())
		if err == nil {
			s := sha256.Sum256(b)
			vpSum = s[:]
		}
	})
	return vpSum
}

func runOneConflict(c cfCase) (sx.V, sx.V) {
	in := sx.L{sx.Bool(c.Cmd), sx.Bool(c.Reattach), sx.Bool(c.Runner), sx.Bool(c.Secure), sx.Bool(c.Mux)}
	cfg := vpClientConfig(vpOpts{Proto: c.Proto, Mux: c.Mux})
	cmd := cfg.Cmd
	if !c.Cmd {
		cfg.Cmd = nil
	}
	var base *plugin.Client
	basePid := 0
	if c.Reattach {
		base = plugin.NewClient(vpClientConfig(vpOpts{Proto: c.Proto}))
		var berr error
		if !within(20*time.Second, func() { _, berr = base.Client() }) || berr != nil {
			go base.Kill()
			return in, sx.L{sx.I(9), sx.I(0)}
		}
		cfg.Reattach = base.ReattachConfig()
		fmt.Sscan(base.ID(), &basePid)
		defer boundedKill(base)
	}
	var launches int32
	var pr *procRunner
	if c.Runner {
		cfg.RunnerFunc = func(l hclog.Logger, spec *exec.Cmd, tmp string) (runner.Runner, error) {
			atomic.AddInt32(&launches, 1)
			real := exec.Command(cmd.Path)
			real.Env = append(append([]string{}, cmd.Env...), spec.Env...)
			p, err := newProcRunner(real)
			pr = p
			return p, err
		}
	}
	if c.Secure {
		cfg.SecureConfig = &plugin.SecureConfig{Checksum: vpluginChecksum(), Hash: sha256.New()}
	}
	cl := plugin.NewClient(cfg)
	var serr error
	if !within(25*time.Second, func() { _, serr = cl.Start() }) {
		return in, sx.L{sx.I(8), sx.I(0)}
	}
	class := 0
	switch {
	case serr == nil:
	case errors.Is(serr, plugin.ErrSecureConfigAndReattach):
		class = 2
	case strings.Contains(serr.Error(), "exactly one of"):
		class = 1
	case strings.Contains(serr.Error(), "multiplexing is not supported with Reattach"):
		class = 3
	default:
		class = 4
	}
	// did this client launch or attach to anything?
	touched := atomic.LoadInt32(&launches) > 0 || (c.Cmd && cmd.Process != nil) || (pr != nil && pr.cmd.Process != nil)
	if serr == nil {
		touched = true
	}
	boundedKill(cl)
	if c.Cmd && cmd.Process != nil {
		cmd.Process.Kill()
	}
	if pr != nil && pr.cmd.Process != nil {
		pr.cmd.Process.Kill()
	}
	_ = basePid
	return in, sx.L{sx.I(class), sx.Bool(touched)}
}

func runConflict(o opts) error {
	var cs []cfCase
	if o.cases != "" {
		if err := hk.LoadCases(o.cases, &cs); err != nil {
			return err
		}
	} else {
		cs = genConflict(o)
	}
	sink, err := hk.NewSink(o.out, "conflict")
	if err != nil {
		return err
	}
	defer sink.Close()
	var wg sync.WaitGroup
	sem := make(chan struct{}, 8)
	for i, c := range cs {
		wg.Add(1)
		sem <- struct{}{}
		go func(i int, c cfCase) {
			defer wg.Done()
			defer func() { <-sem }()
			in, obs := runOneConflict(c)
			sink.Put(114, fmt.Sprintf("cf%d", i), in, obs, c)
		}(i, c)
	}
	wg.Wait()
	return nil
}
