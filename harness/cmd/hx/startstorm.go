package main

// C19 in volume: many sessions, each a fresh Client on an in-process scripted runner, with Start / Protocol / accessor
// callers released at the same instant.  The window in which two callers can both decide to launch is short; a single
// real-process case rarely meets it.  Observation: in how many sessions the plugin was launched more than once or two
// successful Starts returned different addresses.

import (
	"fmt"
	"sync"
	"sync/atomic"
	"time"

	plugin "github.com/hashicorp/go-plugin"
	"verif/harness/hk"
	"verif/harness/sx"
)

type ssCase struct {
	Trials int    `json:"trials"`
	Seed   int64  `json:"seed"`
	Kind   string `json:"kind"`
}

func init() { families["startstorm"] = runStartStorm }

func runOneStartStorm(c ssCase) (sx.V, sx.V) {
	bad, hung := 0, 0
	for t := 0; t < c.Trials; t++ {
		var launches int32
		var mu sync.Mutex
		addrs := map[string]bool{}
		cfg := &plugin.ClientConfig{
			HandshakeConfig: plugin.HandshakeConfig{ProtocolVersion: 1, MagicCookieKey: vpCookieKey, MagicCookieValue: vpCookieVal},
			Plugins:         plugin.PluginSet{}, AllowedProtocols: []plugin.Protocol{plugin.ProtocolNetRPC, plugin.ProtocolGRPC},
			Logger: hk.QuietLogger(), StartTimeout: 5 * time.Second,
		}
		var runners []*hk.Scripted
		cfg.RunnerFunc = nil
		inner := func() *hk.Scripted {
			s := hk.NewScripted()
			n := atomic.AddInt32(&launches, 1)
			s.OnStart = func(s *hk.Scripted) { fmt.Fprintf(s.StdoutW, "1|1|tcp|127.0.0.1:%d|netrpc\n", 40000+n) }
			mu.Lock()
			runners = append(runners, s)
			mu.Unlock()
			return s
		}
		cfg.RunnerFunc = hk.ScriptedFactory(inner)
		cl := plugin.NewClient(cfg)
		gate := make(chan struct{})
		var wg sync.WaitGroup
		for g := 0; g < 8; g++ {
			wg.Add(1)
			go func(g int) {
				defer wg.Done()
				<-gate
				switch {
				case g < 6:
					if a, err := cl.Start(); err == nil && a != nil {
						mu.Lock()
						addrs[a.String()] = true
						mu.Unlock()
					}
				case g == 6:
					cl.Protocol()
				default:
					cl.ID()
					cl.Exited()
				}
			}(g)
		}
		close(gate)
		done := make(chan struct{})
		go func() { wg.Wait(); close(done) }()
		select {
		case <-done:
		case <-time.After(20 * time.Second):
			hung++
		}
		if atomic.LoadInt32(&launches) > 1 || len(addrs) > 1 {
			bad++
		}
		go cl.Kill()
		mu.Lock()
		for _, r := range runners {
			r.Exit()
		}
		mu.Unlock()
	}
	return sx.L{sx.I(c.Trials)}, sx.L{sx.I(bad), sx.I(hung)}
}

func runStartStorm(o opts) error {
	var cs []ssCase
	if o.cases != "" {
		if err := hk.LoadCases(o.cases, &cs); err != nil {
			return err
		}
	} else {
		n := 4
		if o.tier == "thorough" {
			n = 40
		}
		for k := 0; k < n; k++ {
			cs = append(cs, ssCase{Trials: 250, Seed: o.seed*10 + int64(k), Kind: "storm"})
		}
	}
	sink, err := hk.NewSink(o.out, "startstorm")
	if err != nil {
		return err
	}
	defer sink.Close()
	var wg sync.WaitGroup
	for i, c := range cs {
		wg.Add(1)
		go func(i int, c ssCase) {
			defer wg.Done()
			in, obs := runOneStartStorm(c)
			sink.Put(119, fmt.Sprintf("u%d", i), in, obs, c)
		}(i, c)
	}
	wg.Wait()
	return nil
}
