package main

// C07 / C08 / C09 (gRPC part): the gRPC broker between hx (host) and a real vplugin process.
// Timed histories of AcceptAndServe / Dial in both directions; every brokered server answers "who"
// with the id it was accepted on.

import (
	"fmt"
	hclog "github.com/hashicorp/go-hclog"
	"github.com/hashicorp/go-plugin/runner"
	"os"
	"os/exec"
	"path/filepath"
	"strings"
	"sync"
	"time"

	plugin "github.com/hashicorp/go-plugin"
	"google.golang.org/grpc"
	"verif/harness/hk"
	"verif/harness/sx"
	"verif/harness/vp"
)

type gbEvent struct {
	AtMs int    `json:"at_ms"`
	Side string `json:"side"` // host | plugin : who performs the op
	Kind string `json:"kind"` // accept | dial
	ID   uint32 `json:"id"`
}
type gbCase struct {
	Mux      bool      `json:"mux"`
	AutoMTLS bool      `json:"automtls"`
	Events   []gbEvent `json:"events"`
	Horizon  int       `json:"horizon_ms"`
	Kind     string    `json:"kind"`
	// SlowDoorMs: the accepting side's muxer.AcceptKnock is entered this much later (hook point): the order "open the
	// door, then acknowledge the knock" must not depend on AcceptKnock being quick
	SlowDoorMs int `json:"slow_door_ms,omitempty"`
	// SlowServeMs: the brokered servers' set-up (the callback given to AcceptAndServe) takes this long on either side
	SlowServeMs int `json:"slow_serve_ms,omitempty"`
	// Translate: the plugin runs under a custom runner in its own directory and advertises RELATIVE socket paths, which
	// the runner's PluginToHost makes absolute (an address used untranslated does not exist on the host)
	Translate bool `json:"translate,omitempty"`
	// HoldDialMs: every dialled connection is kept this long before its first call (a brokered server must outlive the
	// 5 s in which its connection info can be picked up)
	HoldDialMs int `json:"hold_dial_ms,omitempty"`
	// ZeroID: the id called 1000 in the events is 0 on the wire (ids are chosen by the caller; 0 is one of them)
	ZeroID bool `json:"zero_id,omitempty"`
}

func init() {
	families["grpcbroker"] = func(o opts) error { return runGrpcBroker(o, false) }
	families["grpcmux"] = func(o opts) error { return runGrpcBroker(o, true) }
}

// ids < 1000: the host accepts and the plugin dials; ids >= 1000: the plugin accepts and the host dials
func genGrpcBroker(o opts, mux bool) []gbCase {
	r := hk.Rng(o.seed + 83)
	n := 14
	if o.tier == "thorough" {
		n = 83
	}
	var cs []gbCase
	pair := func(c *gbCase, t int, id uint32, acceptFirst bool, gap int) int {
		acc, dial := "host", "plugin"
		if id >= 1000 {
			acc, dial = "plugin", "host"
		}
		a, d := gbEvent{t, acc, "accept", id}, gbEvent{t + gap, dial, "dial", id}
		if !acceptFirst {
			a.AtMs, d.AtMs = t+gap, t
		}
		if a.AtMs <= d.AtMs {
			c.Events = append(c.Events, a, d)
		} else {
			c.Events = append(c.Events, d, a)
		}
		return t + gap
	}
	if mux {
		// documented usage: establishments strictly one after another
		for k := 0; k < n; k++ {
			c := gbCase{Mux: true, AutoMTLS: k%3 == 2, Kind: "sequential"}
			if k%2 == 0 {
				c.SlowDoorMs = 150
			}
			if k%3 == 1 {
				c.SlowServeMs = 300
			}
			t := 0
			for j := 0; j < 5; j++ {
				id := uint32(10 + j)
				if r.Intn(2) == 0 {
					id += 1000
				}
				t = pair(&c, t, id, r.Intn(2) == 0, hk.Pick(r, []int{5, 100, 300, 1200})) + 700
			}
			// ids are the caller's choice: 0 is one of them, in either direction
			switch k % 4 {
			case 0:
				c.ZeroID = true
				t = pair(&c, t, 1000, k%8 == 0, 100) + 700
			case 3:
				t = pair(&c, t, 0, true, 100) + 700
			}
			if k%4 == 2 { // two dials to one id nobody accepts (each waits out its 5 s knock), then a fresh establishment
				side, id := "plugin", uint32(80)
				if k%8 == 6 {
					side, id = "host", 1080
				}
				c.Events = append(c.Events, gbEvent{t, side, "dial", id}, gbEvent{t + 6000, side, "dial", id})
				t += 12500
				t = pair(&c, t, uint32(85+1000*(k%8/4)), k%8 == 2, 100) + 500
			}
			if k%2 == 1 { // one dial nobody accepts, at the end
				c.Events = append(c.Events, gbEvent{t, hk.Pick(r, []string{"host", "plugin"}), "dial", 0})
				last := &c.Events[len(c.Events)-1]
				last.ID = 90
				if last.Side == "host" {
					last.ID = 1090
				}
				t += 6500
				t = pair(&c, t, uint32(95+1000*(k%4/2)), true, 100) + 500
			}
			c.Horizon = t + 1500
			cs = append(cs, c)
		}
		// one listener, several connections over time: a dial-first establishment, and a further dial of the same id once the
		// first knock is more than 5 s old (in both directions)
		{
			c := gbCase{Mux: true, Kind: "directed-redial"}
			c.Events = []gbEvent{{0, "host", "dial", 1041}, {300, "plugin", "accept", 1041}, {1500, "plugin", "dial", 42}, {1800, "host", "accept", 42},
				{7000, "host", "dial", 1041}, {8500, "plugin", "dial", 42}}
			c.Horizon = 10500
			cs = append(cs, c)
		}
		return cs
	}
	directed := [][]gbEvent{
		{{0, "host", "accept", 10}, {200, "plugin", "dial", 10}, {0, "plugin", "accept", 1010}, {300, "host", "dial", 1010}},
		{{0, "plugin", "dial", 10}, {800, "host", "accept", 10}, {100, "host", "dial", 1010}, {900, "plugin", "accept", 1010}},
		{{0, "plugin", "dial", 10}, {0, "host", "dial", 1010}},     // nobody accepts
		{{0, "host", "accept", 10}, {0, "plugin", "accept", 1010}}, // nobody dials
		{{0, "host", "accept", 10}, {0, "host", "accept", 11}, {0, "host", "accept", 12}, {600, "plugin", "dial", 12}, {700, "plugin", "dial", 10}, {800, "plugin", "dial", 11}},
		{{0, "plugin", "accept", 1010}, {0, "plugin", "accept", 1011}, {0, "plugin", "accept", 1012}, {500, "host", "dial", 1011}, {900, "host", "dial", 1010}, {1300, "host", "dial", 1012}},
		{{0, "host", "accept", 10}, {6500, "plugin", "dial", 10}}, // the info is retained for about 5 s only
		// a dial that waits for an id nobody has accepted yet must not hold up the dial of another id whose info is about to expire
		{{0, "plugin", "accept", 1010}, {4000, "host", "dial", 1011}, {4300, "host", "dial", 1010}, {5700, "plugin", "accept", 1011}},
		{{0, "host", "accept", 10}, {4000, "plugin", "dial", 11}, {4300, "plugin", "dial", 10}, {5700, "host", "accept", 11}},
	}
	for i, evs := range directed {
		c := gbCase{AutoMTLS: i%3 == 1, Events: evs, Kind: "directed", Translate: i%4 == 0, SlowServeMs: 200 * (i % 2)}
		cs = append(cs, c)
	}
	// a dial that is already waiting when the other side starts to accept, and a brokered server whose set-up takes long: the
	// connection information must go out when the listener exists, not when the server is ready
	cs = append(cs, gbCase{Kind: "directed-slow-factory", SlowServeMs: 3500, Events: []gbEvent{{0, "host", "dial", 1010}, {2000, "plugin", "accept", 1010}, {0, "plugin", "dial", 10}, {2000, "host", "accept", 10}}})
	// connections dialled inside the window and first used after it
	cs = append(cs, gbCase{Kind: "directed-late-first-call", HoldDialMs: 6400, Events: []gbEvent{{0, "plugin", "accept", 1010}, {100, "host", "dial", 1010}, {0, "host", "accept", 10}, {100, "plugin", "dial", 10}}})
	for len(cs) < n {
		c := gbCase{AutoMTLS: r.Intn(3) == 0, Kind: "random"}
		used := map[uint32]bool{}
		for k := 2 + r.Intn(5); k > 0; k-- {
			id := uint32(10 + r.Intn(6))
			if r.Intn(2) == 0 {
				id += 1000
			}
			if used[id] {
				continue
			}
			used[id] = true
			t := 100 * r.Intn(20)
			switch r.Intn(5) {
			case 0:
				c.Events = append(c.Events, gbEvent{t, map[bool]string{true: "plugin", false: "host"}[id < 1000], "dial", id})
			case 1:
				c.Events = append(c.Events, gbEvent{t, map[bool]string{true: "host", false: "plugin"}[id < 1000], "accept", id})
			default:
				pair(&c, t, id, r.Intn(2) == 0, 100*(1+r.Intn(25)))
			}
		}
		cs = append(cs, c)
	}
	for i := range cs {
		// time order; fresh pairs in both directions at the end
		evs := cs[i].Events
		for a := 1; a < len(evs); a++ {
			for b := a; b > 0 && evs[b].AtMs < evs[b-1].AtMs; b-- {
				evs[b], evs[b-1] = evs[b-1], evs[b]
			}
		}
		last := 0
		for _, e := range evs {
			if e.AtMs > last {
				last = e.AtMs
			}
		}
		base := 9500
		if last+6000 > base {
			base = last + 6000
		}
		evs = append(evs, gbEvent{base, "host", "accept", 500}, gbEvent{base + 150, "plugin", "dial", 500},
			gbEvent{base + 300, "host", "dial", 1500}, gbEvent{base + 450, "plugin", "accept", 1500})
		cs[i].Events = evs
		cs[i].Horizon = base + 1500 + cs[i].SlowServeMs
	}
	return cs
}

func hostWho(id uint32) vp.Handler {
	return func(r vp.Req, _ *plugin.MuxBroker, _ *plugin.GRPCBroker) vp.Resp {
		return vp.Resp{ID: id, S: "host-served"}
	}
}

func runOneGrpcBroker(c gbCase) []struct{ in, obs sx.V } {
	type result struct {
		code  int
		token int
	}
	res := make([]result, len(c.Events))
	for i := range res {
		res[i].token = -1
	}
	var mu sync.Mutex
	set := func(i int, r result) { mu.Lock(); res[i] = r; mu.Unlock() }
	vo := vpOpts{Proto: "grpc", Mux: c.Mux, AutoMTLS: c.AutoMTLS}
	if c.SlowDoorMs > 0 {
		vo.Plugin = map[string]interface{}{"delay_point": "smux.acceptknock,grpc.knock.sent", "delay_ms": c.SlowDoorMs}
	}
	var cl *plugin.Client
	var caller vp.Caller
	var err error
	if c.Translate {
		cl, caller, err = startTranslatedVP(vo)
	} else {
		cl, caller, err = startVP(vo)
	}
	mainOK := 1
	if err == nil {
		gb := caller.GRPC()
		start := time.Now()
		wire := func(id uint32) uint32 {
			if c.ZeroID && id == 1000 {
				return 0
			}
			return id
		}
		unwire := func(id uint32) int {
			if c.ZeroID && id == 0 {
				return 1000
			}
			return int(id)
		}
		for i, e := range c.Events {
			go func(i int, e gbEvent) {
				time.Sleep(time.Until(start.Add(time.Duration(e.AtMs) * time.Millisecond)))
				switch {
				case e.Side == "host" && e.Kind == "accept":
					set(i, result{5, int(e.ID)})
					gb.AcceptAndServe(wire(e.ID), func(opts []grpc.ServerOption) *grpc.Server {
						time.Sleep(time.Duration(c.SlowServeMs) * time.Millisecond)
						s := grpc.NewServer(opts...)
						vp.Register(s, hostWho(wire(e.ID)), gb)
						return s
					})
				case e.Side == "plugin" && e.Kind == "accept":
					req := vp.Req{Op: "accept", ID: wire(e.ID)}
					if wire(e.ID) == 0 {
						req.V = "id0"
					}
					if c.SlowServeMs > 0 {
						req.K, req.N2 = "slow", c.SlowServeMs
					}
					_, err := caller.Call(req)
					if err == nil {
						set(i, result{5, int(e.ID)})
					} else {
						set(i, result{6, -1})
					}
				case e.Side == "host" && e.Kind == "dial":
					cc, err := gb.Dial(wire(e.ID))
					if err != nil {
						set(i, result{2, -1})
						return
					}
					defer cc.Close()
					if e.AtMs < 5000 { // not the fresh pairs appended at the end of every history
						time.Sleep(time.Duration(c.HoldDialMs) * time.Millisecond)
					}
					out, err := vp.Bounded(vp.NewGRPCCaller(cc, gb), callBound).Call(vp.Req{Op: "who"})
					if err != nil {
						set(i, result{2, -1})
						return
					}
					if out.S != "plugin-served" {
						set(i, result{1, -2}) // answered by something that is not a brokered server (the main service)
						return
					}
					set(i, result{1, unwire(out.ID)})
				case e.Side == "plugin" && e.Kind == "dial":
					hold := 0
					if e.AtMs < 5000 {
						hold = c.HoldDialMs
					}
					out, err := caller.Call(vp.Req{Op: "dial", ID: wire(e.ID), N2: hold})
					if err != nil || out.Err != "" {
						set(i, result{2, -1})
						return
					}
					if out.S != "host-served" {
						set(i, result{1, -2})
						return
					}
					set(i, result{1, unwire(out.ID)})
				}
			}(i, e)
		}
		time.Sleep(time.Until(start.Add(time.Duration(c.Horizon) * time.Millisecond)))
		// the main connection and the plugin's main service still work
		if out, err := caller.Call(vp.Req{Op: "tag"}); err != nil || out.S != "set-1" {
			mainOK = 0
		}
		if rc, err := cl.Client(); err != nil || rc.Ping() != nil {
			mainOK = 0
		}
		boundedKill(cl)
	} else {
		mainOK = 0
	}
	mu.Lock()
	defer mu.Unlock()
	// one line per direction (the model is one direction of one broker)
	var outl []struct{ in, obs sx.V }
	for dir := 0; dir < 2; dir++ {
		evs, outs := sx.L{}, sx.L{}
		for i, e := range c.Events {
			if (e.ID >= 1000) != (dir == 1) {
				continue
			}
			// model roles: the accepting side SENDS the info (op kind 0), the dialling side TAKES it (kind 1)
			k := 0
			if e.Kind == "dial" {
				k = 1
			}
			evs = append(evs, sx.L{sx.I(e.AtMs), sx.I(k), sx.I(int64(e.ID))})
			outs = append(outs, sx.L{sx.I(res[i].code), sx.I(res[i].token)})
		}
		if len(evs) == 0 {
			continue
		}
		outl = append(outl, struct{ in, obs sx.V }{sx.L{evs, sx.I(c.Horizon), sx.Bool(c.Mux)}, sx.L{outs, sx.I(mainOK)}})
	}
	return outl
}

func runGrpcBroker(o opts, mux bool) error {
	if mux {
		// host-accepting direction: the host's client muxer enters AcceptKnock late (all cases of this process)
		plugin.VerifSetHook(func(name string, id uint32) {
			if name == "cmux.acceptknock" || name == "grpc.knock.sent" {
				time.Sleep(150 * time.Millisecond)
			}
		})
	}
	fam := "grpcbroker"
	prop := 7
	if mux {
		fam, prop = "grpcmux", 8
	}
	var cs []gbCase
	if o.cases != "" {
		if err := hk.LoadCases(o.cases, &cs); err != nil {
			return err
		}
	} else {
		cs = genGrpcBroker(o, mux)
	}
	sink, err := hk.NewSink(o.out, fam)
	if err != nil {
		return err
	}
	defer sink.Close()
	var wg sync.WaitGroup
	sem := make(chan struct{}, 12)
	for i, c := range cs {
		wg.Add(1)
		sem <- struct{}{}
		go func(i int, c gbCase) {
			defer wg.Done()
			defer func() { <-sem }()
			for d, l := range runOneGrpcBroker(c) {
				sink.Put(prop, fmt.Sprintf("g%d.%d", i, d), l.in, l.obs, c)
			}
		}(i, c)
	}
	wg.Wait()
	return nil
}

// transRunner: a custom runner that keeps the plugin in a directory of its own and hands it RELATIVE socket directories;
// PluginToHost turns the relative addresses the plugin advertises into paths that exist on the host.
type transRunner struct {
	*procRunner
	dir    string // the plugin's own directory (its working directory)
	shared string // the socket directory go-plugin created for this runner; the plugin sees it as "s"
}

func (t *transRunner) PluginToHost(network, addr string) (string, string, error) {
	if network == "unix" && !filepath.IsAbs(addr) {
		return network, filepath.Join(t.dir, addr), nil
	}
	return network, addr, nil
}

// HostToPlugin: only what lies in the shared directory exists for the plugin (as with a mount into a container); any
// other host path cannot be translated.
func (t *transRunner) HostToPlugin(network, addr string) (string, string, error) {
	if network != "unix" {
		return network, addr, nil
	}
	rel, err := filepath.Rel(t.shared, addr)
	if err != nil || strings.HasPrefix(rel, "..") || filepath.IsAbs(rel) {
		return "", "", fmt.Errorf("%s is outside the directory shared with the plugin (%s)", addr, t.shared)
	}
	return network, filepath.Join("s", rel), nil
}

func startTranslatedVP(o vpOpts) (*plugin.Client, vp.Caller, error) {
	pdir, err := os.MkdirTemp("", "tr")
	if err != nil {
		return nil, nil, err
	}
	cfg := vpClientConfig(o)
	cmd := cfg.Cmd
	cfg.Cmd = nil
	cfg.RunnerFunc = func(l hclog.Logger, spec *exec.Cmd, tmp string) (runner.Runner, error) {
		real := exec.Command(cmd.Path)
		real.Dir = pdir
		// the socket directory go-plugin made for this runner is "mounted" into the plugin's directory as s
		if err := os.Symlink(tmp, filepath.Join(pdir, "s")); err != nil {
			return nil, err
		}
		var env []string
		for _, e := range append(append([]string{}, cmd.Env...), spec.Env...) {
			if strings.HasPrefix(e, plugin.EnvUnixSocketDir+"=") || strings.HasPrefix(e, "TMPDIR=") {
				continue
			}
			env = append(env, e)
		}
		real.Env = append(env, plugin.EnvUnixSocketDir+"=s", "TMPDIR=s")
		pr, err := newProcRunner(real)
		if err != nil {
			return nil, err
		}
		return &transRunner{procRunner: pr, dir: pdir, shared: tmp}, nil
	}
	cl := plugin.NewClient(cfg)
	type res struct {
		c vp.Caller
		e error
	}
	ch := make(chan res, 1)
	go func() {
		rpcc, err := cl.Client()
		if err != nil {
			ch <- res{nil, err}
			return
		}
		raw, err := rpcc.Dispense("vp")
		if err != nil {
			ch <- res{nil, err}
			return
		}
		ch <- res{bounded(raw.(vp.Caller)), nil}
	}()
	select {
	case x := <-ch:
		if x.e != nil {
			go cl.Kill()
			return nil, nil, x.e
		}
		return cl, x.c, nil
	case <-time.After(25 * time.Second):
		go cl.Kill()
		return nil, nil, fmt.Errorf("start did not return in time")
	}
}
