package main

// C02: version negotiation. Families:
//   negotiate  - protocolVersion (server side) in-process through verif_export, env list generated
//   clientver  - the client's acceptance of the announced version through Client.Start + scripted runner
//   gostrings  - the Go string functions the handshake models depend on vs their Coq models

import (
	"context"
	"fmt"
	"math/rand"
	"net/rpc"
	"os"
	"reflect"
	"strconv"
	"strings"
	"time"

	plugin "github.com/hashicorp/go-plugin"
	"google.golang.org/grpc"
	"verif/harness/hk"
	"verif/harness/sx"
)

type netPlugin struct{ tag int }

func (netPlugin) Server(*plugin.MuxBroker) (interface{}, error)              { return nil, nil }
func (netPlugin) Client(*plugin.MuxBroker, *rpc.Client) (interface{}, error) { return nil, nil }

type grpcPlugin struct {
	plugin.NetRPCUnsupportedPlugin
	tag int
}

func (grpcPlugin) GRPCServer(*plugin.GRPCBroker, *grpc.Server) error { return nil }
func (grpcPlugin) GRPCClient(context.Context, *plugin.GRPCBroker, *grpc.ClientConn) (interface{}, error) {
	return nil, nil
}

type setSpec struct {
	ID   int `json:"id"`
	Kind int `json:"kind"` // 0 empty, 1 netrpc, 2 grpc
}
type verEntry struct {
	V    int `json:"v"`
	ID   int `json:"id"`
	Kind int `json:"kind"`
}
type negCase struct {
	SVersion  int        `json:"sversion"`
	HasLegacy bool       `json:"has_legacy"`
	Legacy    setSpec    `json:"legacy"`
	Versioned []verEntry `json:"versioned"`
	Factory   bool       `json:"factory"`
	Env       string     `json:"env"`
}

func mkSet(s setSpec) plugin.PluginSet {
	m := plugin.PluginSet{}
	switch s.Kind {
	case 1:
		m["p"] = netPlugin{s.ID}
	case 2:
		m["p"] = grpcPlugin{tag: s.ID}
	}
	return m
}

func mapPtr(m plugin.PluginSet) uintptr {
	if m == nil {
		return 0
	}
	return reflect.ValueOf(m).Pointer()
}

func init() {
	families["negotiate"] = runNegotiate
	families["clientver"] = runClientver
	families["gostrings"] = runGoStrings
}

func randVersion(r *rand.Rand) int {
	switch r.Intn(12) {
	case 0:
		return 0
	case 1:
		return -1 - r.Intn(3)
	case 2:
		return 1000000 + r.Intn(5)
	default:
		return r.Intn(7)
	}
}

func garbleEnv(r *rand.Rand, vs []int) string {
	items := make([]string, 0, len(vs)+3)
	for _, v := range vs {
		items = append(items, strconv.Itoa(v))
	}
	r.Shuffle(len(items), func(i, j int) { items[i], items[j] = items[j], items[i] })
	for k := r.Intn(3); k > 0 && r.Intn(3) == 0; k-- {
		g := hk.Pick(r, []string{"", "x", "+3", " 2", "2 ", "9223372036854775808", "-1", "1.0", "0x2", "٣", "+", "-", "00002", "1_0"})
		pos := r.Intn(len(items) + 1)
		items = append(items[:pos], append([]string{g}, items[pos:]...)...)
	}
	if len(items) > 0 && r.Intn(8) == 0 { // duplicate
		items = append(items, items[r.Intn(len(items))])
	}
	return strings.Join(items, ",")
}

func genNegotiate(o opts) []negCase {
	r := hk.Rng(o.seed)
	n := 1500
	if o.tier == "thorough" {
		n = 40000
	}
	if o.n > 0 {
		n = o.n
	}
	cs := []negCase{
		// directed: two common versions (which the suite never has); no common; no list; legacy only
		{SVersion: 0, Versioned: []verEntry{{2, 12, 2}, {3, 13, 2}, {4, 14, 2}}, Factory: true, Env: "1,2,3,5"},
		{SVersion: 0, Versioned: []verEntry{{2, 12, 1}, {3, 13, 2}, {4, 14, 1}}, Factory: true, Env: "5,3,2,1"},
		{SVersion: 0, Versioned: []verEntry{{2, 12, 2}, {3, 13, 2}}, Factory: true, Env: "7,8"},
		{SVersion: 0, Versioned: []verEntry{{2, 12, 2}, {3, 13, 2}}, Factory: true, Env: ""},
		{SVersion: 1, HasLegacy: true, Legacy: setSpec{1, 1}, Env: "1"},
		{SVersion: 2, HasLegacy: true, Legacy: setSpec{1, 2}, Versioned: []verEntry{{2, 12, 1}, {3, 13, 2}}, Factory: true, Env: "2"},
		{SVersion: 0, HasLegacy: true, Legacy: setSpec{1, 1}, Versioned: []verEntry{{0, 10, 2}}, Factory: true, Env: "0"},
		{SVersion: 5, Env: "5"},
		{SVersion: 0, Versioned: []verEntry{{2, 12, 0}, {3, 13, 2}}, Factory: true, Env: "2"},
	}
	id := 100
	for len(cs) < n {
		var c negCase
		c.SVersion = randVersion(r)
		c.HasLegacy = r.Intn(3) == 0
		id++
		c.Legacy = setSpec{id, hk.Pick(r, []int{1, 1, 2, 2, 0})}
		k := r.Intn(6)
		seen := map[int]bool{}
		for i := 0; i < k; i++ {
			v := randVersion(r)
			if seen[v] {
				continue
			}
			seen[v] = true
			id++
			c.Versioned = append(c.Versioned, verEntry{v, id, hk.Pick(r, []int{1, 2, 2, 2, 0})})
		}
		c.Factory = r.Intn(4) != 0
		// client versions: mostly overlapping with the server's
		var cv []int
		for v := range seen {
			if r.Intn(2) == 0 {
				cv = append(cv, v)
			}
		}
		for i := r.Intn(4); i > 0; i-- {
			cv = append(cv, randVersion(r))
		}
		if r.Intn(10) != 0 {
			c.Env = garbleEnv(r, cv)
		}
		cs = append(cs, c)
	}
	return cs
}

func runNegotiate(o opts) error {
	var cs []negCase
	if o.cases != "" {
		if err := hk.LoadCases(o.cases, &cs); err != nil {
			return err
		}
	} else {
		cs = genNegotiate(o)
	}
	sink, err := hk.NewSink(o.out, "negotiate")
	if err != nil {
		return err
	}
	defer sink.Close()
	devnull, _ := os.OpenFile(os.DevNull, os.O_WRONLY, 0)
	saved := os.Stderr
	defer func() { os.Stderr = saved }()
	for i, c := range cs {
		ids := map[uintptr]int{}
		cfg := &plugin.ServeConfig{HandshakeConfig: plugin.HandshakeConfig{ProtocolVersion: uint(c.SVersion)}}
		if c.SVersion < 0 { // uint conversion: keep to what a ServeConfig can express
			cfg.ProtocolVersion = 0
			c.SVersion = 0
		}
		if c.HasLegacy {
			cfg.Plugins = mkSet(c.Legacy)
			ids[mapPtr(cfg.Plugins)] = c.Legacy.ID
		}
		var ents sx.L
		if c.Versioned != nil {
			cfg.VersionedPlugins = map[int]plugin.PluginSet{}
			for _, e := range c.Versioned {
				s := mkSet(setSpec{e.ID, e.Kind})
				cfg.VersionedPlugins[e.V] = s
				ids[mapPtr(s)] = e.ID
				ents = append(ents, sx.L{sx.I(e.V), sx.I(e.ID), sx.I(e.Kind)})
			}
		}
		if ents == nil {
			ents = sx.L{}
		}
		if c.Factory {
			cfg.GRPCServer = plugin.DefaultGRPCServer
		}
		os.Setenv("PLUGIN_PROTOCOL_VERSIONS", c.Env)
		os.Stderr = devnull // protocolVersion complains about invalid items on stderr
		v, p, set := plugin.VerifProtocolVersion(cfg)
		os.Stderr = saved
		sid := -1
		if set != nil {
			if x, ok := ids[mapPtr(set)]; ok {
				sid = x
			} else {
				sid = -2
			}
		}
		pc := 0
		switch p {
		case plugin.ProtocolNetRPC:
			pc = 1
		case plugin.ProtocolGRPC:
			pc = 2
		}
		in := sx.L{sx.L{sx.I(c.SVersion), sx.Bool(c.HasLegacy), sx.L{sx.I(c.Legacy.ID), sx.I(c.Legacy.Kind)}, ents, sx.Bool(c.Factory)}, sx.S(c.Env)}
		obs := sx.L{sx.I(v), sx.I(pc), sx.I(sid)}
		sink.Put(2, fmt.Sprintf("n%d", i), in, obs, c)
	}
	os.Unsetenv("PLUGIN_PROTOCOL_VERSIONS")
	return nil
}

// ---- client side

type cvCase struct {
	CVersion  int        `json:"cversion"`
	HasLegacy bool       `json:"has_legacy"`
	Legacy    setSpec    `json:"legacy"`
	Versioned []verEntry `json:"versioned"`
	Field     string     `json:"field"`
}

func genClientver(o opts) []cvCase {
	r := hk.Rng(o.seed + 7)
	n := 400
	if o.tier == "thorough" {
		n = 8000
	}
	if o.n > 0 {
		n = o.n
	}
	cs := []cvCase{
		{CVersion: 1, HasLegacy: true, Legacy: setSpec{1, 1}, Field: "1"},
		{CVersion: 1, HasLegacy: true, Legacy: setSpec{1, 1}, Field: "2"},
		{CVersion: 0, Versioned: []verEntry{{2, 12, 1}, {3, 13, 1}}, Field: "3"},
		{CVersion: 2, HasLegacy: true, Legacy: setSpec{1, 1}, Versioned: []verEntry{{2, 12, 1}}, Field: "2"},
		{CVersion: 0, Versioned: []verEntry{{2, 12, 1}}, Field: "+2"},
		{CVersion: 0, Versioned: []verEntry{{2, 12, 1}}, Field: " 2"},
		{CVersion: 0, Versioned: []verEntry{{2, 12, 1}}, Field: "x"},
		{CVersion: 0, HasLegacy: true, Legacy: setSpec{1, 1}, Versioned: []verEntry{{2, 12, 1}}, Field: "0"},
	}
	id := 100
	for len(cs) < n {
		var c cvCase
		c.CVersion = r.Intn(5)
		c.HasLegacy = r.Intn(2) == 0
		id++
		c.Legacy = setSpec{id, 1}
		seen := map[int]bool{}
		for i := r.Intn(5); i > 0; i-- {
			v := randVersion(r)
			if seen[v] {
				continue
			}
			seen[v] = true
			id++
			c.Versioned = append(c.Versioned, verEntry{v, id, 1})
		}
		v := randVersion(r)
		if r.Intn(2) == 0 && len(c.Versioned) > 0 {
			v = c.Versioned[r.Intn(len(c.Versioned))].V
		}
		c.Field = strconv.Itoa(v)
		if r.Intn(10) == 0 {
			c.Field = hk.Pick(r, []string{"", "x", "+" + c.Field, " " + c.Field, c.Field + " ", "9223372036854775808", "00" + c.Field, "1e0"})
		}
		cs = append(cs, c)
	}
	return cs
}

func runClientver(o opts) error {
	var cs []cvCase
	if o.cases != "" {
		if err := hk.LoadCases(o.cases, &cs); err != nil {
			return err
		}
	} else {
		cs = genClientver(o)
	}
	sink, err := hk.NewSink(o.out, "clientver")
	if err != nil {
		return err
	}
	defer sink.Close()
	for i, c := range cs {
		ids := map[uintptr]int{}
		cfg := &plugin.ClientConfig{
			HandshakeConfig: plugin.HandshakeConfig{ProtocolVersion: uint(c.CVersion), MagicCookieKey: "K", MagicCookieValue: "V"},
			StartTimeout:    2 * time.Second,
			Logger:          hk.QuietLogger(),
			SkipHostEnv:     true,
		}
		if c.HasLegacy {
			cfg.Plugins = mkSet(c.Legacy)
			ids[mapPtr(cfg.Plugins)] = c.Legacy.ID
		}
		var ents sx.L
		if c.Versioned != nil {
			cfg.VersionedPlugins = map[int]plugin.PluginSet{}
			for _, e := range c.Versioned {
				s := mkSet(setSpec{e.ID, e.Kind})
				cfg.VersionedPlugins[e.V] = s
				ids[mapPtr(s)] = e.ID
				ents = append(ents, sx.L{sx.I(e.V), sx.I(e.ID), sx.I(e.Kind)})
			}
		}
		if ents == nil {
			ents = sx.L{}
		}
		sr := hk.NewScripted()
		sr.OnStart = func(s *hk.Scripted) { fmt.Fprintf(s.StdoutW, "1|%s|tcp|127.0.0.1:1234|netrpc|\n", c.Field) }
		cfg.RunnerFunc = sr.RunnerFunc(nil)
		cl := plugin.NewClient(cfg)
		_, serr := cl.Start()
		ok, ver, sid := 0, 0, -1
		if serr == nil {
			ok = 1
			ver = cl.NegotiatedVersion()
			if x, found := ids[mapPtr(cfg.Plugins)]; found {
				sid = x
			} else {
				sid = -2
			}
		}
		boundedKill(cl)
		in := sx.L{sx.L{sx.I(c.CVersion), sx.Bool(c.HasLegacy), sx.L{sx.I(c.Legacy.ID), sx.I(c.Legacy.Kind)}, ents}, sx.S(c.Field)}
		obs := sx.L{sx.I(ok), sx.I(ver), sx.I(sid)}
		sink.Put(102, fmt.Sprintf("cv%d", i), in, obs, c)
	}
	return nil
}

// ---- Go string functions vs their Coq models

type gsCase struct {
	Op int    `json:"op"`
	S  []byte `json:"s"`
	Z  int64  `json:"z"`
}

func runGoStrings(o opts) error {
	r := hk.Rng(o.seed + 99)
	n := 3000
	if o.tier == "thorough" {
		n = 60000
	}
	if o.n > 0 {
		n = o.n
	}
	var cs []gsCase
	if o.cases != "" {
		if err := hk.LoadCases(o.cases, &cs); err != nil {
			return err
		}
	} else {
		spaceToks := []string{" ", "\t", "\n", "\v", "\f", "\r", "\u0085", " ", " ", " ", " ", " ", " ", " ", " ", " ", "　"}
		nearToks := []string{"​", "᠎", "\xc2", "\x85", "\xa0", "\xe2\x80", "\xe2", "\x80", "\xe1\x9a", "\xe3\x80", "\u0084", "¡", "‧", "‪", "⁞", "、", "\xff", "\x00", "\x1c", "\x1f"}
		alpha := []string{"a", "|", ",", "1", "-", "+", "0", "9", "t", "T", "true", "False"}
		gen := func() []byte {
			var b []byte
			for k := r.Intn(7); k > 0; k-- {
				switch r.Intn(4) {
				case 0:
					b = append(b, hk.Pick(r, spaceToks)...)
				case 1:
					b = append(b, hk.Pick(r, nearToks)...)
				case 2:
					b = append(b, hk.Pick(r, alpha)...)
				default:
					b = append(b, byte(r.Intn(256)))
				}
			}
			return b
		}
		ints := []string{"0", "-0", "+0", "1", "-1", "+1", "007", "9223372036854775807", "9223372036854775808", "-9223372036854775808", "-9223372036854775809", "99999999999999999999", "", "+", "-", "1_000", "0x10", "1e3", " 1", "1 ", "١"}
		bools := []string{"1", "t", "T", "TRUE", "true", "True", "0", "f", "F", "FALSE", "false", "False", "tRUE", "yes", "", "2", "truee", " true"}
		for len(cs) < n {
			op := r.Intn(6)
			c := gsCase{Op: op}
			switch op {
			case 0, 1, 5:
				c.S = gen()
			case 2:
				if r.Intn(2) == 0 {
					c.S = []byte(hk.Pick(r, ints))
				} else if r.Intn(2) == 0 {
					c.S = []byte(strconv.FormatInt(r.Int63()-r.Int63(), 10))
				} else {
					c.S = gen()
				}
			case 3:
				if r.Intn(3) != 0 {
					c.S = []byte(hk.Pick(r, bools))
				} else {
					c.S = gen()
				}
			case 4:
				switch r.Intn(4) {
				case 0:
					c.Z = int64(r.Intn(21) - 10)
				case 1:
					c.Z = r.Int63()
				case 2:
					c.Z = -r.Int63()
				default:
					c.Z = hk.Pick(r, []int64{0, 9, 10, 99, 100, -9, -10, 1<<63 - 1, -1 << 63})
				}
			}
			cs = append(cs, c)
		}
	}
	sink, err := hk.NewSink(o.out, "gostrings")
	if err != nil {
		return err
	}
	defer sink.Close()
	for i, c := range cs {
		var in, obs sx.V
		switch c.Op {
		case 0, 5:
			sep := "|"
			if c.Op == 5 {
				sep = ","
			}
			parts := strings.Split(string(c.S), sep)
			l := sx.L{}
			for _, p := range parts {
				l = append(l, sx.S(p))
			}
			in, obs = sx.L{sx.I(c.Op), sx.B(c.S)}, l
		case 1:
			in, obs = sx.L{sx.I(1), sx.B(c.S)}, sx.S(strings.TrimSpace(string(c.S)))
		case 2:
			v, err := strconv.Atoi(string(c.S))
			if err != nil {
				obs = sx.L{sx.I(0), sx.I(0)}
			} else {
				obs = sx.L{sx.I(1), sx.I(v)}
			}
			in = sx.L{sx.I(2), sx.B(c.S)}
		case 3:
			v, err := strconv.ParseBool(string(c.S))
			if err != nil {
				obs = sx.L{sx.I(0), sx.I(0)}
			} else {
				obs = sx.L{sx.I(1), sx.Bool(v)}
			}
			in = sx.L{sx.I(3), sx.B(c.S)}
		case 4:
			in, obs = sx.L{sx.I(4), sx.I(c.Z)}, sx.S(strconv.FormatInt(c.Z, 10))
		}
		sink.Put(100, fmt.Sprintf("g%d", i), in, obs, c)
	}
	return nil
}

// ---- both sides in one loop: the host's Start builds the version list, the plugin side's
// protocolVersion answers it, the announced line goes back into Start.

type n2Case struct {
	CVersion int        `json:"cversion"`
	CLegacy  bool       `json:"clegacy"`
	CVer     []verEntry `json:"cversioned"`
	SVersion int        `json:"sversion"`
	SLegacy  bool       `json:"slegacy"`
	SLegacyK int        `json:"slegacy_kind"`
	SVer     []verEntry `json:"sversioned"`
	Factory  bool       `json:"factory"`
	// Inherited: a PLUGIN_PROTOCOL_VERSIONS value already present in the host's own environment (the host is itself a
	// plugin); the host passes its environment on (SkipHostEnv off) and the offer it makes must still be its own
	Inherited string `json:"inherited,omitempty"`
}

func init() { families["negotiate2"] = runNegotiate2 }

func genNegotiate2(o opts) []n2Case {
	r := hk.Rng(o.seed + 41)
	n := 600
	if o.tier == "thorough" {
		n = 15000
	}
	if o.n > 0 {
		n = o.n
	}
	cs := []n2Case{
		{CVersion: 1, CLegacy: true, SVersion: 1, SLegacy: true, SLegacyK: 1},
		{CVersion: 2, CLegacy: true, SVer: []verEntry{{1, 21, 2}, {2, 22, 2}}, Factory: true},                                       // legacy host, multi-version plugin
		{CVersion: 3, CLegacy: true, CVer: []verEntry{{2, 12, 1}}, SVer: []verEntry{{2, 22, 2}, {3, 23, 2}}, Factory: true},         // mixed host: legacy is the highest common
		{CVer: []verEntry{{2, 12, 1}, {3, 13, 1}, {5, 15, 1}, {4, 14, 1}}, SVer: []verEntry{{3, 23, 2}, {2, 22, 2}}, Factory: true}, // host two ahead
		{CVer: []verEntry{{5, 15, 1}, {4, 14, 1}, {3, 13, 1}}, SVer: []verEntry{{3, 23, 2}, {1, 21, 2}}, Factory: true},
		{CVer: []verEntry{{7, 17, 1}}, SVer: []verEntry{{3, 23, 2}, {1, 21, 2}}, Factory: true},  // disjoint
		{CVersion: 0, CLegacy: true, CVer: []verEntry{{0, 10, 1}}, SVer: []verEntry{{0, 20, 1}}}, // real version 0 on the host
	}
	id := 100
	for len(cs) < n {
		var c n2Case
		c.CVersion = r.Intn(6)
		c.CLegacy = r.Intn(2) == 0
		c.SVersion = r.Intn(6)
		c.SLegacy = r.Intn(3) == 0
		c.SLegacyK = hk.Pick(r, []int{1, 2})
		c.Factory = r.Intn(4) != 0
		seen := map[int]bool{}
		for i := r.Intn(5); i > 0; i-- {
			v := r.Intn(8)
			if !seen[v] {
				seen[v] = true
				id++
				c.CVer = append(c.CVer, verEntry{v, id, 1})
			}
		}
		seen = map[int]bool{}
		for i := r.Intn(5); i > 0; i-- {
			v := r.Intn(8)
			if !seen[v] {
				seen[v] = true
				id++
				c.SVer = append(c.SVer, verEntry{v, id, hk.Pick(r, []int{1, 2, 2})})
			}
		}
		if !c.CLegacy && len(c.CVer) == 0 {
			c.CLegacy = true
		}
		if r.Intn(3) == 0 {
			c.Inherited = hk.Pick(r, []string{"1", "7", "x,1", "0", "2,3", "5,4,3,2,1,0", ","})
		}
		cs = append(cs, c)
	}
	// the directed cases once more, each under an inherited list
	for i, inh := range []string{"1", "7", "x,1", "2", "3", "1", "0"} {
		c := cs[i]
		c.Inherited = inh
		cs = append(cs, c)
	}
	return cs
}

func runNegotiate2(o opts) error {
	var cs []n2Case
	if o.cases != "" {
		if err := hk.LoadCases(o.cases, &cs); err != nil {
			return err
		}
	} else {
		cs = genNegotiate2(o)
	}
	sink, err := hk.NewSink(o.out, "negotiate2")
	if err != nil {
		return err
	}
	defer sink.Close()
	devnull, _ := os.OpenFile(os.DevNull, os.O_WRONLY, 0)
	saved := os.Stderr
	for i, c := range cs {
		cids, sids := map[uintptr]int{}, map[uintptr]int{}
		ccfg := &plugin.ClientConfig{
			HandshakeConfig:  plugin.HandshakeConfig{ProtocolVersion: uint(c.CVersion), MagicCookieKey: "K", MagicCookieValue: "V"},
			StartTimeout:     2 * time.Second,
			Logger:           hk.QuietLogger(),
			SkipHostEnv:      true,
			AllowedProtocols: []plugin.Protocol{plugin.ProtocolNetRPC, plugin.ProtocolGRPC},
		}
		clegacy := setSpec{1, 1}
		if c.CLegacy {
			ccfg.Plugins = mkSet(clegacy)
			cids[mapPtr(ccfg.Plugins)] = clegacy.ID
		}
		cents := sx.L{}
		if c.CVer != nil {
			ccfg.VersionedPlugins = map[int]plugin.PluginSet{}
			for _, e := range c.CVer {
				s := mkSet(setSpec{e.ID, e.Kind})
				ccfg.VersionedPlugins[e.V] = s
				cids[mapPtr(s)] = e.ID
				cents = append(cents, sx.L{sx.I(e.V), sx.I(e.ID), sx.I(e.Kind)})
			}
		}
		scfg := &plugin.ServeConfig{HandshakeConfig: plugin.HandshakeConfig{ProtocolVersion: uint(c.SVersion)}}
		slegacy := setSpec{2, c.SLegacyK}
		if c.SLegacy {
			scfg.Plugins = mkSet(slegacy)
			sids[mapPtr(scfg.Plugins)] = slegacy.ID
		}
		sents := sx.L{}
		if c.SVer != nil {
			scfg.VersionedPlugins = map[int]plugin.PluginSet{}
			for _, e := range c.SVer {
				s := mkSet(setSpec{e.ID, e.Kind})
				scfg.VersionedPlugins[e.V] = s
				sids[mapPtr(s)] = e.ID
				sents = append(sents, sx.L{sx.I(e.V), sx.I(e.ID), sx.I(e.Kind)})
			}
		}
		if c.Factory {
			scfg.GRPCServer = plugin.DefaultGRPCServer
		}
		sr := hk.NewScripted()
		announced, ssid := 0, -1
		sr.OnStart = func(s *hk.Scripted) {
			env := ""
			for _, kv := range s.Cmd.Env {
				if strings.HasPrefix(kv, "PLUGIN_PROTOCOL_VERSIONS=") {
					env = strings.TrimPrefix(kv, "PLUGIN_PROTOCOL_VERSIONS=")
				}
			}
			os.Setenv("PLUGIN_PROTOCOL_VERSIONS", env)
			os.Stderr = devnull
			v, p, set := plugin.VerifProtocolVersion(scfg)
			os.Stderr = saved
			announced = v
			if set != nil {
				if x, ok := sids[mapPtr(set)]; ok {
					ssid = x
				} else {
					ssid = -2
				}
			}
			fmt.Fprintf(s.StdoutW, "1|%d|tcp|127.0.0.1:1234|%s|\n", v, p)
		}
		ccfg.RunnerFunc = sr.RunnerFunc(nil)
		if c.Inherited != "" {
			ccfg.SkipHostEnv = false
			os.Setenv("PLUGIN_PROTOCOL_VERSIONS", c.Inherited)
		} else {
			os.Unsetenv("PLUGIN_PROTOCOL_VERSIONS")
		}
		cl := plugin.NewClient(ccfg)
		_, serr := cl.Start()
		ok, ver, csid := 0, 0, -1
		if serr == nil {
			ok = 1
			ver = cl.NegotiatedVersion()
			if x, found := cids[mapPtr(ccfg.Plugins)]; found {
				csid = x
			} else {
				csid = -2
			}
		}
		kills := sr.KillCount()
		if serr != nil {
			boundedKill(cl)
		} else {
			sr.Exit() // a Kill would first try to connect to the announced (fictitious) address
		}
		in := sx.L{
			sx.L{sx.I(c.CVersion), sx.Bool(c.CLegacy), sx.L{sx.I(clegacy.ID), sx.I(clegacy.Kind)}, cents},
			sx.L{sx.I(c.SVersion), sx.Bool(c.SLegacy), sx.L{sx.I(slegacy.ID), sx.I(slegacy.Kind)}, sents, sx.Bool(c.Factory)},
		}
		obs := sx.L{sx.I(ok), sx.I(ver), sx.I(csid), sx.I(announced), sx.I(ssid), sx.Bool(kills >= 1)}
		sink.Put(202, fmt.Sprintf("b%d", i), in, obs, c)
	}
	os.Unsetenv("PLUGIN_PROTOCOL_VERSIONS")
	return nil
}
