package main

// C18: what is left after a session ends with a graceful Kill.  Every history runs in its own child
// process whose TMPDIR is private (host-side sockets and the custom runner's directory land there);
// the plugin gets another private TMPDIR.  After Kill the directories are listed and the goroutines
// of the child are censused for up to 7 s.

import (
	"fmt"
	"os"
	"os/exec"
	"path/filepath"
	"runtime"
	"sort"
	"strings"
	"sync"
	"time"

	hclog "github.com/hashicorp/go-hclog"
	plugin "github.com/hashicorp/go-plugin"
	"github.com/hashicorp/go-plugin/runner"
	"google.golang.org/grpc"
	"verif/harness/hk"
	"verif/harness/sx"
	"verif/harness/vp"
)

type loCase struct {
	Proto          string `json:"proto"` // netrpc | grpc
	Mux            bool   `json:"mux"`
	AutoMTLS       bool   `json:"automtls"`
	Launch         string `json:"launch"`          // cmd | runner
	HostBrokered   int    `json:"host_brokered"`   // established pairs: host accepts, plugin dials
	PluginBrokered int    `json:"plugin_brokered"` // established pairs: plugin accepts, host dials
	Unmatched      int    `json:"unmatched"`       // ids announced twice by the plugin and never consumed by the host
	Dispenses      int    `json:"dispenses"`
	Stdio          int    `json:"stdio"` // bytes the plugin writes to its stdout and stderr during the session
	Kind           string `json:"kind"`
	Left           string `json:"left,omitempty"` // filled in by the run: what was found afterwards (for the findings file)
}

func init() { families["leftovers"] = runLeftovers }

func genLeftovers(o opts) []loCase {
	r := hk.Rng(o.seed + 131)
	n := 28
	if o.tier == "thorough" {
		n = 240
	}
	cs := []loCase{
		{Proto: "grpc", Mux: true, Launch: "cmd", Dispenses: 1, Kind: "directed-mux-main-socket"},
		{Proto: "grpc", Mux: true, Launch: "cmd", HostBrokered: 2, PluginBrokered: 2, Dispenses: 2, Stdio: 4096, Kind: "directed-mux-brokered"},
		{Proto: "grpc", Launch: "cmd", HostBrokered: 3, Dispenses: 1, Kind: "directed-host-brokered"},
		{Proto: "grpc", Launch: "cmd", PluginBrokered: 3, Dispenses: 1, Kind: "directed-plugin-brokered"},
		{Proto: "grpc", Launch: "runner", HostBrokered: 2, PluginBrokered: 2, Dispenses: 1, Stdio: 1000, Kind: "directed-runner-dir"},
		{Proto: "netrpc", Launch: "runner", HostBrokered: 1, PluginBrokered: 1, Dispenses: 1, Kind: "directed-runner-dir"},
		{Proto: "grpc", Launch: "cmd", Unmatched: 2, Dispenses: 1, Kind: "directed-unmatched"},
		{Proto: "grpc", Mux: true, Launch: "cmd", Unmatched: 1, Dispenses: 1, Kind: "directed-unmatched-mux"},
		{Proto: "netrpc", Launch: "cmd", HostBrokered: 2, PluginBrokered: 2, Dispenses: 3, Stdio: 70000, Kind: "directed-netrpc"},
		{Proto: "grpc", AutoMTLS: true, Launch: "cmd", HostBrokered: 1, Dispenses: 1, Stdio: 70000, Kind: "directed-mtls"},
	}
	for len(cs) < n {
		c := loCase{Proto: hk.Pick(r, []string{"netrpc", "grpc", "grpc", "grpc"}), Launch: hk.Pick(r, []string{"cmd", "cmd", "runner"}), Kind: "random"}
		if c.Proto == "grpc" {
			c.Mux = r.Intn(2) == 0
		}
		c.AutoMTLS = r.Intn(4) == 0
		c.HostBrokered = r.Intn(4)
		c.PluginBrokered = hk.Pick(r, []int{0, 0, 0, 1, 2}) // without multiplexing each of these meets the recorded race
		if c.Proto == "grpc" && r.Intn(5) == 0 {
			c.Unmatched = 1 + r.Intn(2)
		}
		c.Dispenses = 1 + r.Intn(3)
		c.Stdio = hk.Pick(r, []int{0, 0, 100, 5000, 70000})
		cs = append(cs, c)
	}
	return cs
}

func goPluginGoroutines() (int, string) {
	buf := make([]byte, 4<<20)
	buf = buf[:runtime.Stack(buf, true)]
	n, first := 0, ""
	for _, g := range strings.Split(string(buf), "\n\n") {
		if strings.Contains(g, "github.com/hashicorp/go-plugin") || strings.Contains(g, "github.com/hashicorp/yamux") {
			if strings.Contains(g, "main.goPluginGoroutines") {
				continue
			}
			n++
			if first == "" {
				first = g
			}
		}
	}
	return n, first
}

func listDir(d string) []string {
	var out []string
	filepath.Walk(d, func(p string, info os.FileInfo, err error) error {
		if err == nil && p != d {
			rel, _ := filepath.Rel(d, p)
			out = append(out, rel)
		}
		return nil
	})
	sort.Strings(out)
	return out
}

func newNames(before, after []string) []string {
	seen := map[string]bool{}
	for _, b := range before {
		seen[b] = true
	}
	var out []string
	for _, a := range after {
		if !seen[a] {
			out = append(out, a)
		}
	}
	return out
}

// runOneLeftovers must run in a process of its own.
func runOneLeftovers(c loCase) (sx.V, sx.V, loCase, error) {
	base, err := os.MkdirTemp("", "lo")
	if err != nil {
		return nil, nil, c, err
	}
	defer os.RemoveAll(base)
	hostTmp, plugTmp := filepath.Join(base, "h"), filepath.Join(base, "p")
	os.Mkdir(hostTmp, 0o755)
	os.Mkdir(plugTmp, 0o755)
	os.Setenv("TMPDIR", hostTmp)
	marker := filepath.Join(base, "marker")
	all := func() []string {
		var l []string
		for _, x := range listDir(hostTmp) {
			l = append(l, "h/"+x)
		}
		for _, x := range listDir(plugTmp) {
			l = append(l, "p/"+x)
		}
		return l
	}

	o := vpOpts{Proto: c.Proto, Mux: c.Mux, AutoMTLS: c.AutoMTLS, TmpDir: plugTmp, Plugin: map[string]interface{}{"marker": marker}}
	cfg := vpClientConfig(o)
	var so, se countW
	cfg.SyncStdout, cfg.SyncStderr = &so, &se
	if c.Launch == "runner" {
		cmd := cfg.Cmd
		cfg.Cmd = nil
		cfg.RunnerFunc = func(l hclog.Logger, spec *exec.Cmd, tmp string) (runner.Runner, error) {
			real := exec.Command(cmd.Path)
			real.Env = append(append([]string{}, cmd.Env...), spec.Env...)
			return newProcRunner(real)
		}
	}
	cl := plugin.NewClient(cfg)
	rpcc, err := cl.Client()
	if err != nil {
		boundedKill(cl)
		return nil, nil, c, fmt.Errorf("client: %w", err)
	}
	afterStart := all()
	var mainSock, runnerDir []string
	for _, x := range afterStart {
		if strings.HasPrefix(filepath.Base(x), "plugin-dir") && !strings.Contains(strings.TrimPrefix(x, "h/"), "/") {
			runnerDir = append(runnerDir, x)
		} else {
			mainSock = append(mainSock, x)
		}
	}
	var callers []vp.Caller
	for i := 0; i < c.Dispenses; i++ {
		raw, err := rpcc.Dispense("vp")
		if err != nil {
			boundedKill(cl)
			return nil, nil, c, fmt.Errorf("dispense: %w", err)
		}
		callers = append(callers, bounded(raw.(vp.Caller)))
		if out, err := callers[i].Call(vp.Req{Op: "tag"}); err != nil || out.S != "set-1" {
			boundedKill(cl)
			return nil, nil, c, fmt.Errorf("tag: %v %q", err, out.S)
		}
	}
	caller := callers[0]
	if c.Stdio > 0 {
		data := make([]byte, c.Stdio)
		for i := range data {
			data[i] = byte('a' + i%26)
			if i%80 == 79 {
				data[i] = '\n'
			}
		}
		caller.Call(vp.Req{Op: "write", Data: data})
		caller.Call(vp.Req{Op: "write", K: "stderr", Data: data})
	}
	fail := func(what string, e error) (sx.V, sx.V, loCase, error) {
		boundedKill(cl)
		return nil, nil, c, fmt.Errorf("%s: %v", what, e)
	}

	// ---- host accepts, plugin dials
	before := all()
	for i := 0; i < c.HostBrokered; i++ {
		var id uint32
		if c.Proto == "grpc" {
			gb := caller.GRPC()
			id = gb.NextId()
			go gb.AcceptAndServe(id, func(opts []grpc.ServerOption) *grpc.Server {
				s := grpc.NewServer(opts...)
				vp.Register(s, hostWho(id), gb)
				return s
			})
		} else {
			mb := caller.Mux()
			id = mb.NextId()
			go mb.AcceptAndServe(id, vp.NetService(hostWho(id), mb))
		}
		out, err := caller.Call(vp.Req{Op: "dial", ID: id})
		if err != nil || out.Err != "" || out.ID != id {
			return fail("plugin dial", fmt.Errorf("%v %s", err, out.Err))
		}
	}
	hostSocks := newNames(before, all())

	// ---- plugin accepts, host dials
	before = all()
	for i := 0; i < c.PluginBrokered; i++ {
		id := uint32(1000 + i)
		if _, err := caller.Call(vp.Req{Op: "accept", ID: id}); err != nil {
			return fail("plugin accept", err)
		}
		if c.Proto == "grpc" {
			cc, err := caller.GRPC().Dial(id)
			if err != nil {
				return fail("host dial", err)
			}
			out, err := vp.NewGRPCCaller(cc, caller.GRPC()).Call(vp.Req{Op: "who"})
			cc.Close()
			if err != nil || out.ID != id {
				return fail("host who", err)
			}
		} else {
			conn, err := caller.Mux().Dial(id)
			if err != nil {
				return fail("host dial", err)
			}
			conn.Close()
		}
	}
	// ---- announcements for one id made twice and never consumed
	if c.Proto == "grpc" {
		var wg sync.WaitGroup
		for i := 0; i < c.Unmatched; i++ {
			id := uint32(2000 + i)
			for k := 0; k < 2; k++ {
				if c.Mux {
					// the plugin knocks twice on an id the host never accepts (each dial waits out its 5 s)
					wg.Add(1)
					go func() { defer wg.Done(); caller.Call(vp.Req{Op: "dial", ID: id}) }()
				} else {
					// the plugin listens twice on one id: two connection infos reach the host
					caller.Call(vp.Req{Op: "accept", ID: id})
				}
			}
		}
		wg.Wait()
		time.Sleep(150 * time.Millisecond)
	}
	plugSocks := newNames(before, all())

	time.Sleep(50 * time.Millisecond)
	boundedKill(cl)
	if b, _ := os.ReadFile(marker); string(b) != "clean-exit" {
		return nil, nil, c, fmt.Errorf("the plugin did not exit gracefully")
	}

	// ---- what is left
	var nGo int
	var stack string
	deadline := time.Now().Add(7 * time.Second)
	exists := func(l []string) bool {
		for _, x := range l {
			if _, err := os.Lstat(filepath.Join(base, x)); err == nil {
				return true
			}
		}
		return false
	}
	var o1, o2, o3, o4 bool
	for {
		nGo, stack = goPluginGoroutines()
		o1, o2, o3, o4 = exists(mainSock), exists(plugSocks), exists(hostSocks), exists(runnerDir)
		if (nGo == 0 && !o1 && !o2 && !o3 && !o4) || time.Now().After(deadline) {
			break
		}
		time.Sleep(100 * time.Millisecond)
	}
	pb := 0
	if c.Proto == "grpc" && !c.Mux {
		pb = c.PluginBrokered + 2*c.Unmatched
	}
	var left []string
	for i, b := range []bool{o1, o2, o3, o4, nGo > 0} {
		if b {
			left = append(left, []string{"plugin-main-socket", "plugin-brokered-socket", "host-brokered-socket", "runner-socket-dir", "host-goroutine"}[i])
		}
	}
	c.Left = strings.Join(left, ",")
	if nGo > 0 {
		if len(stack) > 1500 {
			stack = stack[:1500]
		}
		c.Left += " | first remaining goroutine: " + stack
	}
	// anything else still in the directories that the phases above did not account for is reported with the main socket
	if rest := all(); len(rest) > 0 && !o1 && !o2 && !o3 && !o4 {
		o1 = true
		c.Left = "unaccounted:" + strings.Join(rest, ",")
	}
	in := sx.L{sx.Bool(c.Proto == "grpc"), sx.Bool(c.Mux), sx.Bool(c.Launch == "runner"), sx.I(pb), sx.I(c.HostBrokered), sx.I(c.Unmatched)}
	obs := sx.L{sx.Bool(o1), sx.Bool(o2), sx.Bool(o3), sx.Bool(o4), sx.Bool(nGo > 0)}
	return in, obs, c, nil
}

type countW struct {
	mu sync.Mutex
	n  int
}

func (w *countW) Write(p []byte) (int, error) {
	w.mu.Lock()
	w.n += len(p)
	w.mu.Unlock()
	return len(p), nil
}

func runLeftovers(o opts) error {
	var cs []loCase
	if o.cases != "" {
		if err := hk.LoadCases(o.cases, &cs); err != nil {
			return err
		}
	} else {
		cs = genLeftovers(o)
	}
	sink, err := hk.NewSink(o.out, "leftovers")
	if err != nil {
		return err
	}
	defer sink.Close()
	if o.child {
		var lastErr error
		for try := 0; try < 3; try++ { // a shutdown that was not graceful (machine load) is outside the property: try again
			in, obs, c, err := runOneLeftovers(cs[0])
			if err == nil {
				sink.Put(18, "l0", in, obs, c)
				return nil
			}
			lastErr = err
		}
		return lastErr
	}
	return fanOut(o, "leftovers", 18, "l", len(cs), func(i int) interface{} { return cs[i] }, sink, 8)
}
