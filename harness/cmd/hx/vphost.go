package main

// Launching the scripted plugin binary (vplugin) from the host drivers.

import (
	"encoding/json"
	"fmt"
	"io"
	"os"
	"os/exec"
	"sync"
	"path/filepath"
	"time"

	hclog "github.com/hashicorp/go-hclog"
	plugin "github.com/hashicorp/go-plugin"
	"verif/harness/hk"
	"verif/harness/vp"
)

const vpCookieKey, vpCookieVal = "VP_COOKIE", "yes-this-is-a-plugin-host"

type vpOpts struct {
	Proto      string // netrpc | grpc : kind of the (single, legacy, version 1) plugin set on both sides
	Mux        bool   // host requests gRPC broker multiplexing
	AutoMTLS   bool
	Plugin     map[string]interface{} // extra VP_CONFIG fields (behaviours)
	SyncStdout io.Writer
	SyncStderr io.Writer
	Stderr     io.Writer
	Logger     hclog.Logger
	Env        []string
	StartTO    time.Duration
	Managed    bool
	TmpDir     string // TMPDIR of the plugin process (its sockets)
}

func vpluginPath() string {
	if p := os.Getenv("VERIF_VPLUGIN"); p != "" {
		return p
	}
	b := os.Getenv("VERIF_BUILD")
	if b == "" {
		b = "/verif/build"
	}
	return filepath.Join(b, "vplugin")
}

func vpCmd(o vpOpts) *exec.Cmd {
	pc := map[string]interface{}{
		"cookie_key": vpCookieKey, "cookie_value": vpCookieVal, "version": 1,
		"legacy":      map[string]string{"tag": "set-1", "kind": o.Proto},
		"grpc_server": o.Proto == "grpc",
	}
	for k, v := range o.Plugin {
		pc[k] = v
	}
	b, _ := json.Marshal(pc)
	cmd := exec.Command(vpluginPath())
	launchedMu.Lock()
	launched = append(launched, cmd)
	launchedMu.Unlock()
	cmd.Env = append(os.Environ(), "VP_CONFIG="+string(b))
	if o.TmpDir != "" {
		cmd.Env = append(cmd.Env, "TMPDIR="+o.TmpDir)
	}
	cmd.Env = append(cmd.Env, o.Env...)
	return cmd
}

func vpClientConfig(o vpOpts) *plugin.ClientConfig {
	lg := o.Logger
	if lg == nil {
		lg = hk.QuietLogger()
	}
	to := o.StartTO
	if to == 0 {
		to = 10 * time.Second
	}
	return &plugin.ClientConfig{
		HandshakeConfig:     plugin.HandshakeConfig{ProtocolVersion: 1, MagicCookieKey: vpCookieKey, MagicCookieValue: vpCookieVal},
		Plugins:             vp.MakeSet(vp.SetSpec{Tag: "set-1", Kind: o.Proto}, nil),
		Cmd:                 vpCmd(o),
		AllowedProtocols:    []plugin.Protocol{plugin.ProtocolNetRPC, plugin.ProtocolGRPC},
		GRPCBrokerMultiplex: o.Mux,
		AutoMTLS:            o.AutoMTLS,
		SyncStdout:          o.SyncStdout,
		SyncStderr:          o.SyncStderr,
		Stderr:              o.Stderr,
		Logger:              lg,
		StartTimeout:        to,
		Managed:             o.Managed,
		SkipHostEnv:         true, // vpCmd already put the host environment in front; entries added there (TMPDIR) must stay last
	}
}

// callBound: how long a driver waits for any single call into the plugin (the longest legitimate wait inside go-plugin
// is a 5 s broker timer, twice in a row in a few histories)
const callBound = 25 * time.Second

func bounded(c vp.Caller) vp.Caller { return vp.Bounded(c, callBound) }

// boundedKill: Kill as cleanup (what Kill itself does is the kill family's subject); returns false when it did not return.
func boundedKill(cl *plugin.Client) bool {
	done := make(chan struct{})
	go func() { cl.Kill(); close(done) }()
	select {
	case <-done:
		return true
	case <-time.After(15 * time.Second):
		return false
	}
}

// startVP launches vplugin and dispenses its "vp" plugin.
func startVP(o vpOpts) (*plugin.Client, vp.Caller, error) {
	cl := plugin.NewClient(vpClientConfig(o))
	type res struct {
		c vp.Caller
		e error
	}
	ch := make(chan res, 1)
	go func() {
		rpcc, err := cl.Client()
		if err != nil {
			ch <- res{nil, fmt.Errorf("client: %w", err)}
			return
		}
		raw, err := rpcc.Dispense("vp")
		if err != nil {
			ch <- res{nil, fmt.Errorf("dispense: %w", err)}
			return
		}
		ch <- res{bounded(raw.(vp.Caller)), nil}
	}()
	to := o.StartTO
	if to == 0 {
		to = 10 * time.Second
	}
	select {
	case x := <-ch:
		if x.e != nil {
			go cl.Kill()
			return nil, nil, x.e
		}
		return cl, x.c, nil
	case <-time.After(to + 15*time.Second):
		go cl.Kill()
		return nil, nil, fmt.Errorf("client: start did not return in time")
	}
}

// every vplugin command this process prepared; reapLaunched kills what is still running of them when the family is done
// (a clean-up whose Kill was cut short by the end of the run must not leave a plugin behind)
var (
	launchedMu sync.Mutex
	launched   []*exec.Cmd
)

func reapLaunched() {
	launchedMu.Lock()
	defer launchedMu.Unlock()
	for _, c := range launched {
		if c.Process != nil {
			c.Process.Kill()
		}
	}
}
