package main

// Launching the scripted plugin binary (vplugin) from the host drivers.

import (
	"encoding/json"
	"fmt"
	"io"
	"os"
	"os/exec"
	"path/filepath"
	"time"

	hclog "github.com/hashicorp/go-hclog"
	plugin "github.com/hashicorp/go-plugin"
	"verif/harness/hk"
	"verif/harness/vp"
)

const vpCookieKey, vpCookieVal = "VP_COOKIE", "yes-this-is-a-plugin-host"

type vpOpts struct {
	Proto      string // netrpc | grpc : kind of the (single, legacy, version 1) plugin set on both sides
	Mux        bool   // host requests gRPC broker multiplexing
	AutoMTLS   bool
	Plugin     map[string]interface{} // extra VP_CONFIG fields (behaviours)
	SyncStdout io.Writer
	SyncStderr io.Writer
	Stderr     io.Writer
	Logger     hclog.Logger
	Env        []string
	StartTO    time.Duration
	Managed    bool
	TmpDir     string // TMPDIR of the plugin process (its sockets)
}

func vpluginPath() string {
	if p := os.Getenv("VERIF_VPLUGIN"); p != "" {
		return p
	}
	b := os.Getenv("VERIF_BUILD")
	if b == "" {
		b = "/verif/build"
	}
	return filepath.Join(b, "vplugin")
}

func vpCmd(o vpOpts) *exec.Cmd {
	pc := map[string]interface{}{
		"cookie_key": vpCookieKey, "cookie_value": vpCookieVal, "version": 1,
		"legacy":      map[string]string{"tag": "set-1", "kind": o.Proto},
		"grpc_server": o.Proto == "grpc",
	}
	for k, v := range o.Plugin {
		pc[k] = v
	}
	b, _ := json.Marshal(pc)
	cmd := exec.Command(vpluginPath())
	cmd.Env = append(os.Environ(), "VP_CONFIG="+string(b))
	if o.TmpDir != "" {
		cmd.Env = append(cmd.Env, "TMPDIR="+o.TmpDir)
	}
	cmd.Env = append(cmd.Env, o.Env...)
	return cmd
}

func vpClientConfig(o vpOpts) *plugin.ClientConfig {
	lg := o.Logger
	if lg == nil {
		lg = hk.QuietLogger()
	}
	to := o.StartTO
	if to == 0 {
		to = 10 * time.Second
	}
	return &plugin.ClientConfig{
		HandshakeConfig:     plugin.HandshakeConfig{ProtocolVersion: 1, MagicCookieKey: vpCookieKey, MagicCookieValue: vpCookieVal},
		Plugins:             vp.MakeSet(vp.SetSpec{Tag: "set-1", Kind: o.Proto}, nil),
		Cmd:                 vpCmd(o),
		AllowedProtocols:    []plugin.Protocol{plugin.ProtocolNetRPC, plugin.ProtocolGRPC},
		GRPCBrokerMultiplex: o.Mux,
		AutoMTLS:            o.AutoMTLS,
		SyncStdout:          o.SyncStdout,
		SyncStderr:          o.SyncStderr,
		Stderr:              o.Stderr,
		Logger:              lg,
		StartTimeout:        to,
		Managed:             o.Managed,
		SkipHostEnv:         true, // vpCmd already put the host environment in front; entries added there (TMPDIR) must stay last
	}
}

// startVP launches vplugin and dispenses its "vp" plugin.
func startVP(o vpOpts) (*plugin.Client, vp.Caller, error) {
	cl := plugin.NewClient(vpClientConfig(o))
	rpcc, err := cl.Client()
	if err != nil {
		cl.Kill()
		return nil, nil, fmt.Errorf("client: %w", err)
	}
	raw, err := rpcc.Dispense("vp")
	if err != nil {
		cl.Kill()
		return nil, nil, fmt.Errorf("dispense: %w", err)
	}
	return cl, raw.(vp.Caller), nil
}
