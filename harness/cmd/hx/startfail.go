package main

// C05, second sentence, for the failure that comes BEFORE the handshake is read: the runner's own Start reports an
// error -- with a custom runner possibly after it launched its workload (it waited for readiness until the start
// context expired).  Start has no deferred kill yet on that path; what the client promises is that a later Kill
// reaches the runner (it was recorded before runner.Start), ends the workload and removes the plugin-dir* directory.
//
// Cases: launch method x what runner.Start did x number of Kill calls x AutoMTLS.  Observation: Start returned an
// error in time; every Kill returned promptly; after the Kills the workload is gone; the socket directory is gone.

import (
	"context"
	"fmt"
	"os"
	"os/exec"
	"path/filepath"
	"sync"
	"time"

	hclog "github.com/hashicorp/go-hclog"
	plugin "github.com/hashicorp/go-plugin"
	"github.com/hashicorp/go-plugin/runner"
	"verif/harness/hk"
	"verif/harness/sx"
)

type sfCase struct {
	Launch string `json:"launch"` // scripted | process | cmd
	Mode   string `json:"mode"`   // now | ctx | notlaunched
	Kills  int    `json:"kills"`
	Auto   bool   `json:"auto_mtls"`
	Kind   string `json:"kind"`
}

func init() { families["startfail"] = runStartFail }

// readyRunner launches a real process and then waits for a readiness signal that never comes.
type readyRunner struct {
	*procRunner
	mode string
}

func (r *readyRunner) Start(ctx context.Context) error {
	if err := r.procRunner.cmd.Start(); err != nil {
		return err
	}
	go r.procRunner.cmd.Wait()
	if r.mode == "ctx" {
		<-ctx.Done()
		return ctx.Err()
	}
	return fmt.Errorf("launched pid %d, but it never became ready", r.procRunner.cmd.Process.Pid)
}
func (r *readyRunner) Wait(context.Context) error { select {} }

func genStartFail(o opts) []sfCase {
	var cs []sfCase
	for _, l := range []string{"scripted", "process"} {
		for _, m := range []string{"now", "ctx"} {
			for _, k := range []int{1, 2} {
				for _, a := range []bool{false, true} {
					cs = append(cs, sfCase{Launch: l, Mode: m, Kills: k, Auto: a, Kind: "launched-then-start-error"})
				}
			}
		}
	}
	cs = append(cs,
		sfCase{Launch: "scripted", Mode: "notlaunched", Kills: 1, Kind: "start-error-before-launch"},
		sfCase{Launch: "scripted", Mode: "notlaunched", Kills: 2, Auto: true, Kind: "start-error-before-launch"},
		sfCase{Launch: "cmd", Mode: "notlaunched", Kills: 1, Kind: "exec-error"},
		sfCase{Launch: "cmd", Mode: "notlaunched", Kills: 2, Auto: true, Kind: "exec-error"},
	)
	return cs
}

func runOneStartFail(c sfCase, tmpBase string) (sx.V, sx.V) {
	launch := map[string]int{"cmd": 0, "scripted": 1, "process": 1}[c.Launch]
	launched := c.Mode != "notlaunched"
	// does the runner name its workload (ID() != "") after the failed Start?  The scripted runner always does, a
	// process runner does once it launched, cmdrunner after an exec error does not
	named := c.Launch == "scripted" || launched
	in := sx.L{sx.I(launch), sx.Bool(launched), sx.Bool(named), sx.I(c.Kills)}
	cfg := &plugin.ClientConfig{
		HandshakeConfig:  plugin.HandshakeConfig{ProtocolVersion: 1, MagicCookieKey: vpCookieKey, MagicCookieValue: vpCookieVal},
		Plugins:          plugin.PluginSet{},
		StartTimeout:     400 * time.Millisecond,
		Logger:           hk.QuietLogger(),
		SkipHostEnv:      true,
		AutoMTLS:         c.Auto,
		UnixSocketConfig: &plugin.UnixSocketConfig{TempDir: tmpBase},
	}
	var sr *hk.Scripted
	var rr *readyRunner
	sockDir := ""
	switch c.Launch {
	case "scripted":
		sr = hk.NewScripted()
		if launched {
			sr.FailAfterLaunch = c.Mode
			sr.OnStart = func(s *hk.Scripted) { leaveSocket(s.TmpDir) }
		} else {
			sr.StartErr = fmt.Errorf("scripted runner: nothing was launched")
		}
		cfg.RunnerFunc = sr.RunnerFunc(nil)
	case "process":
		cfg.RunnerFunc = func(l hclog.Logger, spec *exec.Cmd, tmp string) (runner.Runner, error) {
			sockDir = tmp
			leaveSocket(tmp)
			p, err := newProcRunner(exec.Command("/bin/sh", "-c", "exec sleep 60"))
			if err != nil {
				return nil, err
			}
			rr = &readyRunner{procRunner: p, mode: c.Mode}
			return rr, nil
		}
	default:
		cfg.UnixSocketConfig = nil
		cfg.Cmd = exec.Command(filepath.Join(tmpBase, "no-such-plugin-binary"))
	}
	cl := plugin.NewClient(cfg)
	var serr error
	startOK := within(cfg.StartTimeout+6*time.Second, func() { _, serr = cl.Start() })
	failed := startOK && serr != nil
	if sr != nil {
		sockDir = sr.TmpDir
	}
	killsOK := true
	for k := 0; k < c.Kills; k++ {
		if !within(4*time.Second, func() { cl.Kill() }) {
			killsOK = false
			break
		}
	}
	gone := true
	switch {
	case sr != nil && launched:
		gone = sr.Exited()
	case rr != nil && rr.procRunner.cmd.Process != nil:
		pid := rr.procRunner.cmd.Process.Pid
		gone = false
		for k := 0; k < 100; k++ {
			if !procAlive(pid) {
				gone = true
				break
			}
			time.Sleep(10 * time.Millisecond)
		}
	}
	dirGone := true
	if sockDir != "" {
		if _, e := os.Stat(sockDir); e == nil {
			dirGone = false
		}
	}
	// leave nothing behind whatever the client did
	if sr != nil {
		sr.Exit()
	}
	if rr != nil && rr.procRunner.cmd.Process != nil {
		rr.procRunner.cmd.Process.Kill()
	}
	if sockDir != "" {
		os.RemoveAll(sockDir)
	}
	return in, sx.L{sx.Bool(failed), sx.Bool(killsOK), sx.Bool(gone), sx.Bool(dirGone)}
}

func runStartFail(o opts) error {
	var cs []sfCase
	if o.cases != "" {
		if err := hk.LoadCases(o.cases, &cs); err != nil {
			return err
		}
	} else {
		cs = genStartFail(o)
	}
	sink, err := hk.NewSink(o.out, "startfail")
	if err != nil {
		return err
	}
	defer sink.Close()
	tmpBase, err := os.MkdirTemp("", "hx-sf")
	if err != nil {
		return err
	}
	defer os.RemoveAll(tmpBase)
	var wg sync.WaitGroup
	for i, c := range cs {
		wg.Add(1)
		go func(i int, c sfCase) {
			defer wg.Done()
			in, obs := runOneStartFail(c, tmpBase)
			sink.Put(105, fmt.Sprintf("sf%d", i), in, obs, c)
		}(i, c)
	}
	wg.Wait()
	return nil
}
