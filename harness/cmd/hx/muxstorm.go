package main

// C06 in volume: waves of Accept(id) / Dial(id) pairs issued at the same instant on one net/rpc broker pair, ids fresh,
// directions alternating, with Dispense traffic on the same connection.  Untimed: the model's statement for this
// family is "accept and dial of one id issued together both succeed and are connected to each other", so the
// observation is three counters.  (The timed histories cannot carry this volume: the model's driver is polynomial in
// the number of threads, and the point here is a window of about a microsecond.)

import (
	"encoding/binary"
	"fmt"
	"io"
	"net"
	"sync"
	"time"

	"verif/harness/hk"
	"verif/harness/sx"
)

type msCase struct {
	Waves   int    `json:"waves"`
	PerWave int    `json:"per_wave"` // stays below yamux's accept backlog (256)
	Seed    int64  `json:"seed"`
	Kind    string `json:"kind"`
}

func init() { families["muxstorm"] = runMuxStorm }

func runOneMuxStorm(c msCase) (sx.V, sx.V) {
	n := c.Waves * c.PerWave
	in := sx.L{sx.I(n)}
	pair, err := newMuxPair()
	if err != nil {
		return in, sx.L{sx.I(0), sx.I(0), sx.I(n)}
	}
	defer pair.Close()
	stop := make(chan struct{})
	var bg sync.WaitGroup
	for w := 0; w < 2; w++ { // Dispense traffic: each dispense is itself an accept/dial pair on a broker-allocated id
		bg.Add(1)
		go func() {
			defer bg.Done()
			for {
				select {
				case <-stop:
					return
				default:
				}
				pair.client.Dispense("cap")
			}
		}()
	}
	var mu sync.Mutex
	ok, mis, failed := 0, 0, 0
	r := hk.Rng(c.Seed)
	next := uint32(1 << 20) // far from the ids NextId hands to the dispenses
	for w := 0; w < c.Waves; w++ {
		var wg sync.WaitGroup
		for i := 0; i < c.PerWave; i++ {
			id := next
			next++
			acc, dial := pair.plug, pair.host
			if id%2 == 1 {
				acc, dial = pair.host, pair.plug
			}
			offUs := r.Intn(120)
			wg.Add(2)
			res := make(chan int, 2) // 0 ok, 1 misrouted, 2 failed
			exchange := func(conn net.Conn, err error) {
				defer wg.Done()
				if err != nil {
					res <- 2
					return
				}
				defer conn.Close()
				conn.SetDeadline(time.Now().Add(8 * time.Second))
				var b [4]byte
				binary.LittleEndian.PutUint32(b[:], id)
				if _, err := conn.Write(b[:]); err != nil {
					res <- 2
					return
				}
				var got [4]byte
				if _, err := io.ReadFull(conn, got[:]); err != nil {
					res <- 2
					return
				}
				if binary.LittleEndian.Uint32(got[:]) != id {
					res <- 1
					return
				}
				res <- 0
			}
			go func() {
				t := time.Now().Add(time.Duration(offUs) * time.Microsecond)
				for time.Now().Before(t) {
				}
				conn, err := acc.Accept(id)
				exchange(conn, err)
			}()
			go func() { conn, err := dial.Dial(id); exchange(conn, err) }()
			go func() {
				a, b := <-res, <-res
				mu.Lock()
				switch {
				case a == 1 || b == 1:
					mis++
				case a == 2 || b == 2:
					failed++
				default:
					ok++
				}
				mu.Unlock()
			}()
		}
		if !within(25*time.Second, wg.Wait) {
			// exchanges that never come back (a dial or an accept blocked for good): counted as failed, the session is given up
			mu.Lock()
			failed += c.PerWave
			mu.Unlock()
			break
		}
	}
	close(stop)
	within(10*time.Second, bg.Wait)
	time.Sleep(20 * time.Millisecond)
	mu.Lock()
	defer mu.Unlock()
	return in, sx.L{sx.I(ok), sx.I(mis), sx.I(failed)}
}

func runMuxStorm(o opts) error {
	var cs []msCase
	if o.cases != "" {
		if err := hk.LoadCases(o.cases, &cs); err != nil {
			return err
		}
	} else {
		n := 3
		if o.tier == "thorough" {
			n = 16
		}
		for k := 0; k < n; k++ {
			cs = append(cs, msCase{Waves: 30, PerWave: 64, Seed: o.seed*100 + int64(k), Kind: "storm"})
		}
	}
	sink, err := hk.NewSink(o.out, "muxstorm")
	if err != nil {
		return err
	}
	defer sink.Close()
	for i, c := range cs { // one at a time: the point is contention inside one broker pair, not between cases
		in, obs := runOneMuxStorm(c)
		sink.Put(106, fmt.Sprintf("s%d", i), in, obs, c)
	}
	return nil
}
