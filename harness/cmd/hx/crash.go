package main

// C03: the plugin dies at a named point; every host call in flight or issued afterwards must return in
// bounded time (with an error when it needed the plugin), the host must not panic, the client must report
// the plugin as exited and the context handed to gRPC plugin clients must be cancelled.  Every case runs in a
// child process (a host panic is then an observation, not the end of the run).

import (
	"fmt"
	"os"
	"strconv"
	"strings"
	"sync"
	"sync/atomic"
	"syscall"
	"time"

	plugin "github.com/hashicorp/go-plugin"
	"verif/harness/hk"
	"verif/harness/sx"
	"verif/harness/vp"
)

// crash points
const (
	cpBeforeOutput = iota // 0 dies before printing anything
	cpMidLine             // 1 prints part of the handshake line, no newline, dies
	cpAfterLine           // 2 prints the handshake line, dies before accepting a connection
	cpIdle                // 3 dies (SIGKILL) while connected and idle
	cpInUnary             // 4 dies inside a unary call
	cpInStream            // 5 dies inside a server stream (gRPC)
	cpBrokerDial          // 6 issued an id to listen on, dies before listening; the host dials it
	cpBrokerAccept        // 7 promised to dial an id, dies instead; the host accepts on it
	cpStdio               // 8 dies while streaming stdout/stderr
	cpBrokerStorm         // 9 dies (SIGKILL) while many broker negotiations of the host are in flight on the control stream (gRPC)
)

// host operations (one script per crash point; these are the codes in the observation)
const (
	opStart = iota
	opClient
	opDispense
	opPing
	opCall
	opStream
	opBrokerDial
	opBrokerAccept
	opKill
)

type crCase struct {
	Proto string `json:"proto"` // netrpc | grpc
	Mux   bool   `json:"mux"`
	Point int    `json:"point"`
	Delay int    `json:"delay_ms"` // for the broker points: how long after issuing the id the plugin dies
	Shape int    `json:"shape"`    // for the mid-line point: what reached stdout before the death
	Kind  string `json:"kind"`
}

func init() {
	families["crash"] = runCrash
	// a child that died is a host crash: an observation of this family, with the panicked flag set
	childFailObs["crash"] = func(c interface{}) (string, string) {
		cc := c.(crCase)
		in := sx.L{sx.I(map[string]int{"netrpc": 0, "grpc": 1}[cc.Proto]), sx.Bool(cc.Mux), sx.I(cc.Point)}
		return sx.String(in), sx.String(sx.L{sx.L{}, sx.Bool(false), sx.I(0), sx.I(1)})
	}
}

func genCrash(o opts) []crCase {
	var cs []crCase
	reps := 1
	if o.tier == "thorough" {
		reps = 6
	}
	for rep := 0; rep < reps; rep++ {
		for _, pm := range []struct {
			p string
			m bool
		}{{"netrpc", false}, {"grpc", false}, {"grpc", true}} {
			for pt := cpBeforeOutput; pt <= cpBrokerStorm; pt++ {
				if (pt == cpInStream || pt == cpBrokerStorm) && pm.p != "grpc" {
					continue
				}
				if pt == cpBrokerStorm && pm.m {
					continue // with multiplexing Accept sends nothing and a knock waits for a listener on the other side
				}
				delays := []int{0}
				if pt == cpBrokerDial || pt == cpBrokerAccept {
					delays = []int{20, 700}
					if rep > 0 {
						delays = []int{5 + 37*rep, 300 * rep}
					}
				}
				for _, d := range delays {
					cs = append(cs, crCase{Proto: pm.p, Mux: pm.m, Point: pt, Delay: d, Kind: "product"})
				}
				if pt == cpMidLine {
					for sh := 1; sh <= 3; sh++ {
						cs = append(cs, crCase{Proto: pm.p, Mux: pm.m, Point: pt, Shape: sh, Kind: "product"})
					}
				}
			}
		}
	}
	return cs
}

type opObs struct {
	op    int
	class int // 0 ok, 1 error, 2 did not return within the bound
	ms    int64
	phase int // 0 issued while the plugin was alive, 1 in flight when it died, 2 issued after its death
}

const crashHangBound = 20 * time.Second

// timed runs f and classifies it; a call that does not return within the bound is reported as class 2 and left behind.
func timed(op int, f func() error) opObs {
	done := make(chan error, 1)
	t0 := time.Now()
	go func() { done <- f() }()
	select {
	case err := <-done:
		c := 0
		if err != nil {
			c = 1
		}
		return opObs{op, c, time.Since(t0).Milliseconds(), 0}
	case <-time.After(crashHangBound):
		return opObs{op, 2, crashHangBound.Milliseconds(), 0}
	}
}

func runOneCrash(c crCase) (sx.V, sx.V) {
	pc := map[string]interface{}{}
	switch c.Point {
	case cpBeforeOutput:
		pc["crash_point"] = "before-output"
	case cpMidLine:
		pc["partial_line"] = "1|1|un"
		switch c.Shape {
		case 1: // start-up noise, then a handshake line cut off
			pc["pre_output"] = "plugin warming up\n"
			pc["partial_line"] = "1|1|tcp|127.0"
		case 2: // a complete line with an incompatible version, more output, then a cut-off line
			pc["pre_output"] = "1|999|unix|/nowhere|netrpc\nsome more output\n"
			pc["partial_line"] = "and a tail"
		case 3: // a complete but unusable line followed by a burst
			pc["pre_output"] = "not a handshake\n" + strings.Repeat("line of output\n", 200)
			pc["partial_line"] = "x"
		}
	case cpAfterLine:
		pc["crash_point"] = "serve.handshake-printed"
	case cpInStream:
		pc["crash_point"] = "in-stream"
	}
	o := vpOpts{Proto: c.Proto, Mux: c.Mux, Plugin: pc, StartTO: 6 * time.Second}
	cl := plugin.NewClient(vpClientConfig(o))
	var obs []opObs
	var mu sync.Mutex
	phase := 0
	add := func(x opObs) { mu.Lock(); x.phase = phase; obs = append(obs, x); mu.Unlock() }
	var rpcc plugin.ClientProtocol
	var caller vp.Caller
	tDeath := time.Now()
	died := func() { tDeath = time.Now() }

	if c.Point <= cpAfterLine {
		phase = 1
	}
	add(timed(opStart, func() error { _, err := cl.Start(); return err }))
	// the accessors take the client's lock: bounded like everything else (a Start that never returns holds it)
	pid := 0
	within(5*time.Second, func() {
		if rc := cl.ReattachConfig(); rc != nil {
			pid = rc.Pid
		} else if id, err := strconv.Atoi(cl.ID()); err == nil {
			pid = id
		}
	})
	if c.Point <= cpAfterLine {
		died()
		phase = 2
	}
	add(timed(opClient, func() error { var err error; rpcc, err = cl.Client(); return err }))
	if rpcc != nil {
		add(timed(opDispense, func() error {
			raw, err := rpcc.Dispense("vp")
			if err == nil {
				caller = bounded(raw.(vp.Caller))
			}
			return err
		}))
	}
	// the in-flight operation of the point
	if caller != nil && c.Point >= cpIdle {
		switch c.Point {
		case cpIdle:
			if pid > 0 {
				syscall.Kill(pid, syscall.SIGKILL)
			}
			died()
			time.Sleep(50 * time.Millisecond)
		case cpInUnary:
			died()
			phase = 1
			add(timed(opCall, func() error { _, err := caller.Call(vp.Req{Op: "crash-in-call"}); return err }))
		case cpInStream:
			// the plugin dies while producing the second chunk
			died()
			phase = 1
			add(timed(opStream, func() error {
				n, err := caller.Stream(50)
				if err == nil && n == 50 {
					return nil
				}
				if err == nil {
					return fmt.Errorf("stream ended early without an error (%d chunks)", n)
				}
				return err
			}))
		case cpBrokerDial:
			out, err := caller.Call(vp.Req{Op: "accept", K: "crash", N: c.Delay, ID: 4242})
			died()
			phase = 1
			if err == nil {
				add(timed(opBrokerDial, func() error {
					if gb := caller.GRPC(); gb != nil {
						return grpcDialAndCall(gb, out.ID)
					}
					conn, err := caller.Mux().Dial(out.ID)
					if err == nil {
						// a yamux stream opens locally; the peer never answers: what the caller does next must fail
						conn.SetDeadline(time.Now().Add(8 * time.Second))
						_, err = conn.Read(make([]byte, 1))
						conn.Close()
					}
					return err
				}))
			}
		case cpBrokerAccept:
			_, err := caller.Call(vp.Req{Op: "dial", K: "crash", N: c.Delay, ID: 4343})
			died()
			phase = 1
			if err == nil {
				add(timed(opBrokerAccept, func() error {
					if gb := caller.GRPC(); gb != nil {
						ln, err := gb.Accept(4343)
						if err == nil {
							ln.Close()
						}
						return err
					}
					conn, err := caller.Mux().Accept(4343)
					if err == nil {
						conn.Close()
					}
					return err
				}))
			}
		case cpBrokerStorm:
			// earlier rounds on plugins of their own (the window is the duration of one control-stream write), then this one
			worst := opObs{op: opBrokerAccept, class: 1}
			// schedule perturbation: every write of the control stream takes a few milliseconds in the first rounds, so that
			// the plugin's death finds writes on their way out
			var slowWrites int32 = 1
			plugin.VerifSetHook(func(name string, id uint32) {
				if name == "grpc.stream.write" && atomic.LoadInt32(&slowWrites) == 1 {
					time.Sleep(4 * time.Millisecond)
				}
			})
			for round := 0; round < 3 && worst.class == 1; round++ {
				cl2, caller2, err := startVP(vpOpts{Proto: c.Proto, Mux: c.Mux, StartTO: 6 * time.Second})
				if err != nil {
					continue
				}
				pid2, _ := strconv.Atoi(cl2.ID())
				worst.class = brokerStorm(caller2.GRPC(), pid2, 20+15*round, false)
				go cl2.Kill()
			}
			atomic.StoreInt32(&slowWrites, 0)
			died()
			phase = 1
			// this client's plugin first stops reading (SIGSTOP): the control stream's flow-control window fills up and the
			// writes of the negotiations stay on their way out; then it dies
			if x := brokerStorm(caller.GRPC(), pid, 0, true); worst.class == 1 {
				worst.class = x
			}
			add(worst)
		case cpStdio:
			go caller.Call(vp.Req{Op: "write", Data: make([]byte, 1<<20)})
			go caller.Call(vp.Req{Op: "write", K: "stderr", Data: make([]byte, 1<<20)})
			time.Sleep(time.Duration(3) * time.Millisecond)
			if pid > 0 {
				syscall.Kill(pid, syscall.SIGKILL)
			}
			died()
			time.Sleep(50 * time.Millisecond)
		}
	}
	if c.Point == cpBrokerDial || c.Point == cpBrokerAccept {
		// the in-flight call may have returned before the plugin's death: what follows is "afterwards" only from then on
		time.Sleep(time.Until(tDeath.Add(time.Duration(c.Delay+150) * time.Millisecond)))
	}
	// afterwards: every kind of call once more
	phase = 2
	add(timed(opStart, func() error { _, err := cl.Start(); return err }))
	add(timed(opClient, func() error { _, err := cl.Client(); return err }))
	if rpcc != nil {
		add(timed(opPing, func() error { return rpcc.Ping() }))
		add(timed(opDispense, func() error { _, err := rpcc.Dispense("vp"); return err }))
	}
	if caller != nil {
		add(timed(opCall, func() error { _, err := caller.Call(vp.Req{Op: "tag"}); return err }))
		if caller.GRPC() != nil {
			add(timed(opStream, func() error {
				n, err := caller.Stream(3)
				if err == nil && n != 3 {
					return fmt.Errorf("short stream")
				}
				return err
			}))
			if !(c.Point == cpBrokerDial || c.Point == cpBrokerAccept) {
				add(timed(opBrokerDial, func() error { return grpcDialAndCall(caller.GRPC(), 777) }))
				add(timed(opBrokerAccept, func() error {
					ln, err := caller.GRPC().Accept(779)
					if err == nil {
						ln.Close()
					}
					return err
				}))
			}
		} else if !(c.Point == cpBrokerDial || c.Point == cpBrokerAccept) {
			add(timed(opBrokerAccept, func() error {
				conn, err := caller.Mux().Accept(778)
				if err == nil {
					conn.Close()
				}
				return err
			}))
		}
	}
	// exited / context
	exited, ctxDone := false, 0
	for {
		ex := false
		answered := within(3*time.Second, func() { ex = cl.Exited() })
		if !answered {
			break // Exited() itself does not return
		}
		if ex {
			exited = true
			break
		}
		if time.Since(tDeath) > 8*time.Second {
			break
		}
		time.Sleep(20 * time.Millisecond)
	}
	if caller != nil && caller.Ctx() != nil {
		ctxDone = 1 // not cancelled
		select {
		case <-caller.Ctx().Done():
			ctxDone = 2
		case <-time.After(time.Until(tDeath.Add(8*time.Second)) + 50*time.Millisecond):
		}
	}
	add(timed(opKill, func() error { cl.Kill(); return nil }))

	in := sx.L{sx.I(map[string]int{"netrpc": 0, "grpc": 1}[c.Proto]), sx.Bool(c.Mux), sx.I(c.Point)}
	ops := sx.L{}
	for _, x := range obs {
		slow := 0
		if x.ms > 9000 {
			slow = 1
		}
		ops = append(ops, sx.L{sx.I(x.op), sx.I(x.class), sx.I(slow), sx.I(x.phase)})
	}
	return in, sx.L{ops, sx.Bool(exited), sx.I(ctxDone), sx.I(0)}
}

// brokerStorm: eight goroutines keep negotiating brokered connections from the host's side (Accept sends the connection
// information on the control stream) and the plugin is killed: after delayMs, or -- stall -- after it was stopped and the
// negotiations have come to a halt behind a full flow-control window.  Every goroutine must come back with an error.
// 1 = all returned an error in time, 2 = some did not return, 0 = they went on succeeding.
func brokerStorm(gb *plugin.GRPCBroker, pid int, delayMs int, stall bool) int {
	if gb == nil || pid <= 0 {
		return 1
	}
	var wg sync.WaitGroup
	var still, progress int64
	if stall {
		syscall.Kill(pid, syscall.SIGSTOP)
	}
	for g := 0; g < 8; g++ {
		wg.Add(1)
		go func() {
			defer wg.Done()
			deadline := time.Now().Add(25 * time.Second)
			for time.Now().Before(deadline) {
				ln, err := gb.Accept(gb.NextId())
				if ln != nil {
					ln.Close()
				}
				if err != nil {
					return
				}
				atomic.AddInt64(&progress, 1)
			}
			atomic.AddInt64(&still, 1)
		}()
	}
	if stall {
		last, since := int64(-1), time.Now()
		for t0 := time.Now(); time.Since(t0) < 10*time.Second; time.Sleep(20 * time.Millisecond) {
			if p := atomic.LoadInt64(&progress); p != last {
				last, since = p, time.Now()
			} else if time.Since(since) > 400*time.Millisecond {
				break
			}
		}
	} else {
		time.Sleep(time.Duration(delayMs) * time.Millisecond)
	}
	if os.Getenv("VERIF_DEBUG") != "" {
		fmt.Fprintf(os.Stderr, "brokerStorm: stall=%v negotiations before the kill: %d\n", stall, atomic.LoadInt64(&progress))
	}
	syscall.Kill(pid, syscall.SIGKILL)
	if !within(crashHangBound, wg.Wait) {
		return 2
	}
	if atomic.LoadInt64(&still) > 0 {
		return 0
	}
	return 1
}

// grpcDialAndCall: with multiplexing Dial only builds a lazy connection, so the dial is judged together with the first call on it
func grpcDialAndCall(gb *plugin.GRPCBroker, id uint32) error {
	cc, err := gb.Dial(id)
	if err != nil {
		return err
	}
	defer cc.Close()
	_, err = vp.NewGRPCCaller(cc, gb).Call(vp.Req{Op: "who"})
	return err
}

// within runs f and reports whether it returned within d (f is left behind when it does not).
func within(d time.Duration, f func()) bool {
	done := make(chan struct{})
	go func() { f(); close(done) }()
	select {
	case <-done:
		return true
	case <-time.After(d):
		return false
	}
}

func runCrash(o opts) error {
	var cs []crCase
	if o.cases != "" {
		if err := hk.LoadCases(o.cases, &cs); err != nil {
			return err
		}
	} else {
		cs = genCrash(o)
	}
	sink, err := hk.NewSink(o.out, "crash")
	if err != nil {
		return err
	}
	defer sink.Close()
	if o.child {
		defer func() {
			// a panic on another goroutine kills the child: fanOut reports that as child-failed with the output
			if r := recover(); r != nil {
				fmt.Fprintln(os.Stderr, "HOST PANIC:", r)
				os.Exit(7)
			}
		}()
		in, obs := runOneCrash(cs[0])
		sink.Put(3, "k0", in, obs, cs[0])
		return nil
	}
	return fanOut(o, "crash", 3, "k", len(cs), func(i int) interface{} { return cs[i] }, sink, 10)
}
