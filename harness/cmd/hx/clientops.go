package main

// C19: one Client under sequences and concurrent mixes of Start, Client, Protocol, ReattachConfig, ID,
// Exited, Kill, against real vplugin processes launched by Cmd or through a counting RunnerFunc.

import (
	"context"
	"fmt"
	"io"
	"os"
	"os/exec"
	"sync"
	"sync/atomic"
	"time"

	hclog "github.com/hashicorp/go-hclog"
	plugin "github.com/hashicorp/go-plugin"
	"github.com/hashicorp/go-plugin/runner"
	"verif/harness/hk"
	"verif/harness/sx"
)

// procRunner is a minimal runner.Runner around exec.Cmd (what a host's custom runner would be).
type procRunner struct {
	cmd            *exec.Cmd
	stdout, stderr io.ReadCloser
}

func newProcRunner(cmd *exec.Cmd) (*procRunner, error) {
	so, err := cmd.StdoutPipe()
	if err != nil {
		return nil, err
	}
	se, err := cmd.StderrPipe()
	if err != nil {
		return nil, err
	}
	launchedMu.Lock()
	launched = append(launched, cmd) // reaped at the end of the run if it is still there
	launchedMu.Unlock()
	return &procRunner{cmd: cmd, stdout: so, stderr: se}, nil
}
func (p *procRunner) Start(context.Context) error { return p.cmd.Start() }
func (p *procRunner) Wait(context.Context) error  { return p.cmd.Wait() }
func (p *procRunner) Kill(ctx context.Context) error {
	// like a runner that reaches its process through an API: a request made with a finished context is not carried out
	if err := ctx.Err(); err != nil {
		return err
	}
	if p.cmd.Process != nil {
		p.cmd.Process.Kill()
	}
	return nil
}
func (p *procRunner) Stdout() io.ReadCloser           { return p.stdout }
func (p *procRunner) Stderr() io.ReadCloser           { return p.stderr }
func (p *procRunner) Name() string                    { return p.cmd.Path }
func (p *procRunner) Diagnose(context.Context) string { return "" }
func (p *procRunner) ID() string {
	if p.cmd.Process == nil {
		return ""
	}
	return fmt.Sprint(p.cmd.Process.Pid)
}
func (p *procRunner) PluginToHost(n, a string) (string, string, error) { return n, a, nil }
func (p *procRunner) HostToPlugin(n, a string) (string, string, error) { return n, a, nil }

type coCase struct {
	Launch     string `json:"launch"` // cmd | runnerfunc
	Proto      string `json:"proto"`
	FirstFails bool   `json:"first_start_fails"` // the plugin refuses to serve (wrong cookie): every launch fails after launch
	Ops        []int  `json:"ops"`               // 0 Start 1 Client 2 Protocol 3 ReattachConfig 4 ID 5 Exited 6 Kill
	Concurrent bool   `json:"concurrent"`        // all ops are issued at once from separate goroutines
	Kind       string `json:"kind"`
}

func init() { families["clientops"] = runClientOps }

func genClientOps(o opts) []coCase {
	r := hk.Rng(o.seed + 97)
	n := 60
	if o.tier == "thorough" {
		n = 1500
	}
	cs := []coCase{
		{Launch: "runnerfunc", Proto: "netrpc", Ops: []int{0, 1, 6, 0, 2, 3, 1, 6}, Kind: "directed-restart-after-kill"},
		{Launch: "cmd", Proto: "grpc", Ops: []int{0, 1, 6, 0, 2, 3, 1, 6}, Kind: "directed-restart-after-kill"},
		{Launch: "cmd", Proto: "netrpc", FirstFails: true, Ops: []int{0, 0, 2, 1, 6, 0}, Kind: "directed-retry-cmd"},
		{Launch: "runnerfunc", Proto: "netrpc", FirstFails: true, Ops: []int{0, 0, 2}, Kind: "directed-retry-runnerfunc"},
		// Kill after a failed first start must not launch anything (and neither must the accessors)
		{Launch: "runnerfunc", Proto: "netrpc", FirstFails: true, Ops: []int{0, 6, 6, 3, 4, 5}, Kind: "directed-kill-after-failed-start"},
		{Launch: "runnerfunc", Proto: "grpc", FirstFails: true, Ops: []int{0, 5, 6}, Kind: "directed-kill-after-failed-start"},
		{Launch: "cmd", Proto: "grpc", FirstFails: true, Ops: []int{0, 6, 6}, Kind: "directed-kill-after-failed-start"},
		{Launch: "runnerfunc", Proto: "grpc", Ops: []int{1, 1, 1, 1, 1, 1, 1, 1}, Concurrent: true, Kind: "concurrent-client"},
		{Launch: "cmd", Proto: "netrpc", Ops: []int{1, 1, 1, 1, 1, 1, 1, 1}, Concurrent: true, Kind: "concurrent-client"},
		{Launch: "runnerfunc", Proto: "netrpc", Ops: []int{0, 0, 0, 0, 1, 1, 2, 2}, Concurrent: true, Kind: "concurrent-mix"},
		{Launch: "cmd", Proto: "grpc", Ops: []int{0, 1, 0, 1, 0, 1, 2, 0}, Concurrent: true, Kind: "concurrent-mix"},
	}
	for len(cs) < n {
		c := coCase{Launch: hk.Pick(r, []string{"cmd", "runnerfunc"}), Proto: hk.Pick(r, []string{"netrpc", "grpc"}), Kind: "random"}
		c.FirstFails = r.Intn(5) == 0 && c.Launch == "cmd" // the runnerfunc retry is a recorded finding, sampled by the directed case only
		if r.Intn(5) == 0 {
			c.Concurrent = true
			for k := 4 + r.Intn(5); k > 0; k-- {
				c.Ops = append(c.Ops, hk.Pick(r, []int{0, 1, 1, 2}))
			}
			c.Kind = "random-concurrent"
		} else {
			for k := 1 + r.Intn(8); k > 0; k-- {
				c.Ops = append(c.Ops, hk.Pick(r, []int{0, 0, 1, 1, 2, 3, 4, 5, 6}))
			}
		}
		cs = append(cs, c)
	}
	return cs
}

func runOneClientOps(c coCase) (sx.V, sx.V) {
	var launches int32
	o := vpOpts{Proto: c.Proto}
	// every start of the plugin process leaves a byte in this file (counts launches made with Cmd as well)
	lf, _ := os.CreateTemp("", "launches-*")
	lf.Close()
	defer os.Remove(lf.Name())
	o.Plugin = map[string]interface{}{"launch_log": lf.Name()}
	if c.FirstFails {
		o.Plugin["cookie_value"] = "not-the-cookie-the-host-sends"
	}
	cfg := vpClientConfig(o)
	cfg.StartTimeout = 5 * time.Second
	if c.Launch == "runnerfunc" {
		cmd := cfg.Cmd
		cfg.Cmd = nil
		cfg.RunnerFunc = func(l hclog.Logger, spec *exec.Cmd, tmp string) (runner.Runner, error) {
			atomic.AddInt32(&launches, 1)
			real := exec.Command(cmd.Path)
			real.Env = append(append([]string{}, cmd.Env...), spec.Env...)
			return newProcRunner(real)
		}
	}
	cl := plugin.NewClient(cfg)
	var mu sync.Mutex
	addrs, clients := map[string]int{}, map[string]int{}
	class := func(m map[string]int, k string) int {
		mu.Lock()
		defer mu.Unlock()
		if v, ok := m[k]; ok {
			return v
		}
		m[k] = len(m)
		return m[k]
	}
	disturbed := false // a failed start or a Kill happened: Exited() may lag by a moment
	do := func(op int) sx.V {
		switch op {
		case 0:
			a, err := cl.Start()
			if err != nil || a == nil {
				disturbed = true
				return sx.L{sx.I(0), sx.I(-1)}
			}
			return sx.L{sx.I(1), sx.I(class(addrs, a.Network()+"|"+a.String()))}
		case 1:
			p, err := cl.Client()
			if err != nil {
				disturbed = true
				return sx.L{sx.I(0), sx.I(-1)}
			}
			return sx.L{sx.I(1), sx.I(class(clients, fmt.Sprintf("%p", p)))}
		case 2:
			pr := cl.Protocol()
			if pr == plugin.ProtocolInvalid {
				disturbed = true
			}
			return sx.L{sx.Bool(pr != plugin.ProtocolInvalid)}
		case 3:
			return sx.L{sx.Bool(cl.ReattachConfig() != nil)}
		case 4:
			return sx.L{sx.Bool(cl.ID() != "")}
		case 5:
			ex := cl.Exited()
			for k := 0; k < 40 && !ex && disturbed; k++ {
				time.Sleep(25 * time.Millisecond)
				ex = cl.Exited()
			}
			return sx.L{sx.Bool(ex)}
		default:
			done := make(chan struct{})
			go func() { cl.Kill(); close(done) }()
			select {
			case <-done:
			case <-time.After(10 * time.Second):
			}
			disturbed = true
			return sx.L{}
		}
	}
	outs := make([]sx.V, len(c.Ops))
	if c.Concurrent {
		var wg sync.WaitGroup
		gate := make(chan struct{})
		for i, op := range c.Ops {
			wg.Add(1)
			go func(i, op int) { defer wg.Done(); <-gate; outs[i] = do(op) }(i, op)
		}
		close(gate)
		wg.Wait()
	} else {
		for i, op := range c.Ops {
			outs[i] = do(op)
		}
	}
	nl := int(atomic.LoadInt32(&launches))
	if c.Launch == "cmd" {
		time.Sleep(50 * time.Millisecond)
		if b, err := os.ReadFile(lf.Name()); err == nil {
			nl = len(b)
		}
	}
	boundedKill(cl)
	lk := 0
	if c.Launch == "runnerfunc" {
		lk = 1
	}
	ops := sx.L{}
	for _, op := range c.Ops {
		ops = append(ops, sx.I(op))
	}
	ol := sx.L{}
	for _, v := range outs {
		ol = append(ol, v)
	}
	return sx.L{sx.I(lk), sx.Bool(c.FirstFails), ops}, sx.L{ol, sx.I(nl)}
}

func runClientOps(o opts) error {
	var cs []coCase
	if o.cases != "" {
		if err := hk.LoadCases(o.cases, &cs); err != nil {
			return err
		}
	} else {
		cs = genClientOps(o)
	}
	sink, err := hk.NewSink(o.out, "clientops")
	if err != nil {
		return err
	}
	defer sink.Close()
	var wg sync.WaitGroup
	sem := make(chan struct{}, 12)
	for i, c := range cs {
		wg.Add(1)
		sem <- struct{}{}
		go func(i int, c coCase) {
			defer wg.Done()
			defer func() { <-sem }()
			in, obs := runOneClientOps(c)
			sink.Put(19, fmt.Sprintf("q%d", i), in, obs, c)
		}(i, c)
	}
	wg.Wait()
	return nil
}
