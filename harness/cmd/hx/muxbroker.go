package main

// C06 / C09: MuxBroker. Timed histories of Accept/Dial calls on a real broker pair (one yamux
// session between an RPCServer and an RPCClient in this process), compared with the model's timed
// driver; plus concurrent pairing runs.

import (
	"bytes"
	"encoding/binary"
	"fmt"
	"math/rand"
	"net"
	"net/rpc"
	"runtime"
	"strings"
	"sync"
	"time"

	plugin "github.com/hashicorp/go-plugin"
	"verif/harness/hk"
	"verif/harness/sx"
)

type capPlugin struct{ ch chan *plugin.MuxBroker }
type capSvc struct{}

func (capSvc) Nop(a bool, r *bool) error { return nil }
func (p *capPlugin) Server(b *plugin.MuxBroker) (interface{}, error) {
	select {
	case p.ch <- b:
	default: // later dispenses: the broker was already captured
	}
	return capSvc{}, nil
}
func (p *capPlugin) Client(b *plugin.MuxBroker, c *rpc.Client) (interface{}, error) { return b, nil }

type muxPair struct {
	host, plug *plugin.MuxBroker
	client     *plugin.RPCClient
	conns      []net.Conn
}

func newMuxPair() (*muxPair, error) {
	l, err := net.Listen("tcp", "127.0.0.1:0")
	if err != nil {
		return nil, err
	}
	defer l.Close()
	var sc net.Conn
	done := make(chan error, 1)
	go func() {
		c, e := l.Accept()
		sc = c
		done <- e
	}()
	cc, err := net.Dial("tcp", l.Addr().String())
	if err != nil {
		return nil, err
	}
	if e := <-done; e != nil {
		return nil, e
	}
	cp := &capPlugin{ch: make(chan *plugin.MuxBroker, 1)}
	ps := map[string]plugin.Plugin{"cap": cp}
	server := &plugin.RPCServer{Plugins: ps, Stdout: new(bytes.Buffer), Stderr: new(bytes.Buffer)}
	go server.ServeConn(sc)
	client, err := plugin.NewRPCClient(cc, ps)
	if err != nil {
		return nil, err
	}
	if _, err := client.Dispense("cap"); err != nil {
		return nil, err
	}
	select {
	case pb := <-cp.ch:
		return &muxPair{host: plugin.VerifMuxBroker(client), plug: pb, client: client, conns: []net.Conn{sc, cc}}, nil
	case <-time.After(3 * time.Second):
		return nil, fmt.Errorf("plugin-side broker not captured")
	}
}

func (p *muxPair) Close() {
	// bounded: Close takes the broker's mutex, which a changed library may hold for good
	within(3*time.Second, func() { p.client.Close() })
	for _, c := range p.conns {
		c.Close()
	}
}

type mtEvent struct {
	AtMs int    `json:"at_ms"`
	Kind string `json:"kind"` // dial | accept
	ID   uint32 `json:"id"`
	// BulkAtMs > 0: keep the connection and, at that time, push 1 MiB through it in each direction
	// against a slow reader, verifying content (bytes complete and in order on an aged connection)
	BulkAtMs int `json:"bulk_at_ms,omitempty"`
	// OffUs: microseconds after AtMs (the model's clock is in milliseconds; this only perturbs the real schedule)
	OffUs int `json:"off_us,omitempty"`
}
type mtCase struct {
	HostDials bool      `json:"host_dials"` // direction: the host end dials and the plugin end accepts, or the reverse
	Events    []mtEvent `json:"events"`
	Horizon   int       `json:"horizon_ms"`
	Kind      string    `json:"kind"`
	// Mirror: while the events run in their direction, the same operations with the SAME ids run in the other direction on
	// the same pair of brokers (ids are per direction: the host accepting id n while it dials id n is everyday traffic,
	// e.g. a callback pending during a Dispense).  The mirrored traffic is not part of the model's input.
	Mirror bool `json:"mirror,omitempty"`
}

func init() { families["muxtimed"] = runMuxTimed }

func genMuxTimed(o opts) []mtCase {
	r := hk.Rng(o.seed + 71)
	n := 23
	if o.tier == "thorough" {
		n = 123
	}
	fresh := func(c *mtCase, base int, k int) {
		for j := 0; j < k; j++ {
			id := uint32(100 + len(c.Events))
			if r.Intn(2) == 0 {
				c.Events = append(c.Events, mtEvent{AtMs: base + 300*j, Kind: "accept", ID: id}, mtEvent{AtMs: base + 300*j + 150, Kind: "dial", ID: id})
			} else {
				c.Events = append(c.Events, mtEvent{AtMs: base + 300*j, Kind: "dial", ID: id}, mtEvent{AtMs: base + 300*j + 150, Kind: "accept", ID: id})
			}
		}
	}
	directed := [][]mtEvent{
		{{AtMs: 0, Kind: "dial", ID: 10}},                                                                       // dial nobody accepts
		{{AtMs: 0, Kind: "accept", ID: 10}},                                                                     // accept nobody dials
		{{AtMs: 0, Kind: "dial", ID: 10}, {AtMs: 300, Kind: "dial", ID: 10}},                                    // second dial to a pending id
		{{AtMs: 0, Kind: "dial", ID: 10}, {AtMs: 300, Kind: "dial", ID: 10}, {AtMs: 600, Kind: "dial", ID: 10}}, // and a third
		{{AtMs: 0, Kind: "dial", ID: 10}, {AtMs: 300, Kind: "dial", ID: 10}, {AtMs: 900, Kind: "accept", ID: 10}},
		{{AtMs: 0, Kind: "accept", ID: 10}, {AtMs: 300, Kind: "dial", ID: 10}, {AtMs: 600, Kind: "dial", ID: 10}},
		{{AtMs: 0, Kind: "dial", ID: 10}, {AtMs: 0, Kind: "dial", ID: 11}, {AtMs: 0, Kind: "dial", ID: 12}, {AtMs: 600, Kind: "accept", ID: 12}, {AtMs: 900, Kind: "accept", ID: 10}, {AtMs: 1200, Kind: "accept", ID: 11}},
		{{AtMs: 0, Kind: "accept", ID: 10}, {AtMs: 0, Kind: "accept", ID: 11}, {AtMs: 600, Kind: "dial", ID: 11}, {AtMs: 900, Kind: "dial", ID: 10}},
		{{AtMs: 0, Kind: "dial", ID: 10}, {AtMs: 2800, Kind: "accept", ID: 10}}, // late but inside the window
		{{AtMs: 0, Kind: "accept", ID: 10}, {AtMs: 2800, Kind: "dial", ID: 10}},
		// a dial parked before its accept must not hold up other ids: B's accept would expire at 5.0 s
		{{AtMs: 0, Kind: "accept", ID: 11}, {AtMs: 2000, Kind: "dial", ID: 10}, {AtMs: 2500, Kind: "dial", ID: 11}, {AtMs: 6000, Kind: "accept", ID: 10}},
		// the peer closes mid-negotiation (stream closed before / in the middle of its id)
		{{AtMs: 0, Kind: "rawclose", ID: 0}, {AtMs: 200, Kind: "accept", ID: 10}, {AtMs: 400, Kind: "dial", ID: 10}, {AtMs: 600, Kind: "rawclose", ID: 1}, {AtMs: 800, Kind: "dial", ID: 11}, {AtMs: 1000, Kind: "accept", ID: 11}},
		// data on a connection older than the 5 s windows
		{{AtMs: 0, Kind: "accept", ID: 10, BulkAtMs: 6200}, {AtMs: 200, Kind: "dial", ID: 10, BulkAtMs: 6200}},
	}
	var cs []mtCase
	for i, evs := range directed {
		c := mtCase{HostDials: i%2 == 0, Events: append([]mtEvent{}, evs...), Kind: "directed", Mirror: i%4 == 1}
		fresh(&c, 9500, 2)
		c.Horizon = 11000
		cs = append(cs, c)
	}
	// many distinct ids outstanding at once, accept and dial of each id a few ms apart in either order
	for k := 0; k < 2; k++ {
		c := mtCase{HostDials: k == 0, Kind: "concurrent", Mirror: true}
		t := 0
		for id := uint32(20); id < 28; id++ {
			t += 3 + r.Intn(5)
			a, d := mtEvent{AtMs: t, Kind: "accept", ID: id}, mtEvent{AtMs: t + 2 + r.Intn(4), Kind: "dial", ID: id}
			if r.Intn(2) == 0 {
				a.Kind, d.Kind = "dial", "accept"
			}
			c.Events = append(c.Events, a, d)
			t = d.AtMs
		}
		fresh(&c, 9500, 1)
		c.Horizon = 11000
		cs = append(cs, c)
	}
	// bursts: the accept and the dial of every id are issued at the same instant, many ids at once (the slot of an id
	// may be created by either side: both creations racing must still meet in one slot)
	for k := 0; k < 3; k++ {
		c := mtCase{HostDials: k%2 == 0, Kind: "burst", Mirror: k == 1}
		for wave := 0; wave < 4; wave++ {
			t := 50 + 400*wave
			for j := 0; j < 12; j++ {
				id := uint32(30 + 12*wave + j)
				// the dialled stream reaches the accepting side's Run some tens of microseconds after the dial is issued:
				// spread the accepts over that range so that some of them look the slot up at the same moment
				a, d := mtEvent{AtMs: t, Kind: "accept", ID: id, OffUs: 20 * ((j*7 + wave*3 + k) % 16)}, mtEvent{AtMs: t, Kind: "dial", ID: id}
				if (j+k)%2 == 0 {
					c.Events = append(c.Events, a, d)
				} else {
					c.Events = append(c.Events, d, a)
				}
			}
		}
		fresh(&c, 9500, 1)
		c.Horizon = 11000
		cs = append(cs, c)
	}
	for len(cs) < n {
		c := mtCase{HostDials: r.Intn(2) == 0, Kind: "random"}
		accepted := map[uint32]bool{}
		for k := 1 + r.Intn(6); k > 0; k-- {
			id := uint32(10 + r.Intn(3))
			t := 200 * r.Intn(15)
			if r.Intn(2) == 0 && !accepted[id] {
				accepted[id] = true
				c.Events = append(c.Events, mtEvent{AtMs: t, Kind: "accept", ID: id})
			} else {
				c.Events = append(c.Events, mtEvent{AtMs: t, Kind: "dial", ID: id})
			}
		}
		// events must be in time order for the model's driver; same-time events keep list order
		for i := 1; i < len(c.Events); i++ {
			for j := i; j > 0 && c.Events[j].AtMs < c.Events[j-1].AtMs; j-- {
				c.Events[j], c.Events[j-1] = c.Events[j-1], c.Events[j]
			}
		}
		// avoid same-millisecond ties between different ops (the real order would be the scheduler's)
		for i := 1; i < len(c.Events); i++ {
			if c.Events[i].AtMs <= c.Events[i-1].AtMs {
				c.Events[i].AtMs = c.Events[i-1].AtMs + 100
			}
		}
		fresh(&c, 9500, 1+r.Intn(2))
		c.Horizon = 11000
		cs = append(cs, c)
	}
	return cs
}

func brokerGoroutines() int {
	buf := make([]byte, 1<<22)
	nb := runtime.Stack(buf, true)
	cnt := 0
	for _, g := range strings.Split(string(buf[:nb]), "\n\n") {
		if strings.Contains(g, "go-plugin.(*MuxBroker)") {
			cnt++
		}
	}
	return cnt
}

func runOneMuxTimed(c mtCase) (sx.V, sx.V) {
	evs := sx.L{}
	for _, e := range c.Events {
		if e.Kind == "rawclose" {
			continue // has no counterpart in the model: a stream closed before its id arrives must not matter
		}
		k := 0
		if e.Kind == "accept" {
			k = 1
		}
		evs = append(evs, sx.L{sx.I(e.AtMs), sx.I(k), sx.I(int64(e.ID))})
	}
	in := sx.L{evs, sx.I(c.Horizon)}
	pair, err := newMuxPair()
	if err != nil {
		return in, sx.L{sx.L{}, sx.I(1), sx.I(-1)}
	}
	dialer, acceptor := pair.host, pair.plug
	if !c.HostDials {
		dialer, acceptor = pair.plug, pair.host
	}
	type result struct {
		code  int
		token int
	}
	res := make([]result, len(c.Events))
	for i := range res {
		res[i].token = -1
	}
	var mu sync.Mutex
	start := time.Now()
	if c.Mirror {
		for _, e := range c.Events {
			if e.Kind == "rawclose" || e.BulkAtMs > 0 {
				continue
			}
			go func(e mtEvent) {
				time.Sleep(time.Until(start.Add(time.Duration(e.AtMs) * time.Millisecond)))
				var conn net.Conn
				if e.Kind == "dial" {
					conn, _ = acceptor.Dial(e.ID)
				} else {
					conn, _ = dialer.Accept(e.ID)
				}
				if conn != nil {
					time.Sleep(100 * time.Millisecond)
					conn.Close()
				}
			}(e)
		}
	}
	for i, e := range c.Events {
		go func(i int, e mtEvent) {
			time.Sleep(time.Until(start.Add(time.Duration(e.AtMs) * time.Millisecond)))
			if e.OffUs > 0 {
				for t := start.Add(time.Duration(e.AtMs)*time.Millisecond + time.Duration(e.OffUs)*time.Microsecond); time.Now().Before(t); {
					runtime.Gosched()
				}
			}
			var conn net.Conn
			var err error
			if e.Kind == "rawclose" {
				// the peer opens a stream and goes away before (or in the middle of) writing the id
				if st, e2 := plugin.VerifMuxSession(dialer).OpenStream(); e2 == nil {
					if e.ID%2 == 1 {
						st.Write([]byte{1, 2})
					}
					st.Close()
				}
				return
			}
			if e.Kind == "dial" {
				conn, err = dialer.Dial(e.ID)
			} else {
				conn, err = acceptor.Accept(e.ID)
			}
			out := result{token: -1}
			switch {
			case e.Kind == "accept" && err == nil:
				out.code = 1
			case e.Kind == "accept":
				out.code = 2
			case err == nil:
				out.code = 3
			default:
				out.code = 4
			}
			if err == nil {
				// exchange op indices over the connection to learn who is paired with whom
				conn.SetReadDeadline(time.Now().Add(3 * time.Second)) // never touch the write deadline: it is part of what is observed
				var peer uint32
				if e.Kind == "dial" {
					binary.Write(conn, binary.LittleEndian, uint32(i))
					if binary.Read(conn, binary.LittleEndian, &peer) == nil {
						out.token = pairToken(i, int(peer))
					}
				} else {
					if binary.Read(conn, binary.LittleEndian, &peer) == nil {
						binary.Write(conn, binary.LittleEndian, uint32(i))
						out.token = pairToken(i, int(peer))
					}
				}
				if e.BulkAtMs > 0 && out.token >= 0 {
					time.Sleep(time.Until(start.Add(time.Duration(e.BulkAtMs) * time.Millisecond)))
					if !bulkTransfer(conn, e.Kind == "dial") {
						out.code = 9
					}
				}
				time.Sleep(100 * time.Millisecond)
				conn.Close()
			}
			mu.Lock()
			res[i] = out
			mu.Unlock()
		}(i, e)
	}
	time.Sleep(time.Until(start.Add(time.Duration(c.Horizon) * time.Millisecond)))
	mu.Lock()
	outs := sx.L{}
	for i, r := range res {
		if c.Events[i].Kind == "rawclose" {
			continue
		}
		outs = append(outs, sx.L{sx.I(r.code), sx.I(r.token)})
	}
	mu.Unlock()
	// wedged probe: a fresh pair must still go through in this direction
	wedged := true
	probe := make(chan bool, 2)
	go func() {
		cn, e := acceptor.Accept(4000000000)
		if e == nil {
			cn.Close()
		}
		probe <- e == nil
	}()
	go func() {
		cn, e := dialer.Dial(4000000000)
		if e == nil {
			cn.Close()
		}
		probe <- e == nil
	}()
	okc := 0
	deadline := time.After(3 * time.Second)
loop:
	for k := 0; k < 2; k++ {
		select {
		case ok := <-probe:
			if ok {
				okc++
			}
		case <-deadline:
			break loop
		}
	}
	if okc == 2 {
		wedged = false
	}
	pair.Close()
	leftover := -1
	for k := 0; k < 30; k++ {
		time.Sleep(100 * time.Millisecond)
		leftover = brokerGoroutines()
		if leftover == 0 {
			break
		}
	}
	return in, sx.L{outs, sx.Bool(wedged), sx.I(leftover)}
}

// bulkTransfer: each end writes 1 MiB of a known pattern and reads the peer's, slowly at first so the
// writer has to wait for flow-control credit.
func bulkTransfer(conn net.Conn, isDialer bool) bool {
	const n = 1 << 20
	pat := func(seed byte) []byte {
		b := make([]byte, n)
		for i := range b {
			b[i] = seed + byte(i*7) + byte(i>>8)
		}
		return b
	}
	mine, theirs := pat(1), pat(2)
	if !isDialer {
		mine, theirs = theirs, mine
	}
	werr := make(chan error, 1)
	go func() { _, e := conn.Write(mine); werr <- e }()
	got := make([]byte, 0, n)
	buf := make([]byte, 32*1024)
	deadline := time.Now().Add(4 * time.Second)
	for len(got) < n && time.Now().Before(deadline) {
		if len(got) < 300*1024 {
			time.Sleep(20 * time.Millisecond) // slow reader
		}
		conn.SetReadDeadline(time.Now().Add(2 * time.Second))
		k, e := conn.Read(buf)
		got = append(got, buf[:k]...)
		if e != nil {
			break
		}
	}
	select {
	case e := <-werr:
		if e != nil {
			return false
		}
	case <-time.After(3 * time.Second):
		return false
	}
	return bytes.Equal(got, theirs)
}

func newRPC(conn net.Conn) *rpc.Client { return rpc.NewClient(conn) }

func pairToken(a, b int) int {
	if a > b {
		a, b = b, a
	}
	return a*1000 + b
}

func runMuxTimed(o opts) error {
	var cs []mtCase
	if o.cases != "" {
		if err := hk.LoadCases(o.cases, &cs); err != nil {
			return err
		}
	} else {
		cs = genMuxTimed(o)
	}
	sink, err := hk.NewSink(o.out, "muxtimed")
	if err != nil {
		return err
	}
	defer sink.Close()
	// the goroutine census is process-wide, so histories run one at a time inside a process;
	// parallelism comes from running each history in its own child process
	if len(cs) == 1 || o.child {
		for i, c := range cs {
			in, obs := runOneMuxTimed(c)
			sink.Put(6, fmt.Sprintf("m%d", i), in, obs, c)
		}
		return nil
	}
	return fanOut(o, "muxtimed", 6, "m", len(cs), func(i int) interface{} { return cs[i] }, sink, 16)
}

var _ = rand.Int
