package main

// C10: the plugin's real stderr (logStderr) and stdout after the handshake.

import (
	"bufio"
	"bytes"
	"encoding/json"
	"fmt"
	"io"
	"log"
	"math/rand"
	"os"
	"os/exec"
	"sort"
	"strings"
	"sync"
	"time"

	hclog "github.com/hashicorp/go-hclog"
	plugin "github.com/hashicorp/go-plugin"
	"verif/harness/hk"
	"verif/harness/sx"
)

type seCase struct {
	Buf    int    `json:"buf"`    // ClientConfig.PluginLogBufferSize
	Data   []byte `json:"data"`   // bytes written to the plugin's stderr
	Chunks []int  `json:"chunks"` // write sizes (cycled)
	Kind   string `json:"kind"`
}

func init() {
	families["stderr"] = runStderr
	families["stderr-child"] = runStderrChild
	families["stdout"] = runStdout
}

// ---- recording logger

type rec struct {
	level int
	msg   string
	args  []interface{}
}
type recLogger struct {
	mu   sync.Mutex
	recs []rec
}

func (l *recLogger) add(level int, msg string, args []interface{}) {
	l.mu.Lock()
	l.recs = append(l.recs, rec{level, msg, append([]interface{}{}, args...)})
	l.mu.Unlock()
}
func (l *recLogger) Log(level hclog.Level, msg string, args ...interface{}) {
	l.add(int(level), msg, args)
}
func (l *recLogger) Trace(msg string, args ...interface{}) { l.add(1, msg, args) }
func (l *recLogger) Debug(msg string, args ...interface{}) { l.add(2, msg, args) }
func (l *recLogger) Info(msg string, args ...interface{})  { l.add(3, msg, args) }
func (l *recLogger) Warn(msg string, args ...interface{})  { l.add(4, msg, args) }
func (l *recLogger) Error(msg string, args ...interface{}) { l.add(5, msg, args) }
func (l *recLogger) IsTrace() bool                         { return true }
func (l *recLogger) IsDebug() bool                         { return true }
func (l *recLogger) IsInfo() bool                          { return true }
func (l *recLogger) IsWarn() bool                          { return true }
func (l *recLogger) IsError() bool                         { return true }
func (l *recLogger) ImpliedArgs() []interface{}            { return nil }
func (l *recLogger) With(args ...interface{}) hclog.Logger { return l }
func (l *recLogger) Name() string                          { return "rec" }
func (l *recLogger) Named(name string) hclog.Logger        { return &namedRec{l, name} }
func (l *recLogger) ResetNamed(name string) hclog.Logger   { return &namedRec{l, name} }
func (l *recLogger) SetLevel(level hclog.Level)            {}
func (l *recLogger) StandardLogger(*hclog.StandardLoggerOptions) *log.Logger {
	return log.New(io.Discard, "", 0)
}
func (l *recLogger) StandardWriter(*hclog.StandardLoggerOptions) io.Writer { return io.Discard }

// namedRec is what logStderr logs through (logger.Named(base name)): only its records are the
// stderr records; the client's own messages go to the parent and are ignored.
type namedRec struct {
	parent *recLogger
	name   string
}

var stderrRecs sync.Map // *recLogger -> *[]rec (records that came through a Named logger)

func (n *namedRec) add(level int, msg string, args []interface{}) {
	n.parent.mu.Lock()
	n.parent.recs = append(n.parent.recs, rec{level + 100, msg, append([]interface{}{}, args...)})
	n.parent.mu.Unlock()
}
func (n *namedRec) Log(level hclog.Level, msg string, args ...interface{}) {
	n.add(int(level), msg, args)
}
func (n *namedRec) Trace(msg string, args ...interface{}) { n.add(1, msg, args) }
func (n *namedRec) Debug(msg string, args ...interface{}) { n.add(2, msg, args) }
func (n *namedRec) Info(msg string, args ...interface{})  { n.add(3, msg, args) }
func (n *namedRec) Warn(msg string, args ...interface{})  { n.add(4, msg, args) }
func (n *namedRec) Error(msg string, args ...interface{}) { n.add(5, msg, args) }
func (n *namedRec) IsTrace() bool                         { return true }
func (n *namedRec) IsDebug() bool                         { return true }
func (n *namedRec) IsInfo() bool                          { return true }
func (n *namedRec) IsWarn() bool                          { return true }
func (n *namedRec) IsError() bool                         { return true }
func (n *namedRec) ImpliedArgs() []interface{}            { return nil }
func (n *namedRec) With(args ...interface{}) hclog.Logger { return n }
func (n *namedRec) Name() string                          { return n.name }
func (n *namedRec) Named(name string) hclog.Logger        { return n }
func (n *namedRec) ResetNamed(name string) hclog.Logger   { return n }
func (n *namedRec) SetLevel(level hclog.Level)            {}
func (n *namedRec) StandardLogger(*hclog.StandardLoggerOptions) *log.Logger {
	return log.New(io.Discard, "", 0)
}
func (n *namedRec) StandardWriter(*hclog.StandardLoggerOptions) io.Writer { return io.Discard }

type lockedBuf struct {
	mu sync.Mutex
	b  bytes.Buffer
}

func (w *lockedBuf) Write(p []byte) (int, error) {
	w.mu.Lock()
	defer w.mu.Unlock()
	return w.b.Write(p)
}

// ---- generators

func genStderr(o opts) []seCase {
	r := hk.Rng(o.seed + 23)
	n := 900
	if o.tier == "thorough" {
		n = 25000
	}
	if o.n > 0 {
		n = o.n
	}
	var cs []seCase
	bufs := []int{16, 17, 20, 64, 16, 17, 4096, 1, 0, -5}
	textLines := []string{"[TRACE] t", "[DEBUG] d", "[INFO] i", "[WARN] w", "[ERROR] e", "panic: boom", "goroutine 1 [running]:", "plain", "", "[INFO]", "[info] lower", " [INFO] space", "[TRACE", "[", "]", "[WARN]x", "panic:", "Panic: no"}
	jsonLines := []string{
		`{"@level":"info","@message":"hello","@timestamp":"2020-01-02T03:04:05.000000Z","k":"v"}`,
		`{"@level":"debug","@message":"m"}`, `{"@level":"TRACE","@message":"m","a":1,"b":[1,2],"c":{"d":null},"e":true}`,
		`{"@level":" warn ","@message":"m"}`, `{"@level":"error","@message":"m","@timestamp":"bad"}`,
		`{"@level":"İNFO","@message":"dotted"}`, `{"@level":"ınfo","@message":"dotless"}`, `{"@level":"inf","@message":"m"}`,
		`{"@message": 1}`, `{"@level": 2}`, `{"@timestamp": 3}`, `{"@message": null}`, `{"@level": ["x"]}`, `{"@timestamp": {"a":1}}`,
		`{"@message":"only message"}`, `{"@level":"info"}`, `{}`, `null`, `[1,2]`, `"str"`, `1`, `true`, `{"a":1,"a":2}`,
		`{"@level":"info","@message":"dup","@message":"second"}`, `{"@level":"off","@message":"m"}`, `{"@level":"","@message":"m"}`,
		`{"@message":"m","@level":"warn","kv_pairs":[{"key":"a","value":1}]}`, `{"@level":"info","@message":"big","n":12345678901234567890}`,
		`{"@level":"info","@message":"nested","o":{"z":1,"a":[true,null,"s"]}}`, `{"@level":"ERROR","@message":"","x":""}`, ` {"@level":"info","@message":"leading space"}`,
		`{"@level":"info","@message":"m","@timestamp":"2020-01-02T03:04:05.123456+02:00"}`, `{"@level":"KELVIN","@message":"m"}`, `{"@level":"info","@message":"bad json"`,
	}
	// directed
	for _, b := range []int{16, 17, 4096, 0} {
		for _, l := range append(append([]string{}, textLines...), jsonLines...) {
			cs = append(cs, seCase{Buf: b, Data: []byte(l + "\n"), Kind: "directed"})
		}
	}
	// long lines around the buffer boundaries
	for _, b := range []int{16, 17, 64} {
		for _, l := range []int{b - 2, b - 1, b, b + 1, b + 2, 2*b - 1, 2 * b, 2*b + 1, 3 * b} {
			for _, end := range []string{"\n", "\r\n", "", "\r"} {
				for _, crAt := range []int{-1, b - 1, b - 2, b} {
					d := bytes.Repeat([]byte("a"), l)
					if crAt >= 0 && crAt < l {
						d[crAt] = '\r'
					}
					d = append(d, end...)
					cs = append(cs, seCase{Buf: b, Data: append(d, []byte("[INFO] next\n")...), Kind: "boundary"})
					cs = append(cs, seCase{Buf: b, Data: d, Kind: "boundary-last"})
				}
			}
		}
	}
	for _, l := range []int{65534, 65535, 65536, 65537, 131072} {
		d := bytes.Repeat([]byte("x"), l)
		cs = append(cs, seCase{Buf: 0, Data: append(d, '\n'), Kind: "boundary-64k"})
		cs = append(cs, seCase{Buf: 0, Data: d, Kind: "boundary-64k-last"})
	}
	// random streams
	for len(cs) < n {
		c := seCase{Buf: hk.Pick(r, bufs), Kind: "random"}
		nl := 1 + r.Intn(6)
		for i := 0; i < nl; i++ {
			switch r.Intn(10) {
			case 0, 1, 2:
				c.Data = append(c.Data, hk.Pick(r, textLines)...)
			case 3, 4, 5:
				c.Data = append(c.Data, hk.Pick(r, jsonLines)...)
			case 6:
				c.Data = append(c.Data, bytes.Repeat([]byte{hk.Pick(r, []byte("ab\r {\""))}, r.Intn(50))...)
			case 7:
				for k := r.Intn(40); k > 0; k-- {
					c.Data = append(c.Data, hk.Pick(r, []byte{'a', 'b', '\r', '\n', ' ', 0, 0xff, '{', '}', '"', '[', ']', ':'}))
				}
			case 8:
				c.Data = append(c.Data, mutateJSON(r, hk.Pick(r, jsonLines))...)
			default:
				c.Data = append(c.Data, hk.RandBytes(r, r.Intn(30))...)
			}
			if i < nl-1 || r.Intn(3) != 0 {
				c.Data = append(c.Data, hk.Pick(r, []string{"\n", "\n", "\n", "\r\n", "\n\n", "\r\r\n"})...)
			}
		}
		for k := 1 + r.Intn(3); k > 0; k-- {
			c.Chunks = append(c.Chunks, 1+r.Intn(40))
		}
		cs = append(cs, c)
	}
	return cs
}

func mutateJSON(r *rand.Rand, s string) string {
	b := []byte(s)
	if len(b) == 0 {
		return s
	}
	switch r.Intn(4) {
	case 0:
		b[r.Intn(len(b))] = hk.Pick(r, []byte(`{}[]":,0 `))
	case 1:
		i := r.Intn(len(b))
		b = append(b[:i], b[i+1:]...)
	case 2:
		return strings.Replace(s, `"info"`, hk.Pick(r, []string{`1`, `null`, `["a"]`, `{"x":1}`, `true`, `"INFO"`, `" Info\t"`}), 1)
	default:
		return strings.Replace(s, `"@message":"`, hk.Pick(r, []string{`"@message":7,"x":"`, `"@Message":"`, `"message":"`}), 1)
	}
	return string(b)
}

// ---- oracle side: what encoding/json and time.Parse say about each complete line
func completeLines(buf int, data []byte) [][]byte {
	size := buf
	if size == 0 {
		size = 64 * 1024
	}
	rd := bufio.NewReaderSize(bytes.NewReader(data), size)
	var out [][]byte
	cont := false
	for {
		line, isPrefix, err := rd.ReadLine()
		if err != nil {
			return out
		}
		if isPrefix || cont {
			cont = isPrefix
			continue
		}
		out = append(out, append([]byte{}, line...))
	}
}

func jsonRepr(v interface{}) string {
	b, err := json.Marshal(v)
	if err != nil {
		return fmt.Sprintf("%#v", v)
	}
	return string(b)
}

func lineOracle(line []byte) sx.V {
	var raw map[string]interface{}
	if err := json.Unmarshal(line, &raw); err != nil {
		return sx.L{sx.I(0)}
	}
	keys := make([]string, 0, len(raw))
	for k := range raw {
		keys = append(keys, k)
	}
	sort.Strings(keys)
	kvs := sx.L{}
	for _, k := range keys {
		if s, ok := raw[k].(string); ok {
			kvs = append(kvs, sx.L{sx.S(k), sx.L{sx.I(0), sx.S(s)}})
		} else {
			kvs = append(kvs, sx.L{sx.S(k), sx.L{sx.I(1), sx.S(jsonRepr(raw[k]))}})
		}
	}
	tsOK := false
	tsFmt := time.Time{}.Format(hclog.TimeFormat)
	if s, ok := raw["@timestamp"].(string); ok {
		if t, err := time.Parse("2006-01-02T15:04:05.000000Z07:00", s); err == nil {
			tsOK = true
			tsFmt = t.Format(hclog.TimeFormat)
		}
	}
	return sx.L{sx.I(1), kvs, sx.Bool(tsOK), sx.S(tsFmt)}
}

func runOneStderr(c seCase) (sx.V, sx.V, bool) {
	lg := &recLogger{}
	var w lockedBuf
	sr := hk.NewScripted()
	cfg := &plugin.ClientConfig{
		HandshakeConfig:     plugin.HandshakeConfig{ProtocolVersion: 1, MagicCookieKey: "K", MagicCookieValue: "V"},
		Plugins:             plugin.PluginSet{},
		StartTimeout:        10 * time.Second,
		Logger:              lg,
		Stderr:              &w,
		SkipHostEnv:         true,
		PluginLogBufferSize: c.Buf,
		RunnerFunc:          sr.RunnerFunc(nil),
	}
	sr.OnStart = func(s *hk.Scripted) {
		d := c.Data
		i := 0
		for len(d) > 0 {
			k := len(d)
			if len(c.Chunks) > 0 {
				k = c.Chunks[i%len(c.Chunks)]
				i++
			}
			if k > len(d) {
				k = len(d)
			}
			if _, err := s.StderrW.Write(d[:k]); err != nil {
				break
			}
			d = d[k:]
		}
		s.Exit()
	}
	cl := plugin.NewClient(cfg)
	cl.Start()
	done := make(chan struct{})
	go func() { cl.Kill(); close(done) }()
	hung := false
	select {
	case <-done:
	case <-time.After(20 * time.Second):
		hung = true
	}
	in := sx.L{sx.I(c.Buf), sx.B(c.Data), sx.L{}}
	orcs := sx.L{}
	for _, l := range completeLines(c.Buf, c.Data) {
		orcs = append(orcs, lineOracle(l))
	}
	in[2] = orcs
	lg.mu.Lock()
	recs := sx.L{}
	for _, r := range lg.recs {
		if r.level < 100 {
			continue // the client's own log lines, not stderr records
		}
		kvs := [][2]string{}
		ts := ""
		for i := 0; i+1 < len(r.args); i += 2 {
			k, _ := r.args[i].(string)
			if k == "timestamp" && i == len(r.args)-2 {
				ts, _ = r.args[i+1].(string)
				continue
			}
			v := r.args[i+1]
			if s, ok := v.(string); ok {
				kvs = append(kvs, [2]string{k, s})
			} else {
				kvs = append(kvs, [2]string{k, jsonRepr(v)})
			}
		}
		sort.Slice(kvs, func(a, b int) bool {
			if kvs[a][0] != kvs[b][0] {
				return bytesLess(kvs[a][0], kvs[b][0])
			}
			return bytesLessEq(kvs[a][1], kvs[b][1])
		})
		kl := sx.L{}
		for _, kv := range kvs {
			kl = append(kl, sx.L{sx.S(kv[0]), sx.S(kv[1])})
		}
		recs = append(recs, sx.L{sx.I(r.level - 100), sx.S(r.msg), kl, sx.S(ts)})
	}
	lg.mu.Unlock()
	w.mu.Lock()
	written := append([]byte{}, w.b.Bytes()...)
	w.mu.Unlock()
	obs := sx.L{sx.Bool(false), sx.B(written), recs}
	return in, obs, hung
}

// the model's bytes_leb is "a is a prefix of b, or the first differing byte is smaller"
func bytesLess(a, b string) bool   { return a != b && bytesLessEq(a, b) }
func bytesLessEq(a, b string) bool { return strings.Compare(a, b) <= 0 }

func runStderr(o opts) error {
	var cs []seCase
	if o.cases != "" {
		if err := hk.LoadCases(o.cases, &cs); err != nil {
			return err
		}
	} else {
		cs = genStderr(o)
	}
	sink, err := hk.NewSink(o.out, "stderr")
	if err != nil {
		return err
	}
	defer sink.Close()
	// A host panic in the stderr goroutine kills the whole process, so batches run in child
	// processes; a batch that dies is bisected down to the offending case.
	self, _ := os.Executable()
	var run func(lo, hi int)
	run = func(lo, hi int) {
		if lo >= hi {
			return
		}
		tmp, _ := os.CreateTemp("", "hx-se-*.json")
		b, _ := json.Marshal(cs[lo:hi])
		tmp.Write(b)
		tmp.Close()
		defer os.Remove(tmp.Name())
		outdir, _ := os.MkdirTemp("", "hx-se-out")
		defer os.RemoveAll(outdir)
		cmd := exec.Command(self, "stderr-child", "-cases", tmp.Name(), "-out", outdir)
		cmd.Stderr = io.Discard
		err := cmd.Run()
		lines, _ := os.ReadFile(outdir + "/stderr-child.lines")
		got := 0
		if err == nil {
			for _, ln := range strings.Split(strings.TrimRight(string(lines), "\n"), "\n") {
				parts := strings.SplitN(ln, "\t", 4)
				if len(parts) != 4 {
					continue
				}
				idx := 0
				fmt.Sscanf(parts[1], "c%d", &idx)
				sink.PutRaw(10, fmt.Sprintf("e%d", lo+idx), parts[2], parts[3], cs[lo+idx])
				got++
			}
			return
		}
		if hi-lo == 1 {
			// this single case brought the host process down
			c := cs[lo]
			orcs := sx.L{}
			for _, l := range completeLines(c.Buf, c.Data) {
				orcs = append(orcs, lineOracle(l))
			}
			in := sx.L{sx.I(c.Buf), sx.B(c.Data), orcs}
			sink.Put(10, fmt.Sprintf("e%d", lo), in, sx.L{sx.Bool(true), sx.B(nil), sx.L{}}, c)
			return
		}
		mid := (lo + hi) / 2
		run(lo, mid)
		run(mid, hi)
	}
	batch := 200
	var wg sync.WaitGroup
	sem := make(chan struct{}, 8)
	for lo := 0; lo < len(cs); lo += batch {
		hi := lo + batch
		if hi > len(cs) {
			hi = len(cs)
		}
		wg.Add(1)
		sem <- struct{}{}
		go func(lo, hi int) {
			defer wg.Done()
			defer func() { <-sem }()
			run(lo, hi)
		}(lo, hi)
	}
	wg.Wait()
	return nil
}

func runStderrChild(o opts) error {
	var cs []seCase
	if err := hk.LoadCases(o.cases, &cs); err != nil {
		return err
	}
	sink, err := hk.NewSink(o.out, "stderr-child")
	if err != nil {
		return err
	}
	defer sink.Close()
	for i, c := range cs {
		in, obs, hung := runOneStderr(c)
		if hung {
			obs = sx.L{sx.Bool(true), sx.B(nil), sx.L{}}
		}
		sink.Put(10, fmt.Sprintf("c%d", i), in, obs, nil)
	}
	return nil
}

// ---- stdout after the handshake

type soCase struct {
	Lens []int  `json:"lens"` // line lengths including the newline; the last one may be unterminated
	Last bool   `json:"last_unterminated"`
	Kind string `json:"kind"`
}

func runStdout(o opts) error {
	r := hk.Rng(o.seed + 31)
	var cs []soCase
	if o.cases != "" {
		if err := hk.LoadCases(o.cases, &cs); err != nil {
			return err
		}
	} else {
		cs = []soCase{
			{Lens: []int{10, 20, 30}}, {Lens: []int{65536}}, {Lens: []int{65537}}, {Lens: []int{65537, 10, 10}},
			{Lens: []int{200000}, Last: true}, {Lens: []int{10, 70000, 10, 300000, 5}}, {Lens: []int{1 << 20}},
			{Lens: []int{3 << 20, 10, 3 << 20}, Last: true}, {Lens: []int{65536, 65536, 65536}},
		}
		n := 24
		if o.tier == "thorough" {
			n = 200
		}
		for len(cs) < n {
			var c soCase
			for k := 1 + r.Intn(5); k > 0; k-- {
				c.Lens = append(c.Lens, hk.Pick(r, []int{1, 2, 100, 4096, 65535, 65536, 65537, 65538, 100000, 1 << 20, 2<<20 + 1}))
			}
			c.Last = r.Intn(3) == 0
			cs = append(cs, c)
		}
	}
	sink, err := hk.NewSink(o.out, "stdout")
	if err != nil {
		return err
	}
	defer sink.Close()
	var wg sync.WaitGroup
	sem := make(chan struct{}, 8)
	for i, c := range cs {
		wg.Add(1)
		sem <- struct{}{}
		go func(i int, c soCase) {
			defer wg.Done()
			defer func() { <-sem }()
			sr := hk.NewScripted()
			completed := make(chan bool, 1)
			sr.OnStart = func(s *hk.Scripted) {
				fmt.Fprintf(s.StdoutW, "1|1|tcp|127.0.0.1:1234|netrpc|\n")
				ok := true
				for k, l := range c.Lens {
					d := bytes.Repeat([]byte("o"), l)
					if !(c.Last && k == len(c.Lens)-1) && l > 0 {
						d[l-1] = '\n'
					}
					for len(d) > 0 {
						m := 32 * 1024
						if m > len(d) {
							m = len(d)
						}
						if _, err := s.StdoutW.Write(d[:m]); err != nil {
							ok = false
							break
						}
						d = d[m:]
					}
				}
				completed <- ok
			}
			cfg := &plugin.ClientConfig{
				HandshakeConfig: plugin.HandshakeConfig{ProtocolVersion: 1, MagicCookieKey: "K", MagicCookieValue: "V"},
				Plugins:         plugin.PluginSet{}, StartTimeout: 5 * time.Second, Logger: hk.QuietLogger(), SkipHostEnv: true,
				RunnerFunc: sr.RunnerFunc(nil),
			}
			cl := plugin.NewClient(cfg)
			_, serr := cl.Start()
			done := false
			if serr == nil {
				select {
				case done = <-completed:
				case <-time.After(5 * time.Second):
				}
			}
			sr.Exit()
			go cl.Kill()
			lens := sx.L{}
			for _, l := range c.Lens {
				lens = append(lens, sx.I(l))
			}
			sink.Put(110, fmt.Sprintf("o%d", i), lens, sx.L{sx.Bool(done)}, c)
		}(i, c)
	}
	wg.Wait()
	return nil
}
