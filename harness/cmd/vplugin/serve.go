package main

import (
	"crypto/tls"
	"crypto/x509"
	"encoding/json"
	"fmt"
	"io"
	"os"
	"os/signal"
	"strconv"
	"sync"
	"syscall"
	"time"

	hclog "github.com/hashicorp/go-hclog"
	plugin "github.com/hashicorp/go-plugin"
	"google.golang.org/grpc"
	"verif/harness/vp"
)

// Config is read from $VP_CONFIG (JSON).
type Config struct {
	CookieKey   string                `json:"cookie_key"`
	CookieValue string                `json:"cookie_value"`
	Version     uint                  `json:"version"`   // legacy ProtocolVersion
	Legacy      *vp.SetSpec           `json:"legacy"`    // legacy Plugins (nil = none)
	Versioned   map[string]vp.SetSpec `json:"versioned"` // VersionedPlugins
	GRPCServer  bool                  `json:"grpc_server"`
	TLSCert     string                `json:"tls_cert"` // PEM files for a TLSProvider (static TLS)
	TLSKey      string                `json:"tls_key"`
	TLSClientCA string                `json:"tls_client_ca"`
	// behaviours
	CrashPoint     string `json:"crash_point"`  // exit(3) when this named point is reached
	PartialLine    string `json:"partial_line"` // print this (no newline) and exit instead of serving
	PreOutput      string `json:"pre_output"`   // written to real stdout before Serve
	Shutdown       string `json:"shutdown"`     // "" exit at once | "delay" | "ignore"
	ShutdownMs     int    `json:"shutdown_ms"`  // delay before exit for "delay"
	Marker         string `json:"marker"`       // file written by the deferred cleanup
	EarlyStdout    []byte `json:"early_stdout"` // written to os.Stdout right after Serve swapped it (before the host attaches)
	EarlyStderr    []byte `json:"early_stderr"`
	NoLogger       bool   `json:"no_logger"`
	DropClientCert bool   `json:"drop_client_cert"` // take no part in AutoMTLS (impostor / pre-AutoMTLS build)
	DropMuxEnv     bool   `json:"drop_mux_env"`     // behave like a plugin built before the multiplexing field existed
	JitterUs       int    `json:"jitter_us"`        // sleep up to this many microseconds at every verifhook point (schedule perturbation)
	LaunchLog      string `json:"launch_log"`       // append one byte to this file at every start of the process
	DelayPoint     string `json:"delay_point"`      // sleep DelayMs at this named verifhook point
	DelayMs        int    `json:"delay_ms"`
}

var (
	kvMu sync.Mutex
	kv   = map[string]string{}
	cfg  Config
)

func crashIf(point string) {
	if cfg.CrashPoint != "" && cfg.CrashPoint == point {
		os.Exit(3)
	}
}

func handler(tag string) vp.Handler {
	return func(r vp.Req, mux *plugin.MuxBroker, gb *plugin.GRPCBroker) vp.Resp {
		switch r.Op {
		case "tag":
			return vp.Resp{S: tag}
		case "pid":
			return vp.Resp{N: os.Getpid()}
		case "echo":
			return vp.Resp{Data: r.Data}
		case "big":
			return vp.Resp{Data: make([]byte, r.N)}
		case "set":
			kvMu.Lock()
			kv[r.K] = r.V
			kvMu.Unlock()
			return vp.Resp{}
		case "get":
			kvMu.Lock()
			v := kv[r.K]
			kvMu.Unlock()
			return vp.Resp{S: v}
		case "write":
			w := os.Stdout
			if r.K == "stderr" {
				w = os.Stderr
			}
			n, err := w.Write(r.Data)
			if err != nil {
				return vp.Resp{N: n, Err: err.Error()}
			}
			return vp.Resp{N: n}
		case "sleep":
			time.Sleep(time.Duration(r.N) * time.Millisecond)
			return vp.Resp{}
		case "exit":
			os.Exit(r.N)
		case "crash-in-call":
			crashIf("in-call")
			os.Exit(3)
		case "stream-chunk":
			if r.N == 1 {
				crashIf("in-stream")
			}
			time.Sleep(5 * time.Millisecond)
			return vp.Resp{N: r.N}
		case "accept":
			// the plugin accepts a brokered connection and serves "who" on it; returns the id
			return pluginAccept(mux, gb, r)
		case "dial":
			// the plugin dials an id the host accepted and asks who answers
			return pluginDial(mux, gb, r)
		case "nextid":
			if mux != nil {
				return vp.Resp{ID: mux.NextId()}
			}
			return vp.Resp{ID: gb.NextId()}
		case "who":
			return vp.Resp{S: tag}
		}
		return vp.Resp{Err: "unknown op " + r.Op}
	}
}

func whoHandler(id uint32) vp.Handler {
	return func(r vp.Req, mux *plugin.MuxBroker, gb *plugin.GRPCBroker) vp.Resp {
		switch r.Op {
		case "who":
			return vp.Resp{ID: id, S: "plugin-served"}
		case "echo":
			return vp.Resp{Data: r.Data}
		}
		return vp.Resp{Err: "unknown op"}
	}
}

func pluginAccept(mux *plugin.MuxBroker, gb *plugin.GRPCBroker, r vp.Req) vp.Resp {
	if mux != nil {
		id := r.ID
		if id == 0 && r.V != "id0" {
			id = mux.NextId()
		}
		if r.K == "crash" {
			go func() { time.Sleep(time.Duration(r.N) * time.Millisecond); os.Exit(3) }()
			return vp.Resp{ID: id}
		}
		go func() {
			if r.N > 0 {
				time.Sleep(time.Duration(r.N) * time.Millisecond)
			}
			mux.AcceptAndServe(id, vp.NetService(whoHandler(id), mux))
		}()
		return vp.Resp{ID: id}
	}
	id := r.ID
	if id == 0 && r.V != "id0" { // V = "id0": the id 0 itself is meant (ids are the caller's choice)
		id = gb.NextId()
	}
	if r.K == "crash" {
		go func() { time.Sleep(time.Duration(r.N) * time.Millisecond); os.Exit(3) }()
		return vp.Resp{ID: id}
	}
	go func() {
		if r.N > 0 {
			time.Sleep(time.Duration(r.N) * time.Millisecond)
		}
		gb.AcceptAndServe(id, func(opts []grpc.ServerOption) *grpc.Server {
			if r.K == "slow" {
				// a brokered server that takes a while to set up: the stream may arrive before it calls Accept
				time.Sleep(time.Duration(r.N2) * time.Millisecond)
			}
			s := grpc.NewServer(opts...)
			vp.Register(s, whoHandler(id), gb)
			return s
		})
	}()
	return vp.Resp{ID: id}
}

func pluginDial(mux *plugin.MuxBroker, gb *plugin.GRPCBroker, r vp.Req) vp.Resp {
	if r.K == "crash" {
		// promise to dial, die instead
		go func() { time.Sleep(time.Duration(r.N) * time.Millisecond); os.Exit(3) }()
		return vp.Resp{ID: r.ID}
	}
	if r.N > 0 {
		time.Sleep(time.Duration(r.N) * time.Millisecond)
	}
	if mux != nil {
		conn, err := mux.Dial(r.ID)
		if err != nil {
			return vp.Resp{Err: "dial: " + err.Error()}
		}
		defer conn.Close()
		c := vp.NewNetCaller(newRPCClient(conn), mux)
		out, err := c.Call(vp.Req{Op: "who"})
		if err != nil {
			return vp.Resp{Err: "call: " + err.Error()}
		}
		return vp.Resp{ID: out.ID, S: out.S}
	}
	cc, err := gb.Dial(r.ID)
	if err != nil {
		return vp.Resp{Err: "dial: " + err.Error()}
	}
	defer cc.Close()
	if r.N2 > 0 {
		// hold the dialled connection before its first use
		time.Sleep(time.Duration(r.N2) * time.Millisecond)
	}
	out, err := vp.NewGRPCCaller(cc, gb).Call(vp.Req{Op: "who"})
	if err != nil {
		return vp.Resp{Err: "call: " + err.Error()}
	}
	if r.K == "peer-tls" {
		// also report how the serving (host) side sees this connection
		sec, err := vp.NewGRPCCaller(cc, gb).Call(vp.Req{Op: "peer-tls"})
		if err != nil {
			return vp.Resp{Err: "call: " + err.Error()}
		}
		return vp.Resp{ID: out.ID, S: sec.S}
	}
	return vp.Resp{ID: out.ID, S: out.S}
}

func vmain() {
	// the plugin does not go away on SIGTERM (plugins are free to handle it): what ends it is the shutdown request or a real kill
	signal.Ignore(syscall.SIGTERM)
	if err := json.Unmarshal([]byte(os.Getenv("VP_CONFIG")), &cfg); err != nil {
		fmt.Fprintln(os.Stderr, "vplugin: bad VP_CONFIG:", err)
		os.Exit(2)
	}
	if cfg.LaunchLog != "" {
		if f, err := os.OpenFile(cfg.LaunchLog, os.O_APPEND|os.O_CREATE|os.O_WRONLY, 0o644); err == nil {
			f.Write([]byte{'x'})
			f.Close()
		}
	}
	if cfg.Marker != "" {
		defer func() { os.WriteFile(cfg.Marker, []byte("clean-exit"), 0o644) }()
	}
	if cfg.DropClientCert {
		os.Unsetenv("PLUGIN_CLIENT_CERT")
	}
	if cfg.DropMuxEnv {
		os.Unsetenv("PLUGIN_MULTIPLEX_GRPC")
	}
	crashIf("before-output")
	if cfg.PreOutput != "" {
		io.WriteString(os.Stdout, cfg.PreOutput)
	}
	if cfg.PartialLine != "" {
		io.WriteString(os.Stdout, cfg.PartialLine)
		os.Stdout.Sync()
		os.Exit(3)
	}
	sc := &plugin.ServeConfig{
		HandshakeConfig: plugin.HandshakeConfig{ProtocolVersion: cfg.Version, MagicCookieKey: cfg.CookieKey, MagicCookieValue: cfg.CookieValue},
	}
	if cfg.Legacy != nil {
		sc.Plugins = vp.MakeSet(*cfg.Legacy, handler(cfg.Legacy.Tag))
	}
	if cfg.Versioned != nil {
		sc.VersionedPlugins = map[int]plugin.PluginSet{}
		for k, s := range cfg.Versioned {
			v, _ := strconv.Atoi(k)
			sc.VersionedPlugins[v] = vp.MakeSet(s, handler(s.Tag))
		}
	}
	if cfg.GRPCServer {
		sc.GRPCServer = plugin.DefaultGRPCServer
	}
	if cfg.TLSCert != "" {
		sc.TLSProvider = func() (*tls.Config, error) {
			cert, err := tls.LoadX509KeyPair(cfg.TLSCert, cfg.TLSKey)
			if err != nil {
				return nil, err
			}
			c := &tls.Config{Certificates: []tls.Certificate{cert}, MinVersion: tls.VersionTLS12}
			if cfg.TLSClientCA != "" {
				pem, err := os.ReadFile(cfg.TLSClientCA)
				if err != nil {
					return nil, err
				}
				pool := x509.NewCertPool()
				pool.AppendCertsFromPEM(pem)
				c.ClientCAs = pool
				c.ClientAuth = tls.RequireAndVerifyClientCert
			}
			return c, nil
		}
	}
	if !cfg.NoLogger {
		sc.Logger = hclog.New(&hclog.LoggerOptions{Level: hclog.Error, Output: os.Stderr, JSONFormat: true})
	}
	installHooks()
	plugin.Serve(sc)
	// Serve returned: graceful shutdown requested
	switch cfg.Shutdown {
	case "delay":
		time.Sleep(time.Duration(cfg.ShutdownMs) * time.Millisecond)
	case "ignore":
		for {
			time.Sleep(time.Hour)
		}
	}
}
