package main

import "os"

func vmain() { os.Exit(0) }
