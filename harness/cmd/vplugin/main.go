// vplugin: the scripted plugin binary used by the correspondence harness.
package main

func main() { vmain() }
