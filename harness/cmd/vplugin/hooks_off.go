//go:build !verif

package main

import (
	"net"
	"net/rpc"
)

func installHooks() {}

func newRPCClient(conn net.Conn) *rpc.Client { return rpc.NewClient(conn) }
