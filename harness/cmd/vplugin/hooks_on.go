//go:build verif

package main

import (
	"net"
	"net/rpc"
	"os"
	"sync"

	plugin "github.com/hashicorp/go-plugin"
)

var earlyOnce sync.Once

// installHooks makes the named verifhook points of go-plugin act for this process: exit at the
// configured crash point; write the "before attach" stdio bytes once Serve has swapped os.Stdout.
func installHooks() {
	plugin.VerifSetHook(func(name string, id uint32) {
		crashIf(name)
		if name == "serve.stdio-swapped" {
			earlyOnce.Do(func() {
				if len(cfg.EarlyStdout) > 0 {
					os.Stdout.Write(cfg.EarlyStdout)
				}
				if len(cfg.EarlyStderr) > 0 {
					os.Stderr.Write(cfg.EarlyStderr)
				}
			})
		}
	})
}

func newRPCClient(conn net.Conn) *rpc.Client { return rpc.NewClient(conn) }
