//go:build verif

package main

import (
	"net"
	"net/rpc"
	"os"
	"strings"
	"sync"
	"sync/atomic"
	"time"

	plugin "github.com/hashicorp/go-plugin"
)

var earlyOnce sync.Once
var jitterState uint64

// installHooks makes the named verifhook points of go-plugin act for this process: exit at the
// configured crash point; write the "before attach" stdio bytes once Serve has swapped os.Stdout.
func installHooks() {
	plugin.VerifSetHook(func(name string, id uint32) {
		crashIf(name)
		if cfg.DelayPoint != "" {
			for _, dp := range strings.Split(cfg.DelayPoint, ",") {
				if dp == name {
					time.Sleep(time.Duration(cfg.DelayMs) * time.Millisecond)
				}
			}
		}
		if cfg.JitterUs > 0 {
			x := atomic.AddUint64(&jitterState, 0x9E3779B97F4A7C15)
			x ^= x >> 31
			time.Sleep(time.Duration(x%uint64(cfg.JitterUs)) * time.Microsecond)
		}
		if name == "serve.stdio-swapped" {
			earlyOnce.Do(func() {
				if len(cfg.EarlyStdout) > 0 {
					os.Stdout.Write(cfg.EarlyStdout)
				}
				if len(cfg.EarlyStderr) > 0 {
					os.Stderr.Write(cfg.EarlyStderr)
				}
			})
		}
	})
}

func newRPCClient(conn net.Conn) *rpc.Client { return rpc.NewClient(conn) }
