// Package hk is the shared kit of the correspondence harness: case sink, PRNG,
// quiet logger, helpers.
package hk

import (
	"bufio"
	"encoding/json"
	"fmt"
	"io"
	"math/rand"
	"os"
	"path/filepath"
	"sync"

	hclog "github.com/hashicorp/go-hclog"
	"verif/harness/sx"
)

// Sink collects "prop\tid\tinput\tobs" lines for modelrun and a JSON side file
// describing each case in replayable form.
type Sink struct {
	mu    sync.Mutex
	lines *bufio.Writer
	meta  *bufio.Writer
	lf    *os.File
	mf    *os.File
	N     int
}

func NewSink(dir, family string) (*Sink, error) {
	if err := os.MkdirAll(dir, 0o755); err != nil {
		return nil, err
	}
	lf, err := os.Create(filepath.Join(dir, family+".lines"))
	if err != nil {
		return nil, err
	}
	mf, err := os.Create(filepath.Join(dir, family+".meta.jsonl"))
	if err != nil {
		return nil, err
	}
	return &Sink{lines: bufio.NewWriterSize(lf, 1<<20), meta: bufio.NewWriterSize(mf, 1<<20), lf: lf, mf: mf}, nil
}

// Put records one executed case. desc must be JSON-serialisable and sufficient to re-run the case.
func (s *Sink) Put(prop int, id string, in, obs sx.V, desc interface{}) {
	s.mu.Lock()
	defer s.mu.Unlock()
	fmt.Fprintf(s.lines, "%d\t%s\t%s\t%s\n", prop, id, sx.String(in), sx.String(obs))
	m := map[string]interface{}{"id": id, "prop": prop, "case": desc}
	b, _ := json.Marshal(m)
	s.meta.Write(b)
	s.meta.WriteByte('\n')
	s.N++
}

// PutRaw records a case whose input/observation are already in wire form.
func (s *Sink) PutRaw(prop int, id, in, obs string, desc interface{}) {
	s.mu.Lock()
	defer s.mu.Unlock()
	fmt.Fprintf(s.lines, "%d\t%s\t%s\t%s\n", prop, id, in, obs)
	m := map[string]interface{}{"id": id, "prop": prop, "case": desc}
	b, _ := json.Marshal(m)
	s.meta.Write(b)
	s.meta.WriteByte('\n')
	s.N++
}

func (s *Sink) Close() {
	s.lines.Flush()
	s.meta.Flush()
	s.lf.Close()
	s.mf.Close()
}

func Rng(seed int64) *rand.Rand { return rand.New(rand.NewSource(seed)) }

func QuietLogger() hclog.Logger {
	return hclog.New(&hclog.LoggerOptions{Output: io.Discard, Level: hclog.NoLevel + 100})
}

// LoadCases reads a JSON array (or JSONL of {"case":...}) of cases for replay into out (pointer to slice).
func LoadCases(path string, out interface{}) error {
	b, err := os.ReadFile(path)
	if err != nil {
		return err
	}
	return json.Unmarshal(b, out)
}

func RandBytes(r *rand.Rand, n int) []byte {
	b := make([]byte, n)
	for i := range b {
		b[i] = byte(r.Intn(256))
	}
	return b
}

func Pick[T any](r *rand.Rand, xs []T) T { return xs[r.Intn(len(xs))] }
