package hk

import (
	"context"
	"errors"
	"io"
	"os/exec"
	"sync"
	"sync/atomic"

	hclog "github.com/hashicorp/go-hclog"
	"github.com/hashicorp/go-plugin/runner"
)

// Scripted is a fake runner.Runner: the "plugin process" is a pair of pipes the
// harness writes to. Kill (or Exit) ends the process: both pipes reach EOF and Wait returns.
type Scripted struct {
	StdoutW *io.PipeWriter
	StderrW *io.PipeWriter
	stdoutR *io.PipeReader
	stderrR *io.PipeReader

	exit         chan struct{}
	exitOnce     sync.Once
	Kills        int32
	RefusedKills int32 // Kill calls that arrived with a finished context
	Starts       int32
	Cmd          *exec.Cmd
	TmpDir       string
	StartErr     error
	// FailAfterLaunch makes Start launch the "process" (OnStart runs, the pipes stay open) and then report an error:
	// "now" at once, "ctx" when the start context is done (a runner that waits for readiness that never comes).
	FailAfterLaunch string
	// Unnamed: ID() is empty (a runner that has nothing to name because it launched nothing)
	Unnamed bool
	// Translate, when set, rewrites plugin addresses (PluginToHost).
	Translate func(network, addr string) (string, string, error)
	// OnStart runs in its own goroutine once Start was called.
	OnStart func(s *Scripted)
}

func NewScripted() *Scripted {
	s := &Scripted{exit: make(chan struct{})}
	s.stdoutR, s.StdoutW = io.Pipe()
	s.stderrR, s.StderrW = io.Pipe()
	return s
}

var _ runner.Runner = (*Scripted)(nil)

func (s *Scripted) Start(ctx context.Context) error {
	atomic.AddInt32(&s.Starts, 1)
	if s.StartErr != nil {
		return s.StartErr
	}
	if s.OnStart != nil {
		go s.OnStart(s)
	}
	switch s.FailAfterLaunch {
	case "now":
		return errLaunchedNotReady
	case "ctx":
		<-ctx.Done()
		return ctx.Err()
	}
	return nil
}

var errLaunchedNotReady = errors.New("scripted runner: launched, but the workload never became ready")

// Exit simulates the process exiting on its own.
func (s *Scripted) Exit() {
	s.exitOnce.Do(func() {
		s.StdoutW.Close()
		s.StderrW.Close()
		close(s.exit)
	})
}

func (s *Scripted) Exited() bool {
	select {
	case <-s.exit:
		return true
	default:
		return false
	}
}

func (s *Scripted) Wait(ctx context.Context) error { <-s.exit; return nil }
func (s *Scripted) Kill(ctx context.Context) error {
	// like a runner that talks to a container runtime or a remote agent: a request made with a context that is
	// already done is not carried out
	if err := ctx.Err(); err != nil {
		atomic.AddInt32(&s.RefusedKills, 1)
		return err
	}
	atomic.AddInt32(&s.Kills, 1)
	s.Exit()
	return nil
}
func (s *Scripted) KillCount() int        { return int(atomic.LoadInt32(&s.Kills)) }
func (s *Scripted) Stdout() io.ReadCloser { return s.stdoutR }
func (s *Scripted) Stderr() io.ReadCloser { return s.stderrR }
func (s *Scripted) Name() string          { return "scripted-plugin" }
func (s *Scripted) ID() string {
	if s.Unnamed {
		return ""
	}
	return "scripted-1"
}
func (s *Scripted) Diagnose(context.Context) string { return "" }
func (s *Scripted) PluginToHost(n, a string) (string, string, error) {
	if s.Translate != nil {
		return s.Translate(n, a)
	}
	return n, a, nil
}
func (s *Scripted) HostToPlugin(n, a string) (string, string, error) { return n, a, nil }

// RunnerFunc returns a ClientConfig.RunnerFunc handing out s and counting launches.
func (s *Scripted) RunnerFunc(launches *int32) func(hclog.Logger, *exec.Cmd, string) (runner.Runner, error) {
	return func(l hclog.Logger, cmd *exec.Cmd, tmp string) (runner.Runner, error) {
		if launches != nil {
			atomic.AddInt32(launches, 1)
		}
		s.Cmd = cmd
		s.TmpDir = tmp
		return s, nil
	}
}

// ScriptedFactory returns a ClientConfig.RunnerFunc that asks mk for a fresh scripted runner at every launch.
func ScriptedFactory(mk func() *Scripted) func(hclog.Logger, *exec.Cmd, string) (runner.Runner, error) {
	return func(l hclog.Logger, cmd *exec.Cmd, tmp string) (runner.Runner, error) {
		s := mk()
		s.Cmd = cmd
		s.TmpDir = tmp
		return s, nil
	}
}
