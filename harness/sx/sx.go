// Package sx prints the s-expression wire format shared with the OCaml model driver:
// integers in decimal, byte strings as xHEX, lists in parentheses.
package sx

import (
	"encoding/hex"
	"strconv"
	"strings"
)

type V interface{ write(*strings.Builder) }

type I int64
type B []byte
type L []V

func (i I) write(b *strings.Builder) { b.WriteString(strconv.FormatInt(int64(i), 10)) }
func (x B) write(b *strings.Builder) { b.WriteByte('x'); b.WriteString(hex.EncodeToString(x)) }
func (l L) write(b *strings.Builder) {
	b.WriteByte('(')
	for i, v := range l {
		if i > 0 {
			b.WriteByte(' ')
		}
		v.write(b)
	}
	b.WriteByte(')')
}

func Bool(x bool) V {
	if x {
		return I(1)
	}
	return I(0)
}
func S(s string) V { return B([]byte(s)) }

func String(v V) string {
	var b strings.Builder
	v.write(&b)
	return b.String()
}
