// Package vp is the plugin interface shared by the scripted plugin binary (vplugin) and the host
// drivers (hx): one generic request/response call, carried over net/rpc or over a hand-written
// gRPC service description (no protoc in the sandbox: the messages are wrapperspb.BytesValue).
package vp

import (
	"context"
	"encoding/json"
	"errors"
	"fmt"
	"io"
	"net/rpc"
	"time"

	plugin "github.com/hashicorp/go-plugin"
	"google.golang.org/grpc"
	"google.golang.org/grpc/credentials"
	"google.golang.org/grpc/peer"
	"google.golang.org/protobuf/types/known/wrapperspb"
)

// Req is one operation; Resp its answer. Both travel as JSON.
type Req struct {
	Op   string `json:"op"`
	K    string `json:"k,omitempty"`
	V    string `json:"v,omitempty"`
	N    int    `json:"n,omitempty"`
	N2   int    `json:"n2,omitempty"`
	ID   uint32 `json:"id,omitempty"`
	Data []byte `json:"data,omitempty"`
}
type Resp struct {
	S    string `json:"s,omitempty"`
	N    int    `json:"n,omitempty"`
	ID   uint32 `json:"id,omitempty"`
	Data []byte `json:"data,omitempty"`
	Err  string `json:"err,omitempty"`
}

// Handler is what a served implementation does with a request. Brokers are passed so that the
// implementation can accept/dial brokered connections.
type Handler func(req Req, mux *plugin.MuxBroker, gb *plugin.GRPCBroker) Resp

// Caller is what the host gets from Dispense.
type Caller interface {
	Call(req Req) (Resp, error)
	// Stream asks for n chunks on a server stream and returns how many arrived before it ended.
	Stream(n int) (int, error)
	Mux() *plugin.MuxBroker
	GRPC() *plugin.GRPCBroker
	Ctx() context.Context
}

// ---------------------------------------------------------------- net/rpc

type NetPlugin struct {
	Tag string
	H   Handler
}

type netServer struct {
	h   Handler
	mux *plugin.MuxBroker
}

func (s *netServer) Call(req []byte, resp *[]byte) error {
	var r Req
	if err := json.Unmarshal(req, &r); err != nil {
		return err
	}
	out := s.h(r, s.mux, nil)
	b, _ := json.Marshal(out)
	*resp = b
	return nil
}

func (p *NetPlugin) Server(b *plugin.MuxBroker) (interface{}, error) {
	return &netServer{h: p.H, mux: b}, nil
}

type netCaller struct {
	c   *rpc.Client
	mux *plugin.MuxBroker
}

func (c *netCaller) Call(req Req) (Resp, error) {
	b, _ := json.Marshal(req)
	var out []byte
	if err := c.c.Call("Plugin.Call", b, &out); err != nil {
		return Resp{}, err
	}
	var r Resp
	err := json.Unmarshal(out, &r)
	return r, err
}
func (c *netCaller) Stream(n int) (int, error) { return 0, errors.New("no streams over net/rpc") }
func (c *netCaller) Mux() *plugin.MuxBroker    { return c.mux }
func (c *netCaller) GRPC() *plugin.GRPCBroker  { return nil }
func (c *netCaller) Ctx() context.Context      { return nil }
func (p *NetPlugin) Client(b *plugin.MuxBroker, c *rpc.Client) (interface{}, error) {
	return &netCaller{c: c, mux: b}, nil
}

// NewNetCaller wraps an rpc client obtained over a brokered connection.
func NewNetCaller(c *rpc.Client, b *plugin.MuxBroker) Caller { return &netCaller{c: c, mux: b} }

// NetService returns the value to serve under the name "Plugin" on a brokered net/rpc connection.
func NetService(h Handler, b *plugin.MuxBroker) interface{} { return &netServer{h: h, mux: b} }

// ---------------------------------------------------------------- gRPC

type GRPCPlugin struct {
	plugin.NetRPCUnsupportedPlugin
	Tag string
	H   Handler
}

type grpcImpl struct {
	h  Handler
	gb *plugin.GRPCBroker
}

type vpServer interface {
	call(ctx context.Context, in *wrapperspb.BytesValue) (*wrapperspb.BytesValue, error)
	stream(in *wrapperspb.BytesValue, s grpc.ServerStream) error
}

func (g *grpcImpl) call(ctx context.Context, in *wrapperspb.BytesValue) (*wrapperspb.BytesValue, error) {
	var r Req
	if err := json.Unmarshal(in.Value, &r); err != nil {
		return nil, err
	}
	var out Resp
	if r.Op == "peer-tls" {
		// how this connection is secured, as the serving side sees it
		out = Resp{S: "plaintext"}
		if p, ok := peer.FromContext(ctx); ok && p.AuthInfo != nil {
			if _, isTLS := p.AuthInfo.(credentials.TLSInfo); isTLS {
				out = Resp{S: "tls"}
			}
		}
	} else {
		out = g.h(r, nil, g.gb)
	}
	b, _ := json.Marshal(out)
	return &wrapperspb.BytesValue{Value: b}, nil
}

func (g *grpcImpl) stream(in *wrapperspb.BytesValue, s grpc.ServerStream) error {
	var r Req
	if err := json.Unmarshal(in.Value, &r); err != nil {
		return err
	}
	for i := 0; i < r.N; i++ {
		out := g.h(Req{Op: "stream-chunk", N: i}, nil, g.gb)
		b, _ := json.Marshal(out)
		if err := s.SendMsg(&wrapperspb.BytesValue{Value: b}); err != nil {
			return err
		}
	}
	return nil
}

func callHandler(srv interface{}, ctx context.Context, dec func(interface{}) error, interceptor grpc.UnaryServerInterceptor) (interface{}, error) {
	in := new(wrapperspb.BytesValue)
	if err := dec(in); err != nil {
		return nil, err
	}
	if interceptor == nil {
		return srv.(vpServer).call(ctx, in)
	}
	info := &grpc.UnaryServerInfo{Server: srv, FullMethod: "/verif.VP/Call"}
	return interceptor(ctx, in, info, func(ctx context.Context, req interface{}) (interface{}, error) {
		return srv.(vpServer).call(ctx, req.(*wrapperspb.BytesValue))
	})
}

func streamHandler(srv interface{}, stream grpc.ServerStream) error {
	in := new(wrapperspb.BytesValue)
	if err := stream.RecvMsg(in); err != nil {
		return err
	}
	return srv.(vpServer).stream(in, stream)
}

// ServiceDesc is the hand-written description of service verif.VP.
var ServiceDesc = grpc.ServiceDesc{
	ServiceName: "verif.VP",
	HandlerType: (*vpServer)(nil),
	Methods:     []grpc.MethodDesc{{MethodName: "Call", Handler: callHandler}},
	Streams:     []grpc.StreamDesc{{StreamName: "Stream", Handler: streamHandler, ServerStreams: true}},
	Metadata:    "verif/vp",
}

// Register serves h on s (used for the main plugin service and for brokered servers).
func Register(s *grpc.Server, h Handler, gb *plugin.GRPCBroker) {
	s.RegisterService(&ServiceDesc, &grpcImpl{h: h, gb: gb})
}

func (p *GRPCPlugin) GRPCServer(b *plugin.GRPCBroker, s *grpc.Server) error {
	Register(s, p.H, b)
	return nil
}

type grpcCaller struct {
	ctx context.Context
	cc  *grpc.ClientConn
	gb  *plugin.GRPCBroker
}

func (c *grpcCaller) Call(req Req) (Resp, error) {
	b, _ := json.Marshal(req)
	out := new(wrapperspb.BytesValue)
	if err := c.cc.Invoke(context.Background(), "/verif.VP/Call", &wrapperspb.BytesValue{Value: b}, out); err != nil {
		return Resp{}, err
	}
	var r Resp
	err := json.Unmarshal(out.Value, &r)
	return r, err
}

func (c *grpcCaller) Stream(n int) (int, error) {
	desc := &grpc.StreamDesc{StreamName: "Stream", ServerStreams: true}
	st, err := c.cc.NewStream(context.Background(), desc, "/verif.VP/Stream")
	if err != nil {
		return 0, err
	}
	b, _ := json.Marshal(Req{Op: "stream", N: n})
	if err := st.SendMsg(&wrapperspb.BytesValue{Value: b}); err != nil {
		return 0, err
	}
	if err := st.CloseSend(); err != nil {
		return 0, err
	}
	got := 0
	for {
		m := new(wrapperspb.BytesValue)
		err := st.RecvMsg(m)
		if err == io.EOF {
			return got, nil
		}
		if err != nil {
			return got, err
		}
		got++
	}
}
func (c *grpcCaller) Mux() *plugin.MuxBroker   { return nil }
func (c *grpcCaller) GRPC() *plugin.GRPCBroker { return c.gb }
func (c *grpcCaller) Ctx() context.Context     { return c.ctx }

func (p *GRPCPlugin) GRPCClient(ctx context.Context, b *plugin.GRPCBroker, cc *grpc.ClientConn) (interface{}, error) {
	return &grpcCaller{ctx: ctx, cc: cc, gb: b}, nil
}

// NewGRPCCaller wraps a brokered client connection.
func NewGRPCCaller(cc *grpc.ClientConn, gb *plugin.GRPCBroker) Caller {
	return &grpcCaller{ctx: context.Background(), cc: cc, gb: gb}
}

// ---------------------------------------------------------------- plugin sets

// SetSpec describes one plugin set: its identity tag and wire kind.
type SetSpec struct {
	Tag  string `json:"tag"`
	Kind string `json:"kind"` // netrpc | grpc | empty
}

// MakeSet builds the PluginSet for spec; the single plugin is registered under the name "vp".
func MakeSet(spec SetSpec, h Handler) plugin.PluginSet {
	switch spec.Kind {
	case "netrpc":
		return plugin.PluginSet{"vp": &NetPlugin{Tag: spec.Tag, H: h}}
	case "grpc":
		return plugin.PluginSet{"vp": &GRPCPlugin{Tag: spec.Tag, H: h}}
	}
	return plugin.PluginSet{}
}

func (r Resp) Error() error {
	if r.Err != "" {
		return fmt.Errorf("%s", r.Err)
	}
	return nil
}

// Bounded wraps a Caller so that no call made by a driver can block it for ever (a change under test can turn any call
// into a hang): a call that does not return within d yields an error and is left behind.
type boundedCaller struct {
	Caller
	d time.Duration
}

func Bounded(c Caller, d time.Duration) Caller { return &boundedCaller{Caller: c, d: d} }

func (b *boundedCaller) Call(req Req) (Resp, error) {
	type res struct {
		r Resp
		e error
	}
	ch := make(chan res, 1)
	go func() { r, e := b.Caller.Call(req); ch <- res{r, e} }()
	select {
	case x := <-ch:
		return x.r, x.e
	case <-time.After(b.d):
		return Resp{}, errors.New("harness: call did not return in time")
	}
}

func (b *boundedCaller) Stream(n int) (int, error) {
	type res struct {
		n int
		e error
	}
	ch := make(chan res, 1)
	go func() { k, e := b.Caller.Stream(n); ch <- res{k, e} }()
	select {
	case x := <-ch:
		return x.n, x.e
	case <-time.After(b.d):
		return 0, errors.New("harness: stream did not return in time")
	}
}
