(* Extraction of the executable models.  ExtrOcamlBasic only: its directives are
   Extract Inductive for bool, option, unit, list, prod, sumbool, sumor.
   N, Z, positive, nat stay Coq datatypes.  No Extract Constant. *)
From Coq Require Import Extraction ExtrOcamlBasic ZArith.
From GP Require Import Base.Val Entry.
Extraction Language OCaml.
Extraction "model.ml" check_prop Z.add Z.mul Z.opp Z.div_eucl.
