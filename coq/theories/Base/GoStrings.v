(* Byte-exact models of the Go standard-library string functions go-plugin's
   handshake code relies on: strings.Split (single-byte separator),
   strings.TrimSpace, strconv.Atoi, strconv.ParseBool, strconv.Itoa.
   They are oracles of the property theorems in the sense that the Go
   implementations are not verified; the correspondence family "gostrings"
   runs these definitions against the real functions on every check. *)
From Coq Require Import List NArith ZArith Bool String Ascii Lia.
From GP Require Import Base.Val Base.Bytes.
Import ListNotations.
Open Scope N_scope.

(* ---- strings.Split(s, sep) for a one-byte separator: always n+1 fields *)
Fixpoint split_acc (sep : N) (s : bytes) (cur : bytes) : list bytes :=
  match s with
  | [] => [frev cur]
  | c :: r => if N.eqb c sep then frev cur :: split_acc sep r [] else split_acc sep r (c :: cur)
  end.
Definition split (sep : N) (s : bytes) : list bytes := split_acc sep s [].

(* ---- strings.TrimSpace: unicode.IsSpace over UTF-8, byte exact.
   White space code points and their encodings:
   ASCII 09 0A 0B 0C 0D 20; U+0085 = C2 85; U+00A0 = C2 A0; U+1680 = E1 9A 80;
   U+2000..U+200A = E2 80 80..8A; U+2028 = E2 80 A8; U+2029 = E2 80 A9;
   U+202F = E2 80 AF; U+205F = E2 81 9F; U+3000 = E3 80 80. *)
Definition ascii_space (c : N) : bool :=
  (N.leb 9 c && N.leb c 13) || N.eqb c 32.

(* length of the white-space token at the head of s, 0 if none.  Written with explicit byte tests (nth with default 0:
   no white-space encoding contains a zero byte, so a short string never matches) *)
Definition uni_space_third (e : N) : bool :=
  (N.leb 128 e && N.leb e 138) || N.eqb e 168 || N.eqb e 169 || N.eqb e 175.

Definition space_prefix_len (s : bytes) : nat :=
  match s with
  | c :: r =>
    let d := nth 0 r 0 in let e := nth 1 r 0 in
    if ascii_space c then 1%nat
    else if N.eqb c 194 && (N.eqb d 133 || N.eqb d 160) then 2%nat
    else if N.eqb c 225 && N.eqb d 154 && N.eqb e 128 then 3%nat
    else if N.eqb c 226 && N.eqb d 128 && uni_space_third e then 3%nat
    else if N.eqb c 226 && N.eqb d 129 && N.eqb e 159 then 3%nat
    else if N.eqb c 227 && N.eqb d 128 && N.eqb e 128 then 3%nat
    else 0%nat
  | [] => 0%nat
  end.

(* the same token test on the reversed string (so the token's bytes appear reversed) *)
Definition space_suffix_len_rev (s : bytes) : nat :=
  match s with
  | c :: r =>
    let d := nth 0 r 0 in let e := nth 1 r 0 in
    if ascii_space c then 1%nat
    else if (N.eqb c 133 || N.eqb c 160) && N.eqb d 194 then 2%nat
    else if N.eqb c 128 && N.eqb d 154 && N.eqb e 225 then 3%nat
    else if N.eqb c 159 && N.eqb d 129 && N.eqb e 226 then 3%nat
    else if N.eqb c 128 && N.eqb d 128 && N.eqb e 227 then 3%nat
    else if uni_space_third c && N.eqb d 128 && N.eqb e 226 then 3%nat
    else 0%nat
  | [] => 0%nat
  end.

Fixpoint trim_left_fuel (fuel : nat) (s : bytes) : bytes :=
  match fuel with
  | O => s
  | S f => match space_prefix_len s with
           | O => s
           | n => trim_left_fuel f (skipn n s)
           end
  end.
Definition trim_left (s : bytes) : bytes := trim_left_fuel (List.length s) s.

Fixpoint trim_right_rev_fuel (fuel : nat) (s : bytes) : bytes :=
  match fuel with
  | O => s
  | S f => match space_suffix_len_rev s with
           | O => s
           | n => trim_right_rev_fuel f (skipn n s)
           end
  end.
Definition trim_right (s : bytes) : bytes :=
  frev (trim_right_rev_fuel (List.length s) (frev s)).

Definition trim_space (s : bytes) : bytes := trim_right (trim_left s).

(* ---- strconv.Atoi: optional sign, one or more ASCII digits, int64 range *)
Definition is_digit (c : N) : bool := N.leb 48 c && N.leb c 57.

Fixpoint digits_val (s : bytes) (acc : Z) : option Z :=
  match s with
  | [] => Some acc
  | c :: r => if is_digit c then digits_val r (acc * 10 + Z.of_N (c - 48))%Z else None
  end.

Definition int_min : Z := (- 9223372036854775808)%Z.
Definition int_max : Z := 9223372036854775807%Z.

Definition atoi (s : bytes) : option Z :=
  let '(neg, body) :=
    match s with
    | 43 :: r => (false, r)
    | 45 :: r => (true, r)
    | _ => (false, s)
    end in
  match body with
  | [] => None
  | _ =>
    match digits_val body 0%Z with
    | None => None
    | Some v =>
      let v' := if neg then (- v)%Z else v in
      if (Z.leb int_min v' && Z.leb v' int_max)%bool then Some v' else None
    end
  end.

(* ---- strconv.ParseBool *)
Definition parse_bool (s : bytes) : option bool :=
  if mem_bytes s [bs "1"; bs "t"; bs "T"; bs "TRUE"; bs "true"; bs "True"] then Some true
  else if mem_bytes s [bs "0"; bs "f"; bs "F"; bs "FALSE"; bs "false"; bs "False"] then Some false
  else None.

(* ---- strconv.Itoa *)
Fixpoint pos_digits_fuel (fuel : nat) (n : Z) (acc : bytes) : bytes :=
  match fuel with
  | O => acc
  | S f => if (n <? 10)%Z then (Z.to_N n + 48) :: acc
           else pos_digits_fuel f (n / 10)%Z ((Z.to_N (n mod 10) + 48) :: acc)
  end.
Definition itoa (z : Z) : bytes :=
  if (z <? 0)%Z then 45 :: pos_digits_fuel 70 (- z)%Z [] else pos_digits_fuel 70 z [].

(* ---- glue for the "gostrings" correspondence family:
   input (op, bytes) ; obs: op 0 split '|' -> list; 1 trim; 2 atoi -> (ok v); 3 parsebool -> (ok v); 4 itoa of atoi *)
Definition obs_gostrings (inp : V) : option V :=
  match inp with
  | VL [VI 0%Z; VB s] => Some (VL (map VB (split 124 s)))
  | VL [VI 1%Z; VB s] => Some (VB (trim_space s))
  | VL [VI 2%Z; VB s] => Some (match atoi s with Some v => VL [VI 1%Z; VI v] | None => VL [VI 0%Z; VI 0%Z] end)
  | VL [VI 3%Z; VB s] => Some (match parse_bool s with Some v => VL [VI 1%Z; vbool v] | None => VL [VI 0%Z; VI 0%Z] end)
  | VL [VI 4%Z; VI z] => Some (VB (itoa z))
  | VL [VI 5%Z; VB s] => Some (VL (map VB (split 44 s)))
  | _ => None
  end.

Definition check_gostrings (inp obs : V) : verdict :=
  match obs_gostrings inp with
  | Some m => {| v_decoded := true; v_agree := V_eqb m obs; v_oracle_impl := true; v_oracle_model := true;
                 v_model_obs := m; v_branch := match inp with VL (o :: _) => o | _ => VL [] end |}
  | None => bad_case
  end.
