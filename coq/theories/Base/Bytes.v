(* Byte strings as lists of N (each < 256), with literals from Coq strings. *)
From Coq Require Import List NArith ZArith Bool String Ascii.
From GP Require Import Base.Val.
Import ListNotations.

Fixpoint bs (s : string) : bytes :=
  match s with
  | EmptyString => []
  | String a r => N_of_ascii a :: bs r
  end.

Definition wf_byte (b : N) : bool := N.ltb b 256.
Definition wf_bytes (l : bytes) : bool := forallb wf_byte l.

Fixpoint has_prefix (p s : bytes) : bool :=
  match p, s with
  | [], _ => true
  | x :: p', y :: s' => N.eqb x y && has_prefix p' s'
  | _ :: _, [] => false
  end.

Fixpoint mem_bytes (x : bytes) (l : list bytes) : bool :=
  match l with [] => false | y :: r => bytes_eqb x y || mem_bytes x r end.

Fixpoint memZ (x : Z) (l : list Z) : bool :=
  match l with [] => false | y :: r => Z.eqb x y || memZ x r end.

Fixpoint join (sep : bytes) (l : list bytes) : bytes :=
  match l with
  | [] => []
  | [x] => x
  | x :: r => x ++ sep ++ join sep r
  end.

(* linear-time reverse (List.rev is quadratic, which matters for 64 KiB lines in the extracted model);
   equal to List.rev by List.rev_alt *)
Definition frev {A} (l : list A) : list A := rev_append l [].
Lemma frev_rev {A} (l : list A) : frev l = rev l.
Proof. unfold frev. symmetry. apply rev_alt. Qed.
