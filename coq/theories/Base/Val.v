(* Generic value type used on the wire between the Go harness, the extracted
   OCaml driver and the typed models.  This is glue: no property theorem is
   stated about V, only about the typed models the decoders feed. *)
From Coq Require Import List NArith ZArith Bool.
Import ListNotations.

Definition byte := N.
Definition bytes := list N.

Inductive V :=
| VI (z : Z)
| VB (b : bytes)
| VL (l : list V).

Definition vbool (b : bool) : V := VI (if b then 1 else 0)%Z.
Definition vnat (n : nat) : V := VI (Z.of_nat n).
Definition vN (n : N) : V := VI (Z.of_N n).

Definition dI (v : V) : option Z := match v with VI z => Some z | _ => None end.
Definition dB (v : V) : option bytes := match v with VB b => Some b | _ => None end.
Definition dL (v : V) : option (list V) := match v with VL l => Some l | _ => None end.
Definition dbool (v : V) : option bool :=
  match v with VI z => Some (negb (Z.eqb z 0)) | _ => None end.
Definition dnat (v : V) : option nat :=
  match v with VI z => Some (Z.to_nat z) | _ => None end.
Definition dN (v : V) : option N :=
  match v with VI z => Some (Z.to_N z) | _ => None end.

Definition obind {A B} (o : option A) (f : A -> option B) : option B :=
  match o with Some a => f a | None => None end.
Notation "x <- e ;; k" := (obind e (fun x => k)) (at level 61, e at next level, right associativity).

Fixpoint omap {A B} (f : A -> option B) (l : list A) : option (list B) :=
  match l with
  | [] => Some []
  | a :: r => b <- f a ;; bs <- omap f r ;; Some (b :: bs)
  end.

Definition dlist {A} (f : V -> option A) (v : V) : option (list A) :=
  l <- dL v ;; omap f l.

Fixpoint bytes_eqb (a b : bytes) : bool :=
  match a, b with
  | [], [] => true
  | x :: a', y :: b' => N.eqb x y && bytes_eqb a' b'
  | _, _ => false
  end.

Fixpoint V_eqb (a b : V) {struct a} : bool :=
  match a, b with
  | VI x, VI y => Z.eqb x y
  | VB x, VB y => bytes_eqb x y
  | VL x, VL y =>
      (fix go (l1 l2 : list V) : bool :=
         match l1, l2 with
         | [], [] => true
         | h1 :: t1, h2 :: t2 => V_eqb h1 h2 && go t1 t2
         | _, _ => false
         end) x y
  | _, _ => false
  end.

(* the answer every property's [check] entry point gives back to the driver *)
Record verdict := {
  v_decoded : bool;      (* the case line was understood *)
  v_agree : bool;        (* implementation observation = model observation (or accepted by the model) *)
  v_oracle_impl : bool;  (* the property oracle accepts the implementation's observation *)
  v_oracle_model : bool; (* the property oracle accepts the model's observation (sanity; proved true) *)
  v_model_obs : V;       (* what the model predicts, for the report *)
  v_branch : V           (* which model branch the case exercised, for coverage *)
}.

Definition bad_case : verdict :=
  {| v_decoded := false; v_agree := false; v_oracle_impl := false; v_oracle_model := false;
     v_model_obs := VL []; v_branch := VL [] |}.
