(* The whole of Client.Start (client.go) as a composition of the stage models, for the launching methods:
     option checks (LaunchOpts) -> SecureConfig check (Secure) -> RunnerFunc / NewCmdRunner -> runner.Start (StartFail)
       -> the wait for the handshake line and its processing (Handshake),
   with what is left behind at each way out.  Executable definitions only. *)
From Coq Require Import List NArith ZArith Bool.
From GP Require Import Base.Val Base.Bytes Model.Negotiate Model.Handshake Model.LaunchOpts Model.StartFail.
From GP Require Model.Secure.
Import ListNotations.

(* what the environment decides during one Start *)
Record start_world := {
  w_checksum : bytes; w_hash_present : bool; w_file : Secure.file_res;   (* SecureConfig and the binary on disk *)
  w_factory_fails : bool;          (* RunnerFunc returns an error (MkdirTemp has already run) *)
  w_runner_start : option (bool * bool);   (* runner.Start reports an error: Some (launched something, names it) *)
  w_hs_cfg : hs_cfg; w_oracle : hs_oracle; w_out : bytes; w_term : term      (* what the plugin prints *)
}.

(* where Start returned *)
Inductive stage := AtOptions (code : Z) | AtSecure | AtFactory | AtRunnerStart | AtHandshake (o : outcome) | Reattaches.

(* what Start leaves behind: the client-side state of Model/StartFail.v, whether a process / workload was launched at
   all, and whether Start itself killed it before returning *)
Record start_end := {
  e_stage : stage;
  e_error : bool;
  e_launched : bool;
  e_killed_by_start : bool;
  e_client : sf_client
}.

Definition no_client : sf_client :=
  {| sc_runner := false; sc_named := false; sc_dir := false; sc_workload := false; sc_kills := 0 |}.

Definition is_ok (o : outcome) : bool := match o with OOk _ => true | _ => false end.

Definition start_pipeline (PL : lo_params) (PS : sf_params) (PH : hs_params) (opts : lo_cfg) (w : start_world)
  : list start_end :=
  let k := option_check PL opts in
  if negb (Z.eqb k 0) then
    [{| e_stage := AtOptions k; e_error := true; e_launched := false; e_killed_by_start := false; e_client := no_client |}]
  else
  match method_used opts with
  | MReattach => [{| e_stage := Reattaches; e_error := false; e_launched := false; e_killed_by_start := false; e_client := no_client |}]
  | m =>
    let byrunner := match m with MRunner => true | _ => false end in
    let l := if byrunner then SfRunner else SfCmd in
    if l_secure opts && negb (Secure.launched (Secure.start_secure (w_checksum w) (w_hash_present w) (w_file w))) then
      [{| e_stage := AtSecure; e_error := true; e_launched := false; e_killed_by_start := false; e_client := no_client |}]
    else if byrunner && w_factory_fails w then
      (* the directory exists, no runner was obtained *)
      [{| e_stage := AtFactory; e_error := true; e_launched := false; e_killed_by_start := false;
          e_client := {| sc_runner := false; sc_named := false; sc_dir := true; sc_workload := false; sc_kills := 0 |} |}]
    else
    match w_runner_start w with
    | Some (launched, named) =>
        [{| e_stage := AtRunnerStart; e_error := true; e_launched := launched; e_killed_by_start := false;
            e_client := failed_runner_start PS l launched named |}]
    | None =>
        map (fun r =>
               let ok := is_ok (fst r) in
               (* the clean-up's kill is carried out by any runner only if its context is not the (possibly expired) start context *)
               let killed := has_kill (snd r) && sf_start_kill_ctx_fresh PS in
               {| e_stage := AtHandshake (fst r); e_error := negb ok; e_launched := true; e_killed_by_start := killed;
                  e_client := {| sc_runner := true; sc_named := true; sc_dir := byrunner; sc_workload := negb killed;
                                 sc_kills := if killed then 1 else 0 |} |})
            (start_after_launch PH (w_hs_cfg w) (w_oracle w) (w_out w) (w_term w))
    end
  end.

(* ---- glue for the family "startpipe": input ((cmd reattach runner secure mux) secure_file factory_fails runner_start
   hs_cfg hs_oracle out term); secure_file: 0 the binary matches, 1 it does not, 2 it cannot be read;
   runner_start: 0 succeeds, 1 fails after launching (named), 2 fails before launching (named), 3 fails before launching (unnamed);
   obs (stage code error launched killed_by_start workload_gone_after_kill dir_gone_after_kill);
   stage: 1 options, 2 secure, 3 factory, 4 runner.Start, 5 handshake, 6 reattach *)
Definition stage_code (s : stage) : Z * Z :=
  match s with
  | AtOptions k => (1, k) | AtSecure => (2, 0) | AtFactory => (3, 0) | AtRunnerStart => (4, 0)
  | AtHandshake o => (5, match o with OOk _ => 0 | OErr e => err_code e | OPanic => 99 end)
  | Reattaches => (6, 0)
  end%Z.

Definition enc_end (PS : sf_params) (e : start_end) : V :=
  let after := sf_kills PS 1 (e_client e) in
  VL [VI (fst (stage_code (e_stage e))); VI (snd (stage_code (e_stage e))); vbool (e_error e); vbool (e_launched e);
      vbool (e_killed_by_start e); vbool (negb (sc_workload after)); vbool (negb (sc_dir after))].

Definition dworld (sf : Z) (ff : bool) (rs : Z) (c : hs_cfg) (o : hs_oracle) (out : bytes) (t : term) : start_world :=
  {| w_checksum := [1%N]; w_hash_present := true;
     w_file := if Z.eqb sf 0 then Secure.FileDigest [1%N] else if Z.eqb sf 1 then Secure.FileDigest [2%N] else Secure.FileErr;
     w_factory_fails := ff;
     w_runner_start := if Z.eqb rs 0 then None else if Z.eqb rs 1 then Some (true, true) else if Z.eqb rs 2 then Some (false, true) else Some (false, false);
     w_hs_cfg := c; w_oracle := o; w_out := out; w_term := t |}.

Definition check_startpipe (PL : lo_params) (PS : sf_params) (PH : hs_params) (inp obs : V) : verdict :=
  match inp with
  | VL [VL [a; b; c; d; e]; VI sf; ff; VI rs; cfg; orc; VB out; tm] =>
      match dbool a, dbool b, dbool c, dbool d, dbool e, dbool ff, dcfg cfg, doracle orc, dterm tm with
      | Some a, Some b, Some c, Some d, Some e, Some ff, Some hc, Some o, Some t =>
          let opts := {| l_cmd := a; l_reattach := b; l_runner := c; l_secure := d; l_mux := e |} in
          let ends := start_pipeline PL PS PH opts (dworld sf ff rs hc o out t) in
          let rs' := map (enc_end PS) ends in
          let prop (v : V) : bool :=
            match v with
            | VL [_; _; er; la; ki; wg; dg] =>
                match dbool er, dbool la, dbool ki, dbool wg, dbool dg with
                | Some er, Some la, Some ki, Some wg, Some dg =>
                    (* the property: an error after a launch means killed by Start or by the later Kill; and the later
                       Kill removes the directory whenever a runner was obtained (every stage past the factory) *)
                    if er && la then (ki || wg) && dg else true
                | _, _, _, _, _ => false
                end
            | _ => false
            end in
          {| v_decoded := true;
             v_agree := existsb (fun m => V_eqb m obs) rs';
             v_oracle_impl := prop obs;
             v_oracle_model := forallb prop rs';
             v_model_obs := VL rs';
             v_branch := match rs' with VL (st :: k :: _) :: _ => VL [st; k] | _ => VL [] end |}
      | _, _, _, _, _, _, _, _, _ => bad_case
      end
  | _ => bad_case
  end.
