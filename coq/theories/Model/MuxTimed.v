(* A timed driver on top of the MuxBroker transition system, used only by the correspondence check:
   a history of API calls with their issue times (ms) is turned into a schedule (all enabled
   non-timer steps are run to quiescence after every event; a 5 s timer fires at its deadline if the
   thread is still parked) and the outcome of every call is read off.  The histories the harness
   generates keep every event >= 1 s away from every timer deadline, so the real outcome does not
   depend on the Go scheduler. *)
From Coq Require Import List NArith ZArith Bool PeanoNat.
From GP Require Import Base.Val Model.MuxBroker.
Import ListNotations.

Definition window : N := 5000.

Record tst := { ts : st; born : list (tid * N); now : N }.

(* lowest thread id whose Step is enabled *)
Fixpoint first_enabled (P : params) (s : st) (t n : nat) : option st :=
  match n with
  | O => None
  | S n' => match step P s (Step t) with
            | Some s' => Some s'
            | None => first_enabled P s (S t) n'
            end
  end.

Fixpoint settle (fuel : nat) (P : params) (s : st) : st :=
  match fuel with
  | O => s
  | S f => match first_enabled P s 0 (ntid s) with
           | Some s' => settle f P s'
           | None => s
           end
  end.

Definition timed_wait (c : pc) : bool :=
  match c with AccWait _ _ | TwWait _ _ => true | _ => false end.

Fixpoint blookup (l : list (tid * N)) (t : tid) : option N :=
  match l with [] => None | (t', v) :: r => if Nat.eqb t t' then Some v else blookup r t end.

(* give every thread that is parked on a timer and has no birth time yet the current time *)
Fixpoint stamp (thrs : list (tid * pc)) (b : list (tid * N)) (nw : N) : list (tid * N) :=
  match thrs with
  | [] => b
  | (t, c) :: r =>
      let b' := stamp r b nw in
      if timed_wait c then match blookup b' t with Some _ => b' | None => (t, nw) :: b' end else b'
  end.

(* the parked thread with the earliest deadline <= limit *)
Fixpoint earliest (thrs : list (tid * pc)) (b : list (tid * N)) (limit : N) (best : option (tid * N)) : option (tid * N) :=
  match thrs with
  | [] => best
  | (t, c) :: r =>
      let best' :=
        if timed_wait c then
          match blookup b t with
          | Some t0 =>
              let d := (t0 + window)%N in
              if N.leb d limit then
                match best with
                | Some (_, bd) => if N.ltb d bd then Some (t, d) else best
                | None => Some (t, d)
                end
              else best
          | None => best
          end
        else best in
      earliest r b limit best'
  end.

Definition sfuel : nat := 400.

Fixpoint advance (fuel : nat) (P : params) (x : tst) (limit : N) : tst :=
  match fuel with
  | O => x
  | S f =>
    match earliest (thr (ts x)) (born x) limit None with
    | None => {| ts := ts x; born := born x; now := limit |}
    | Some (t, d) =>
        let s1 := match step P (ts x) (Fire t) with Some s' => s' | None => ts x end in
        let s2 := settle sfuel P s1 in
        (* a thread whose Fire was not enabled (mutex busy) is retried at the same deadline only once the
           state changed; to guarantee progress its birth time is pushed by 1 ms *)
        let b1 := match step P (ts x) (Fire t) with
                  | Some _ => born x
                  | None => (t, (d - window + 1)%N) :: born x
                  end in
        advance f P {| ts := s2; born := stamp (thr s2) b1 d; now := d |} limit
    end
  end.

Definition do_call (P : params) (x : tst) (at_ms : N) (o : op) : tst * tid :=
  let x1 := advance 200 P x at_ms in
  let t := ntid (ts x1) in
  let s1 := match step P (ts x1) (Call o) with Some s' => s' | None => ts x1 end in
  let s2 := settle sfuel P s1 in
  ({| ts := s2; born := stamp (thr s2) (born x1) at_ms; now := at_ms |}, t).

Fixpoint run_events (P : params) (x : tst) (evs : list (N * op)) (acc : list tid) : tst * list tid :=
  match evs with
  | [] => (x, rev acc)
  | (tm, o) :: r => let '(x', t) := do_call P x tm o in run_events P x' r (t :: acc)
  end.

Definition outcome_code (c : option pc) : Z :=
  (match c with
  | Some (Done (AccOk _ _)) => 1
  | Some (Done (AccTimeout _)) => 2
  | Some (Done (DialOk _ _)) => 3
  | Some (Done (DialErr _)) => 4
  | _ => 0      (* still blocked at the horizon *)
  end)%Z.

(* peer stream index reached by an op, for the pairing check: (kind, stream) *)
Definition outcome_stream (c : option pc) : Z :=
  match c with
  | Some (Done (AccOk _ i)) | Some (Done (DialOk _ i)) | Some (Done (Sent _ i)) => Z.of_nat i
  | _ => (-1)%Z
  end.

(* events: (time_ms kind id) with kind 0 = dial, 1 = accept; the Run loop is started at time 0.
   result: per event (outcome stream) ; plus wedged flag at the horizon *)
Definition timed_history (P : params) (evs : list (N * op)) (horizon : N) : list (Z * Z) * bool :=
  let x0 := {| ts := match step P init (Call OpRun) with Some s => s | None => init end; born := []; now := 0 |} in
  let '(x1, tids) := run_events P x0 evs [] in
  let x2 := advance 400 P x1 horizon in
  (map (fun t => (outcome_code (tlookup (thr (ts x2)) t), outcome_stream (tlookup (thr (ts x2)) t))) tids,
   wedged P (ts x2)).

Definition devent (v : V) : option (N * op) :=
  match v with
  | VL [VI tm; VI k; VI n] => Some (Z.to_N tm, if Z.eqb k 0 then OpDial (Z.to_N n) else OpAccept (Z.to_N n))
  | _ => None
  end.

Fixpoint listZ_eqb (a b : list Z) : bool :=
  match a, b with
  | [], [] => true
  | x :: ra, y :: rb => Z.eqb x y && listZ_eqb ra rb
  | _, _ => false
  end.

Definition ev_id (e : N * op) : N := match snd e with OpDial n | OpAccept n => n | OpRun => 0%N end.
Definition ev_is_dial (e : N * op) : bool := match snd e with OpDial _ => true | _ => false end.

(* ops that share a connection token are one Dial(n) and one Accept(n) with the same n *)
Fixpoint pair_ids_ok (evs : list (N * op)) (outs : list (Z * Z)) : bool :=
  match evs, outs with
  | e :: re, o :: ro =>
      (fix row (re' : list (N * op)) (ro' : list (Z * Z)) : bool :=
         match re', ro' with
         | e' :: r1, o' :: r2 =>
             (if Z.eqb (snd o) (snd o') && negb (Z.eqb (snd o) (-1))
              then N.eqb (ev_id e) (ev_id e') && negb (Bool.eqb (ev_is_dial e) (ev_is_dial e'))
              else true) && row r1 r2
         | _, _ => true
         end) re ro && pair_ids_ok re ro
  | _, _ => true
  end.

(* tokens are compared up to renaming: two ops share a token in the implementation iff they share a
   stream in the model *)
Fixpoint same_partition (a b : list Z) : bool :=
  match a, b with
  | [], [] => true
  | x :: ra, y :: rb =>
      (fix row (a' b' : list Z) : bool :=
         match a', b' with
         | [], [] => true
         | x' :: r1, y' :: r2 =>
             Bool.eqb (Z.eqb x x' && negb (Z.eqb x (-1))) (Z.eqb y y' && negb (Z.eqb y (-1))) && row r1 r2
         | _, _ => false
         end) ra rb && same_partition ra rb
  | _, _ => false
  end.

(* "issued within the pending window of each other, in either order, both succeed": an id with exactly one
   sender-side and one taker-side call, at most 4 s apart, must have both calls succeed ([okc] says which
   outcome codes count as success) *)
Definition count_id (evs : list (N * op)) (n : N) : nat := length (filter (fun e => N.eqb (ev_id e) n) evs).
Definition tdiff (a b : N) : N := if N.leb a b then (b - a)%N else (a - b)%N.
Definition window_ok (okc : Z -> bool) (evs : list (N * op)) (outs : list (Z * Z)) : bool :=
  let eo := combine evs outs in
  forallb (fun x => forallb (fun y =>
      let '(e1, o1) := x in let '(e2, o2) := y in
      if N.eqb (ev_id e1) (ev_id e2) && ev_is_dial e1 && negb (ev_is_dial e2) && Nat.eqb (count_id evs (ev_id e1)) 2
         && N.leb (tdiff (fst e1) (fst e2)) 4000
      then okc (fst o1) && okc (fst o2) else true) eo) eo.

(* input: (((time kind id)...) horizon) ; obs: (((outcome token)...) wedged leftover_goroutines) *)
Definition check_muxtimed (P : params) (inp obs : V) : verdict :=
  match inp, obs with
  | VL [VL evs; VI hz], VL [VL outs; wedge; VI leftover] =>
      match omap devent evs,
            omap (fun v => match v with VL [VI o; VI tok] => Some (o, tok) | _ => None end) outs,
            dbool wedge with
      | Some evs, Some outs, Some wedge =>
          let '(m, mw) := timed_history P evs (Z.to_N hz) in
          {| v_decoded := true;
             v_agree := listZ_eqb (map fst m) (map fst outs) && same_partition (map snd m) (map snd outs) && Bool.eqb mw wedge;
             (* property oracle (C06 routing + C09 liveness): connections pair Dial(n) with Accept(n) only;
                nothing is still blocked at the horizon (code 0); bulk data on a connection arrives complete (code 9 = it did not);
                the broker is not wedged; no broker goroutine is left *)
             v_oracle_impl := negb wedge && forallb (fun o => negb (Z.eqb (fst o) 0) && negb (Z.eqb (fst o) 9)) outs && Z.eqb leftover 0 && pair_ids_ok evs outs &&
                              window_ok (fun c => Z.eqb c 1 || Z.eqb c 3) evs outs;
             v_oracle_model := negb mw && forallb (fun o => negb (Z.eqb (fst o) 0)) m && pair_ids_ok evs m;
             v_model_obs := VL [VL (map (fun o => VL [VI (fst o); VI (snd o)]) m); vbool mw];
             v_branch := VL (map (fun o => VI (fst o)) m) |}
      | _, _, _ => bad_case
      end
  | _, _ => bad_case
  end.

(* ---- the gRPC broker (family "grpcbroker"/"grpcmux"): one direction per line.
   input: (((time kind id)...) horizon mux) with kind 0 = GRPCBroker.Accept (the SENDER of the info, model OpDial),
   kind 1 = GRPCBroker.Dial + first call (the TAKER, model OpAccept);
   obs: (((outcome token)...) main_ok): outcome 5 = accepted/sent, 1 = dial + call ok (token = id answered), 2 = dial failed *)
Definition grpc_outcome_code (c : option pc) : Z :=
  (match c with
  | Some (Done (Sent _ _)) => 5
  | Some (Done (AccOk _ _)) => 1
  | Some (Done (AccTimeout _)) => 2
  | _ => 0
  end)%Z.

Definition timed_history_grpc (P : params) (evs : list (N * op)) (horizon : N) : list (Z * Z) :=
  let x0 := {| ts := match step P init (Call OpRun) with Some s => s | None => init end; born := []; now := 0 |} in
  let '(x1, tids) := run_events P x0 evs [] in
  let x2 := advance 400 P x1 horizon in
  map (fun t => (grpc_outcome_code (tlookup (thr (ts x2)) t), outcome_stream (tlookup (thr (ts x2)) t))) tids.

(* With multiplexing a listener stays open: a later Dial of an id that was dialled before is a fresh knock on the same
   listener (one establishment after another, as documented; each establishment on its own is C08's model GrpcMux.v).
   Here only its outcome: answered by the listener accepted on that id, provided that listener was opened before. *)
Fixpoint mark_redials (seen : list N) (evs : list (N * op)) : list bool :=
  match evs with
  | [] => []
  | e :: r => match snd e with
              | OpAccept n => existsb (N.eqb n) seen :: mark_redials (n :: seen) r
              | _ => false :: mark_redials seen r
              end
  end.
Fixpoint keep_unmarked {A} (l : list A) (marks : list bool) : list A :=
  match l, marks with
  | x :: r, false :: mr => x :: keep_unmarked r mr
  | _ :: r, true :: mr => keep_unmarked r mr
  | _, _ => []
  end.
(* the sender (GRPCBroker.Accept) of id n among the primary events, with its outcome *)
Fixpoint sender_of (n : N) (evs : list (N * op)) (outs : list (Z * Z)) : option (N * (Z * Z)) :=
  match evs, outs with
  | e :: r, o :: ro => match snd e with
                       | OpDial k => if N.eqb k n then Some (fst e, o) else sender_of n r ro
                       | _ => sender_of n r ro
                       end
  | _, _ => None
  end.
Fixpoint merge_redials (prim : list (N * op)) (pouts : list (Z * Z)) (evs : list (N * op)) (marks : list bool) (rest : list (Z * Z))
  : list (Z * Z) :=
  match evs, marks with
  | e :: r, false :: mr => match rest with o :: ro => o :: merge_redials prim pouts r mr ro | [] => [] end
  | e :: r, true :: mr =>
      (match sender_of (ev_id e) prim pouts with
       | Some (t, (5%Z, tok)) => if N.leb t (fst e) then (1%Z, tok) else (2%Z, (-1)%Z)
       | _ => (2%Z, (-1)%Z)
       end) :: merge_redials prim pouts r mr rest
  | _, _ => []
  end.
Definition timed_history_grpc_mux (P : params) (evs : list (N * op)) (horizon : N) : list (Z * Z) :=
  let marks := mark_redials [] evs in
  let prim := keep_unmarked evs marks in
  let pouts := timed_history_grpc P prim horizon in
  merge_redials prim pouts evs marks pouts.

Definition check_grpctimed (P : params) (inp obs : V) : verdict :=
  match inp, obs with
  | VL [VL evs; VI hz; mux], VL [VL outs; VI main_ok] =>
      match omap devent evs,
            omap (fun v => match v with VL [VI o; VI tok] => Some (o, tok) | _ => None end) outs with
      | Some evs, Some outs =>
          let m := if match dbool mux with Some true => true | _ => false end
                   then timed_history_grpc_mux P evs (Z.to_N hz) else timed_history_grpc P evs (Z.to_N hz) in
          {| v_decoded := true;
             v_agree := listZ_eqb (map fst m) (map fst outs) && same_partition (map snd m) (map snd outs) && Z.eqb main_ok 1;
             (* property oracle (C07/C08 routing): a Dial(n) that got an answer was answered by the server accepted on n;
                nothing is still blocked at the horizon; the main connection keeps working *)
             v_oracle_impl := Z.eqb main_ok 1 && forallb (fun o => negb (Z.eqb (fst o) 0)) outs &&
                              forallb (fun eo => match eo with
                                                 | (e, (o, tok)) => if Z.eqb o 1 then Z.eqb tok (Z.of_N (ev_id e)) else true
                                                 end) (combine evs outs) &&
                              window_ok (fun c => Z.eqb c 1 || Z.eqb c 5) evs outs;
             v_oracle_model := forallb (fun o => negb (Z.eqb (fst o) 0)) m;
             v_model_obs := VL [VL (map (fun o => VL [VI (fst o); VI (snd o)]) m); VI 1%Z];
             v_branch := VL (map (fun o => VI (fst o)) m) |}
      | _, _ => bad_case
      end
  | _, _ => bad_case
  end.

(* ---- glue for the family "muxstorm": n pairs Accept(id) / Dial(id), each pair issued at one instant with a fresh id.
   What the model says about such a pair is the theorem pair of Props/C06.v (both calls succeed -- C06_dial_acked,
   C06_accept_gets_own_id -- and are connected to each other -- C06_routing): input (n), obs (ok misrouted failed) *)
Definition check_storm (inp obs : V) : verdict :=
  match inp, obs with
  | VL [VI n], VL [VI ok; VI mis; VI failed] =>
      let good := (Z.eqb ok n && Z.eqb mis 0 && Z.eqb failed 0)%bool in
      {| v_decoded := true; v_agree := good; v_oracle_impl := good; v_oracle_model := true;
         v_model_obs := VL [VI n; VI 0%Z; VI 0%Z]; v_branch := VL [vbool (Z.ltb 0 n)] |}
  | _, _ => bad_case
  end.
