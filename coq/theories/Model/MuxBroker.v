(* C06 / C09 / C20: MuxBroker (mux_broker.go) as an executable labelled transition system.
   One direction of one yamux session: the dialling side's Dial threads, and on the accepting side
   Run, Accept and timeoutWait.  Labels: [Call op] (a new API call by a new thread), [Step t] (the
   thread's next micro-step, enabled iff it is not blocked), [Fire t] (the 5 s timer branch of the
   select the thread is parked in).  "For all schedules" = for all label lists.
   History-monotone state: owners/hdrs are append-only; bufs/dones/acks/closed/takers/smap/lock mutable.
   Executable model only; proofs are in Proofs/MuxBrokerP.v. *)
From Coq Require Import List NArith Bool PeanoNat.
Import ListNotations.

Definition id := N.  Definition sid := nat.  Definition ptr := nat.  Definition tid := nat.

Inductive res := AccOk (n:id) (s:sid) | AccTimeout (n:id) | DialOk (n:id) (s:sid) | DialErr (n:id) | Sent (n:id) (s:sid) | Ended.
Inductive pc :=
| DialWait (n:id) (s:sid)                       (* Dial: header written, waiting for the ack *)
| RunRead                                       (* Run: waiting for the next inbound stream *)
| AccWait (n:id) (p:ptr)                        (* Accept: select { <-p.ch | 5 s } *)
| AccAck (n:id) (s:sid)                         (* Accept: took the stream, about to write the ack *)
| TwWait (k:id) (p:ptr)                         (* timeoutWait: select { <-p.doneCh | 5 s } *)
| TwLock (k:id) (p:ptr) (timeout:bool)          (* timeoutWait: about to take the broker mutex *)
| TwDrain (k:id) (p:ptr)                        (* timeoutWait: holds the mutex, drains p.ch *)
| Done (r:res).
Inductive op := OpDial (n:id) | OpAccept (n:id) | OpRun.
Inductive label := Call (o:op) | Step (t:tid) | Fire (t:tid).

(* owners: slot -> id it was created for; hdrs: stream -> id its dialer wrote; takers (ghost): the
   Accept thread that took the stream *)
Record st := { owners : list id; bufs : list (option sid); dones : list bool;
               hdrs : list id; acks : list (option id); closed : list bool; takers : list (option tid);
               smap : list (id * ptr); lock : option tid; nacc : nat; thr : list (tid * pc); ntid : tid }.

(* shape of the code the proofs depend on, filled from Generated.v *)
Record params := {
  drain_has_default : bool;    (* the receive in timeoutWait under the mutex is in a select with default *)
  run_closes_dropped : bool;   (* Run closes a stream it cannot park (slot already full) *)
  (* The same pending-slot machinery serves the gRPC broker without multiplexing (grpc_broker.go), with the
     roles renamed: the "dialer" of this model is GRPCBroker.Accept (it SENDS connection info for an id and
     does not wait for anything), the "acceptor" is GRPCBroker.Dial (it takes the info filed under its id). *)
  sender_waits_ack : bool;     (* MuxBroker.Dial waits for the ack; GRPCBroker.Accept returns after Send *)
  taker_timeout_deletes : bool;(* MuxBroker.Accept deletes its slot when it times out; GRPCBroker.Dial does not *)
  expiry_drains : bool         (* MuxBroker.timeoutWait drains the slot under the mutex; GRPCBroker.timeoutWait only deletes *)
}.

Definition set_owners (s : st) (x : list id) : st := {| owners := x; bufs := bufs s; dones := dones s; hdrs := hdrs s; acks := acks s; closed := closed s; takers := takers s; smap := smap s; lock := lock s; nacc := nacc s; thr := thr s; ntid := ntid s |}.
Definition set_bufs (s : st) (x : list (option sid)) : st := {| owners := owners s; bufs := x; dones := dones s; hdrs := hdrs s; acks := acks s; closed := closed s; takers := takers s; smap := smap s; lock := lock s; nacc := nacc s; thr := thr s; ntid := ntid s |}.
Definition set_dones (s : st) (x : list bool) : st := {| owners := owners s; bufs := bufs s; dones := x; hdrs := hdrs s; acks := acks s; closed := closed s; takers := takers s; smap := smap s; lock := lock s; nacc := nacc s; thr := thr s; ntid := ntid s |}.
Definition set_hdrs (s : st) (x : list id) : st := {| owners := owners s; bufs := bufs s; dones := dones s; hdrs := x; acks := acks s; closed := closed s; takers := takers s; smap := smap s; lock := lock s; nacc := nacc s; thr := thr s; ntid := ntid s |}.
Definition set_acks (s : st) (x : list (option id)) : st := {| owners := owners s; bufs := bufs s; dones := dones s; hdrs := hdrs s; acks := x; closed := closed s; takers := takers s; smap := smap s; lock := lock s; nacc := nacc s; thr := thr s; ntid := ntid s |}.
Definition set_closed (s : st) (x : list bool) : st := {| owners := owners s; bufs := bufs s; dones := dones s; hdrs := hdrs s; acks := acks s; closed := x; takers := takers s; smap := smap s; lock := lock s; nacc := nacc s; thr := thr s; ntid := ntid s |}.
Definition set_takers (s : st) (x : list (option tid)) : st := {| owners := owners s; bufs := bufs s; dones := dones s; hdrs := hdrs s; acks := acks s; closed := closed s; takers := x; smap := smap s; lock := lock s; nacc := nacc s; thr := thr s; ntid := ntid s |}.
Definition set_smap (s : st) (x : list (id * ptr)) : st := {| owners := owners s; bufs := bufs s; dones := dones s; hdrs := hdrs s; acks := acks s; closed := closed s; takers := takers s; smap := x; lock := lock s; nacc := nacc s; thr := thr s; ntid := ntid s |}.
Definition set_lock (s : st) (x : option tid) : st := {| owners := owners s; bufs := bufs s; dones := dones s; hdrs := hdrs s; acks := acks s; closed := closed s; takers := takers s; smap := smap s; lock := x; nacc := nacc s; thr := thr s; ntid := ntid s |}.
Definition set_nacc (s : st) (x : nat) : st := {| owners := owners s; bufs := bufs s; dones := dones s; hdrs := hdrs s; acks := acks s; closed := closed s; takers := takers s; smap := smap s; lock := lock s; nacc := x; thr := thr s; ntid := ntid s |}.
Definition set_thr (s : st) (x : list (tid * pc)) : st := {| owners := owners s; bufs := bufs s; dones := dones s; hdrs := hdrs s; acks := acks s; closed := closed s; takers := takers s; smap := smap s; lock := lock s; nacc := nacc s; thr := x; ntid := ntid s |}.
Definition set_ntid (s : st) (x : tid) : st := {| owners := owners s; bufs := bufs s; dones := dones s; hdrs := hdrs s; acks := acks s; closed := closed s; takers := takers s; smap := smap s; lock := lock s; nacc := nacc s; thr := thr s; ntid := x |}.

Fixpoint upd {A} (l:list A) (i:nat) (x:A) : list A :=
  match l, i with [] , _ => [] | _ :: t, O => x :: t | h :: t, S j => h :: upd t j x end.
Fixpoint alookup {A} (l:list (N*A)) (k:N) : option A :=
  match l with [] => None | (k',v)::t => if N.eqb k k' then Some v else alookup t k end.
Fixpoint adel {A} (l:list (N*A)) (k:N) : list (N*A) :=
  match l with [] => [] | (k',v)::t => if N.eqb k k' then adel t k else (k',v) :: adel t k end.
Fixpoint tlookup (l:list (tid*pc)) (t:tid) : option pc :=
  match l with [] => None | (t',v)::r => if Nat.eqb t t' then Some v else tlookup r t end.
Fixpoint tset (l:list (tid*pc)) (t:tid) (v:pc) : list (tid*pc) :=
  match l with [] => [(t,v)] | (t',v')::r => if Nat.eqb t t' then (t,v)::r else (t',v') :: tset r t v end.

Definition with_thr s t v := set_thr s (tset (thr s) t v).
Definition spawn s v := set_ntid (set_thr s (tset (thr s) (ntid s) v)) (S (ntid s)).
Definition set_buf s p x := set_bufs s (upd (bufs s) p x).
Definition set_done s p x := set_dones s (upd (dones s) p x).
Definition set_ack s i x := set_acks s (upd (acks s) i x).
Definition set_close s i x := set_closed s (upd (closed s) i x).
Definition set_taker s i x := set_takers s (upd (takers s) i x).
Definition del_map s k := set_smap s (adel (smap s) k).

(* getStream: look the id up, creating a fresh slot (1-buffered channel + done channel) if absent *)
Definition get_stream (s:st) (k:id) : st * ptr :=
  match alookup (smap s) k with
  | Some p => (s, p)
  | None => let p := length (owners s) in
      (set_smap (set_dones (set_bufs (set_owners s (owners s ++ [k])) (bufs s ++ [None])) (dones s ++ [false]))
                ((k,p) :: smap s), p)
  end.
(* session.OpenStream + header write *)
Definition new_stream s n :=
  set_takers (set_closed (set_acks (set_hdrs s (hdrs s ++ [n])) (acks s ++ [None])) (closed s ++ [false])) (takers s ++ [None]).

Definition lock_free (s:st) := match lock s with None => true | _ => false end.

Definition step (P:params) (s:st) (a:label) : option st :=
  match a with
  | Call o =>
    match o with
    | OpDial n => Some (spawn (new_stream s n) (if sender_waits_ack P then DialWait n (length (hdrs s)) else Done (Sent n (length (hdrs s)))))
    | OpAccept n => if lock_free s then let '(s',p) := get_stream s n in Some (spawn s' (AccWait n p)) else None
    | OpRun => Some (spawn s RunRead)
    end
  | Step t =>
    match tlookup (thr s) t with
    | Some (DialWait n i) =>
        match nth_error (acks s) i, nth_error (closed s) i with
        | Some (Some a), _ => Some (with_thr s t (Done (if N.eqb a n then DialOk n i else DialErr n)))
        | Some None, Some true => Some (with_thr s t (Done (DialErr n)))
        | _, _ => None end
    | Some RunRead =>
        match nth_error (hdrs s) (nacc s) with
        | Some k => if lock_free s then
            let i := nacc s in
            let '(s1,p) := get_stream s k in
            match nth_error (bufs s1) p with
            | Some b =>
               let s2 := match b with
                         | None => set_buf s1 p (Some i)
                         | Some _ => if run_closes_dropped P then set_close s1 i true else s1
                         end in
               Some (spawn (set_nacc s2 (S i)) (TwWait k p))
            | None => None end
          else None
        | None => None end
    | Some (AccWait n p) =>
        match nth_error (bufs s) p with
        | Some (Some i) => Some (with_thr (set_taker (set_done (set_buf s p None) p true) i (Some t)) t (AccAck n i))
        | _ => None end
    | Some (AccAck n i) => if Nat.ltb i (length (acks s)) then Some (with_thr (set_ack s i (Some n)) t (Done (AccOk n i))) else None
    | Some (TwWait k p) => match nth_error (dones s) p with Some true => Some (with_thr s t (TwLock k p false)) | _ => None end
    | Some (TwLock k p tmo) =>
        if lock_free s then
          if tmo && expiry_drains P then Some (with_thr (set_lock (del_map s k) (Some t)) t (TwDrain k p))
          else Some (with_thr (del_map s k) t (Done Ended))
        else None
    | Some (TwDrain k p) =>
        match nth_error (bufs s) p with
        | Some (Some i) => Some (with_thr (set_lock (set_close (set_buf s p None) i true) None) t (Done Ended))
        | Some None => if drain_has_default P then Some (with_thr (set_lock s None) t (Done Ended)) else None
        | None => None end
    | _ => None
    end
  | Fire t =>
    match tlookup (thr s) t with
    | Some (AccWait n p) =>
        if taker_timeout_deletes P then
          if lock_free s then Some (with_thr (del_map s n) t (Done (AccTimeout n))) else None
        else Some (with_thr s t (Done (AccTimeout n)))
    | Some (TwWait k p) => Some (with_thr s t (TwLock k p true))
    | _ => None
    end
  end.

Fixpoint run P (s:st) (l:list label) : option st :=
  match l with [] => Some s | a :: r => match step P s a with Some s' => run P s' r | None => None end end.
Definition init : st :=
  {| owners:=[]; bufs:=[]; dones:=[]; hdrs:=[]; acks:=[]; closed:=[]; takers:=[]; smap:=[]; lock:=None; nacc:=0; thr:=[]; ntid:=0 |}.
Definition reachable P s := exists l, run P init l = Some s.

(* the broker is wedged when the mutex holder cannot take its next step *)
Definition wedged P (s:st) : bool :=
  match lock s with Some t => match step P s (Step t) with None => true | Some _ => false end | None => false end.
