(* C12: how go-plugin wires TLS under AutoMTLS.  Certificates are abstract (a key identity); an endpoint
   configuration is the record of exactly the fields go-plugin sets.  The behaviour of crypto/tls over
   those fields is the function [accepts] below: an assumed law, named in the trusted base.
   Executable model only. *)
From Coq Require Import List NArith ZArith Bool.
From GP Require Import Base.Val.
Import ListNotations.

Definition key := nat.                 (* who can prove possession of the certificate's private key *)
Definition host_key : key := 1.
Definition plugin_key : key := 2.
Definition system_key : key := 6.       (* a certificate authority in the machine's trust store *)

Record tcfg := {
  t_own : option key;                  (* Certificates *)
  t_require_client : bool;             (* ClientAuth = RequireAndVerifyClientCert *)
  t_client_cas : list key;             (* ClientCAs (self-signed one-time certs: the pool is a set of keys) *)
  t_root_cas : list key;               (* RootCAs *)
  t_verify : bool                      (* crypto/tls's own verification of the peer's chain is in force (InsecureSkipVerify
                                          unset, no VerifyPeerCertificate / VerifyConnection override) *)
}.

(* what the code does, as found in the source on this run *)
Record tparams := {
  tp_host_cfg_at_start : bool;         (* Start installs the host's TLS config whenever AutoMTLS is on *)
  tp_host_requires_client : bool;      (* ... with ClientAuth RequireAndVerifyClientCert *)
  tp_host_pins_client_cas : bool;      (* loadServerCert pins the announced cert as ClientCAs *)
  tp_host_pins_root_cas : bool;        (* ... and as RootCAs *)
  tp_plugin_requires_client : bool;    (* Serve: ClientAuth RequireAndVerifyClientCert *)
  tp_plugin_pins_client_cas : bool;    (* Serve: ClientCAs = the host's cert from the environment *)
  tp_broker_serves_with_tls : bool;    (* AcceptAndServe gives brokered servers the broker's TLS config *)
  tp_pools_only_pinned : bool;         (* the certificate pools start empty (x509.NewCertPool), not from the system roots *)
  tp_standard_verification : bool      (* no tls.Config of the package switches chain verification off or replaces it *)
}.

(* a pool with the pinned certificates, on top of the system roots when the code starts from those *)
Definition pool (P : tparams) (pinned : list key) : list key := if tp_pools_only_pinned P then pinned else system_key :: pinned.

(* the host's config after the handshake line announced certificate [announced] (None: no certificate field) *)
Definition host_cfg (P : tparams) (announced : option key) : option tcfg :=
  if tp_host_cfg_at_start P then
    Some {| t_own := Some host_key; t_require_client := tp_host_requires_client P;
            t_client_cas := pool P (match announced with Some k => if tp_host_pins_client_cas P then [k] else [] | None => [] end);
            t_root_cas := pool P (match announced with Some k => if tp_host_pins_root_cas P then [k] else [] | None => [] end);
            t_verify := tp_standard_verification P |}
  else
    match announced with
    | Some k => Some {| t_own := Some host_key; t_require_client := tp_host_requires_client P;
                        t_client_cas := pool P (if tp_host_pins_client_cas P then [k] else []);
                        t_root_cas := pool P (if tp_host_pins_root_cas P then [k] else []);
                        t_verify := tp_standard_verification P |}
    | None => None
    end.

(* the plugin's config when PLUGIN_CLIENT_CERT carried the host's certificate *)
Definition plugin_cfg (P : tparams) : tcfg :=
  {| t_own := Some plugin_key; t_require_client := tp_plugin_requires_client P;
     t_client_cas := pool P (if tp_plugin_pins_client_cas P then [host_key] else []); t_root_cas := [host_key];
     t_verify := tp_standard_verification P |}.

Inductive path :=
| MainNetRPC | MainGRPC                 (* the plugin's main listener *)
| PluginBrokered                        (* a listener the plugin accepted on (gRPC broker) *)
| HostBrokered.                         (* a listener the host accepted on (gRPC broker) *)

(* who serves on the path, with which config (None = plaintext) *)
Definition server_cfg (P : tparams) (announced : option key) (p : path) : option tcfg :=
  match p with
  | MainNetRPC | MainGRPC => Some (plugin_cfg P)
  | PluginBrokered => if tp_broker_serves_with_tls P then Some (plugin_cfg P) else None
  | HostBrokered => if tp_broker_serves_with_tls P then host_cfg P announced else None
  end.
Definition client_cfg (P : tparams) (announced : option key) (p : path) : option tcfg :=
  match p with
  | MainNetRPC | MainGRPC | PluginBrokered => host_cfg P announced
  | HostBrokered => Some (plugin_cfg P)
  end.

(* a peer: what it presents *)
Inductive peer := Plaintext | TLSNoCert | TLSCert (k : key).

(* LAW of crypto/tls over these fields (assumed): a TLS server with RequireAndVerifyClientCert completes the
   handshake only with a peer that presents a certificate from its ClientCAs and proves its key; a TLS
   server never completes with a plaintext peer; a plaintext server serves anybody who speaks plaintext *)
Definition mem_key (k : key) (l : list key) : bool := existsb (Nat.eqb k) l.
Definition server_accepts (s : option tcfg) (x : peer) : bool :=
  match s, x with
  | None, Plaintext => true
  | None, _ => false
  | Some _, Plaintext => false
  | Some c, TLSNoCert => negb (t_require_client c)
  | Some c, TLSCert k => if t_require_client c then mem_key k (t_client_cas c) else true
  end.
(* a TLS client accepts the server iff the certificate whose key the server proves (its leaf) is in the client's
   RootCAs -- as long as the standard verification is in force; with it switched off or replaced, crypto/tls itself
   accepts every server that completes the handshake and nothing is assumed about what a callback adds;
   a plaintext client talks to a plaintext server *)
Definition client_accepts (c : option tcfg) (s : option tcfg) : bool :=
  match c, s with
  | None, None => true
  | Some cc, Some sc =>
      match t_own sc with
      | Some k => if t_verify cc then mem_key k (t_root_cas cc) else true
      | None => false
      end
  | _, _ => false
  end.

(* an impostor plugin: announces the genuine certificate (it is public: printed on stdout), holds another key, sends
   the announced certificate along behind its own leaf, and lets any client in *)
Definition impostor_server : tcfg :=
  {| t_own := Some 8; t_require_client := false; t_client_cas := []; t_root_cas := []; t_verify := false |}.

Definition intruders : list peer := [Plaintext; TLSNoCert; TLSCert 7; TLSCert 8; TLSCert system_key].

(* ---- glue for the family "mtls": input (path peer_code announced) ; obs (answered)
   peer codes: 0 plaintext, 1 TLS no cert, 2 fresh cert, 3 other key same name, 4 a certificate issued by an authority of
   the machine's trust store, 5 the holder of a certificate found in the host's own environment, 9 the legitimate peer, 10 the HOST's attempt against an impostor server on that path, 11 the same against an impostor that serves with the
   certificate of a sibling plugin of the same host *)
Definition path_of_Z (z : Z) : path :=
  match z with 0 => MainNetRPC | 1 => MainGRPC | 2 => PluginBrokered | _ => HostBrokered end%Z.
Definition check_mtls (P : tparams) (inp obs : V) : verdict :=
  match inp, obs with
  | VL [VI p; VI x; ann], VL [ans] =>
      match dbool ann, dbool ans with
      | Some ann, Some ans =>
          let pth := path_of_Z p in
          let announced := if ann then Some plugin_key else None in
          let legit_key := match pth with HostBrokered => plugin_key | _ => host_key end in
          let pr := (if Z.eqb x 0 then Plaintext else if Z.eqb x 1 then TLSNoCert else if Z.eqb x 2 then TLSCert 7 else if Z.eqb x 3 then TLSCert 8 else if Z.eqb x 4 then TLSCert system_key else if Z.eqb x 5 then TLSCert 9 else TLSCert legit_key) in
          let m := if Z.eqb x 10 || Z.eqb x 11 then client_accepts (client_cfg P announced pth) (Some impostor_server) else
                   if Z.eqb x 9
                   then server_accepts (server_cfg P announced pth) pr && client_accepts (client_cfg P announced pth) (server_cfg P announced pth)
                   else server_accepts (server_cfg P announced pth) pr in
          {| v_decoded := true; v_agree := Bool.eqb m ans;
             (* property oracle: an intruder is never answered; the legitimate pair is (when the plugin announced its certificate) *)
             v_oracle_impl := if Z.eqb x 9 then (if ann then ans else negb ans) else negb ans;  (* 10, 11: the impostor must not be answered *)
             v_oracle_model := if Z.eqb x 9 then (if ann then m else negb m) else negb m;
             v_model_obs := VL [vbool m]; v_branch := VL [VI p; VI x] |}
      | _, _ => bad_case
      end
  | _, _ => bad_case
  end.
