(* C05, the failure in front of the handshake: runner.Start itself reports an error (client.go Start, between
   obtaining the runner and registering the deferred kill), possibly after a custom runner launched its workload.
   Start has no clean-up of its own on that path; the client's promise is carried by Kill, which can reach the runner
   only because Start recorded it before calling runner.Start.  Executable model only. *)
From Coq Require Import List NArith ZArith Bool.
From GP Require Import Base.Val.
Import ListNotations.

Inductive sf_launch := SfCmd | SfRunner.

Record sf_params := {
  sf_records_first : bool;    (* Start: `c.runner = runner` precedes runner.Start(ctx) *)
  sf_kill_forces : bool;      (* Kill: runner.Kill is called on the non-graceful path *)
  sf_kill_removes_dir : bool; (* Kill: the deferred function removes the socket directory *)
  sf_kill_forgets : bool;     (* Kill: the deferred function sets c.runner = nil *)
  sf_start_kill_ctx_fresh : bool   (* Start: the clean-up's runner.Kill gets context.Background(), not the start context *)
}.

Record sf_client := {
  sc_runner : bool;           (* c.runner != nil *)
  sc_named : bool;            (* runner.ID() != "" *)
  sc_dir : bool;              (* the plugin-dir* directory of a RunnerFunc launch exists *)
  sc_workload : bool;         (* what the runner launched is still running *)
  sc_kills : nat              (* calls of runner.Kill so far *)
}.

(* the state Start leaves behind when runner.Start returned an error *)
Definition failed_runner_start (P : sf_params) (l : sf_launch) (launched named : bool) : sf_client :=
  {| sc_runner := sf_records_first P;
     sc_named := named;
     sc_dir := match l with SfRunner => true | SfCmd => false end;
     sc_workload := launched;
     sc_kills := 0 |}.

(* Client.Kill on a client without an address: nothing to do without a runner or an ID; otherwise straight to
   runner.Kill, then the deferred part removes the socket directory and forgets the runner *)
Definition sf_kill (P : sf_params) (s : sf_client) : sf_client :=
  if sc_runner s && sc_named s
  then {| sc_runner := negb (sf_kill_forgets P);
          sc_named := sc_named s;
          sc_dir := sc_dir s && negb (sf_kill_removes_dir P);
          sc_workload := sc_workload s && negb (sf_kill_forces P);
          sc_kills := if sf_kill_forces P then S (sc_kills s) else sc_kills s |}
  else s.

Fixpoint sf_kills (P : sf_params) (n : nat) (s : sf_client) : sf_client :=
  match n with O => s | S k => sf_kills P k (sf_kill P s) end.

(* ---- glue for the family "startfail": input (launch launched named kills) ; obs (start_failed kills_returned workload_gone dir_gone) *)
Definition check_startfail (P : sf_params) (inp obs : V) : verdict :=
  match inp, obs with
  | VL [VI l; la; nm; VI k], VL [failed; kret; gone; dgone] =>
      match dbool la, dbool nm, dbool failed, dbool kret, dbool gone, dbool dgone with
      | Some la, Some nm, Some failed, Some kret, Some gone, Some dgone =>
          let l' := if Z.eqb l 0 then SfCmd else SfRunner in
          let s := sf_kills P (Z.to_nat k) (failed_runner_start P l' la nm) in
          let m := VL [VI 1%Z; VI 1%Z; vbool (negb (sc_workload s)); vbool (negb (sc_dir s))] in
          {| v_decoded := true; v_agree := V_eqb m obs;
             (* property oracle: Start reported the error, every Kill returned promptly, and once a Kill was made what
                a runner that names its workload
                launched is gone and so is the directory *)
             v_oracle_impl := failed && kret && (if Z.ltb 0 k && nm then gone && dgone else true);
             v_oracle_model := if Z.ltb 0 k && nm then negb (sc_workload s) && negb (sc_dir s) else true;
             v_model_obs := m; v_branch := VL [VI l; vbool la; vbool nm] |}
      | _, _, _, _, _, _ => bad_case
      end
  | _, _ => bad_case
  end.
