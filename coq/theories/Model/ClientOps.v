(* C19: one Client under any sequence / interleaving of Start, Client, Protocol, ReattachConfig, ID,
   Exited and Kill (client.go).  Every public method runs its body under the client mutex, so the
   atomic steps are: Start (whole body), the cached-or-create part of Client() that follows its Start,
   the reads, and Kill's phases.  An interleaving of calls is a list of these steps.
   Executable model only. *)
From Coq Require Import List NArith ZArith Bool PeanoNat.
From GP Require Import Base.Val.
Import ListNotations.

Inductive launch_kind := ByCmd | ByRunnerFunc.
(* what happens to a launch attempt (environment): the handshake succeeds, or Start fails after the launch *)
Inductive attempt := AttemptOk | AttemptFailsAfterLaunch.

Record cl := {
  address : option nat;      (* identity of the negotiated address (the "started" flag) *)
  runner_set : bool;         (* c.runner != nil *)
  cmd_used : bool;           (* exec.Cmd already had its pipes taken (Cmd launch only) *)
  client : option nat;       (* identity of the cached protocol client *)
  launches : nat;            (* processes launched / RunnerFunc invocations *)
  made : nat;                (* protocol clients constructed *)
  exited : bool
}.

Inductive lbl :=
| LStart            (* Start(), also the first half of Client() and Protocol() *)
| LClientRest       (* second half of Client(): return the cached client or construct one *)
| LRead             (* ReattachConfig / ID / Exited: no state change *)
| LKillEnd.         (* Kill: force/graceful stop, wait, runner := nil *)

Inductive ret := RAddr (a : nat) | RClient (c : nat) | RErr | RNone.

Definition cl_init : cl :=
  {| address := None; runner_set := false; cmd_used := false; client := None; launches := 0; made := 0; exited := false |}.

(* [env k] is the fate of the k-th launch *)
Definition cl_step (lk : launch_kind) (env : nat -> attempt) (s : cl) (l : lbl) : cl * ret :=
  match l with
  | LStart =>
      match address s with
      | Some a => (s, RAddr a)
      | None =>
          match lk, cmd_used s with
          | ByCmd, true => (s, RErr)       (* exec.Cmd refuses a second StdoutPipe: nothing is launched *)
          | _, _ =>
              let k := launches s in
              match env k with
              | AttemptOk =>
                  ({| address := Some k; runner_set := true; cmd_used := true; client := client s; launches := S k; made := made s; exited := exited s |}, RAddr k)
              | AttemptFailsAfterLaunch =>
                  ({| address := None; runner_set := true; cmd_used := true; client := client s; launches := S k; made := made s; exited := true |}, RErr)
              end
          end
      end
  | LClientRest =>
      match address s with
      | None => (s, RErr)
      | Some _ =>
          match client s with
          | Some c => (s, RClient c)
          | None => ({| address := address s; runner_set := runner_set s; cmd_used := cmd_used s; client := Some (made s); launches := launches s; made := S (made s); exited := exited s |}, RClient (made s))
          end
      end
  | LRead => (s, RNone)
  | LKillEnd =>
      if runner_set s
      then ({| address := address s; runner_set := false; cmd_used := cmd_used s; client := client s; launches := launches s; made := made s; exited := true |}, RNone)
      else (s, RNone)
  end.

Fixpoint cl_run (lk : launch_kind) (env : nat -> attempt) (s : cl) (ls : list lbl) : cl * list ret :=
  match ls with
  | [] => (s, [])
  | l :: r => let '(s1, x) := cl_step lk env s l in let '(s2, xs) := cl_run lk env s1 r in (s2, x :: xs)
  end.

(* ---- glue for the family "clientops": input (launch_kind first_start_fails (ops...)) with ops
   0 Start, 1 Client, 2 Protocol, 3 ReattachConfig, 4 ID, 5 Exited, 6 Kill;
   obs ((per-op result)... launches) ; per-op result: Start (ok addr-class), Client (ok client-class), Protocol (ok),
   Reattach (non-nil), ID (non-empty), Exited (bool), Kill () *)
Definition env_of (first_fails : bool) (k : nat) : attempt :=
  if first_fails && Nat.eqb k 0 then AttemptFailsAfterLaunch else
  if first_fails then AttemptFailsAfterLaunch else AttemptOk.

Fixpoint run_ops (lk : launch_kind) (env : nat -> attempt) (s : cl) (ops : list Z) : cl * list V :=
  match ops with
  | [] => (s, [])
  | o :: r =>
      let '(s1, v) :=
        (match o with
         | 0 => let '(s1, x) := cl_step lk env s LStart in
                (s1, match x with RAddr a => VL [VI 1; VI (Z.of_nat a)] | _ => VL [VI 0; VI (-1)] end)
         | 1 => let '(s1, x) := cl_step lk env s LStart in
                match x with
                | RAddr _ => let '(s2, y) := cl_step lk env s1 LClientRest in
                             (s2, match y with RClient c => VL [VI 1; VI (Z.of_nat c)] | _ => VL [VI 0; VI (-1)] end)
                | _ => (s1, VL [VI 0; VI (-1)])
                end
         | 2 => let '(s1, x) := cl_step lk env s LStart in
                (s1, match x with RAddr _ => VL [VI 1] | _ => VL [VI 0] end)
         | 3 => (s, VL [vbool (match address s with Some _ => true | None => false end)])
         | 4 => (s, VL [vbool (runner_set s)])
         | 5 => (s, VL [vbool (exited s)])
         | _ => (* Kill: asks for the protocol client first when an address is known *)
                let s1 := if runner_set s then match address s with Some _ => fst (cl_step lk env s LClientRest) | None => s end else s in
                (fst (cl_step lk env s1 LKillEnd), VL [])
         end)%Z in
      let '(s2, vs) := run_ops lk env s1 r in (s2, v :: vs)
  end.

Definition check_clientops (inp obs : V) : verdict :=
  match inp, obs with
  | VL [VI lk; ff; VL ops], VL [VL outs; VI nl] =>
      match dbool ff, omap dI ops with
      | Some ff, Some ops =>
          let lk' := if Z.eqb lk 0 then ByCmd else ByRunnerFunc in
          let '(s, vs) := run_ops lk' (env_of ff) cl_init ops in
          let m := VL [VL vs; VI (Z.of_nat (launches s))] in
          {| v_decoded := true; v_agree := V_eqb m obs;
             (* property oracle: at most one launch; all successful Starts the same address; all successful Clients the same client *)
             v_oracle_impl :=
               Z.leb nl 1 &&
               (let addrs := flat_map (fun ov => match ov with (0%Z, VL [VI 1%Z; VI a]) => [a] | _ => [] end) (combine ops outs) in
                match addrs with [] => true | a :: r => forallb (Z.eqb a) r end) &&
               (let cs := flat_map (fun ov => match ov with (1%Z, VL [VI 1%Z; VI c]) => [c] | _ => [] end) (combine ops outs) in
                match cs with [] => true | c :: r => forallb (Z.eqb c) r end);
             v_oracle_model := Nat.leb (launches s) 1;
             v_model_obs := m; v_branch := VL [VI lk; vbool ff; VI (Z.of_nat (launches s))] |}
      | _, _ => bad_case
      end
  | _, _ => bad_case
  end.

(* ---- glue for the family "startstorm": sessions in which Start / Protocol / accessor callers are released at one
   instant on a fresh client; the model's statement for every such session is C19_launch_once_* (one launch) and
   C19_same_address: input (sessions), obs (sessions with more than one launch or two addresses, sessions that hung) *)
Definition check_startstorm (inp obs : V) : verdict :=
  match inp, obs with
  | VL [VI n], VL [VI bad; VI hung] =>
      let good := (Z.eqb bad 0 && Z.eqb hung 0)%bool in
      {| v_decoded := true; v_agree := good; v_oracle_impl := good; v_oracle_model := true;
         v_model_obs := VL [VI 0%Z; VI 0%Z]; v_branch := VL [vbool (Z.ltb 0 n)] |}
  | _, _ => bad_case
  end.
