(* C17: the environment handed to the plugin process (client.go:620-725 on the current tree).
   Environment entries are raw "KEY=VALUE" byte strings, exactly what os.Environ() and cmd.Env hold.
   Executable model only. *)
From Coq Require Import List NArith ZArith Bool String.
From GP Require Import Base.Val Base.Bytes Base.GoStrings Model.Negotiate.
Import ListNotations.

Definition entry := bytes.

(* split an entry at its first '=' *)
Fixpoint split_eq (e : bytes) (acc : bytes) : option (bytes * bytes) :=
  match e with
  | [] => None
  | c :: r => if N.eqb c 61 then Some (frev acc, r) else split_eq r (c :: acc)
  end.
Definition key_of (e : entry) : option bytes := option_map fst (split_eq e []).
Definition mk (k v : bytes) : entry := k ++ [61%N] ++ v.

(* os/exec: when a key occurs several times the last entry wins *)
Fixpoint effective (k : bytes) (env : list entry) : option bytes :=
  match env with
  | [] => None
  | e :: r =>
      match effective k r with
      | Some v => Some v
      | None => match split_eq e [] with
                | Some (k', v) => if bytes_eqb k k' then Some v else None
                | None => None
                end
      end
  end.

Inductive launch := LCmd | LRunnerFunc.

Record env_params := {
  ep_clears_inherited : bool;   (* Start overrides PLUGIN_MULTIPLEX_GRPC / PLUGIN_CLIENT_CERT with "" when the feature is off *)
  ep_mux_key : bytes;           (* envMultiplexGRPC *)
  ep_group_key : bytes;         (* EnvUnixSocketGroup *)
  ep_dir_key : bytes            (* EnvUnixSocketDir *)
}.

Record env_cfg := {
  e_cookie_key : bytes; e_cookie_value : bytes;
  e_min_port : Z; e_max_port : Z;        (* after NewClient's defaulting *)
  e_versions : list Z;                   (* keys of the client's version map, in map-iteration order *)
  e_mux : bool; e_automtls : bool;
  e_group : bytes;                       (* "" = not configured *)
  e_launch : launch;
  e_skip_host_env : bool
}.

Definition k_min := bs "PLUGIN_MIN_PORT".
Definition k_max := bs "PLUGIN_MAX_PORT".
Definition k_versions := bs "PLUGIN_PROTOCOL_VERSIONS".
Definition k_cert := bs "PLUGIN_CLIENT_CERT".

(* cert / dir are the values generated at run time (opaque, non-empty) *)
Definition build_env (P : env_params) (c : env_cfg) (cert dir : bytes) (cmd_env host_env : list entry) : list entry :=
  cmd_env ++
  (if e_skip_host_env c then [] else host_env) ++
  [ mk (e_cookie_key c) (e_cookie_value c);
    mk k_min (itoa (e_min_port c));
    mk k_max (itoa (e_max_port c));
    mk k_versions (join [44%N] (map itoa (e_versions c))) ] ++
  (if e_mux c then [mk (ep_mux_key P) (bs "true")]
   else if ep_clears_inherited P then [mk (ep_mux_key P) []] else []) ++
  (if e_automtls c then [mk k_cert cert]
   else if ep_clears_inherited P then [mk k_cert []] else []) ++
  (if match e_group c with [] => true | _ => false end then [] else [mk (ep_group_key P) (e_group c)]) ++
  (match e_launch c with LRunnerFunc => [mk (ep_dir_key P) dir] | LCmd => [] end).

Definition nonempty (o : option bytes) : bool := match o with Some (_ :: _) => true | _ => false end.

(* ---- glue for the correspondence family "env"
   input: (cfg cmd_env host_env watch_keys) where cfg = (ckey cval min max (versions...) mux automtls group launch skip)
   obs:   (cookie min max (sorted versions) mux_nonempty mux_value cert_nonempty group dir_nonempty (present watch keys...)) *)
Definition dcfg_env (v : V) : option env_cfg :=
  match v with
  | VL [VB ck; VB cv; VI mn; VI mx; VL vs; mux; tls; VB grp; VI l; skip] =>
      vs <- omap dI vs ;; mux <- dbool mux ;; tls <- dbool tls ;; skip <- dbool skip ;;
      Some {| e_cookie_key := ck; e_cookie_value := cv; e_min_port := mn; e_max_port := mx; e_versions := vs;
              e_mux := mux; e_automtls := tls; e_group := grp;
              e_launch := if Z.eqb l 0 then LCmd else LRunnerFunc; e_skip_host_env := skip |}
  | _ => None
  end.

Definition ov (o : option bytes) : V := match o with Some v => VL [VB v] | None => VL [] end.

Definition obs_env (P : env_params) (inp : V) : option V :=
  match inp with
  | VL [cfg; VL cmd_env; VL host_env; VL watch] =>
      c <- dcfg_env cfg ;; cmd_env <- omap dB cmd_env ;; host_env <- omap dB host_env ;; watch <- omap dB watch ;;
      let env := build_env P c (bs "CERT") (bs "DIR") cmd_env host_env in
      Some (VL [ ov (effective (e_cookie_key c) env);
                 ov (effective k_min env); ov (effective k_max env);
                 VL (map VI (sort_desc (parse_versions (match effective k_versions env with Some v => v | None => [] end))));
                 vbool (nonempty (effective (ep_mux_key P) env)); ov (effective (ep_mux_key P) env);
                 vbool (nonempty (effective k_cert env));
                 ov (effective (ep_group_key P) env);
                 vbool (nonempty (effective (ep_dir_key P) env));
                 VL (map VB (filter (fun k => match effective k env with Some _ => true | None => false end) watch));
                 VI 1%Z ])
  | _ => None
  end.

(* property oracle on an observation, from the property text:
   cookie = configured; versions = exactly the offered set; ports; cert iff AutoMTLS; mux flag iff requested;
   group/dir when configured; with SkipHostEnv no host-only variable is present *)
Definition is_control_key (P : env_params) (k : bytes) : bool :=
  mem_bytes k [k_min; k_max; k_versions; k_cert; ep_mux_key P; ep_group_key P; ep_dir_key P].

Definition oracle_env (P : env_params) (inp obs : V) : option bool :=
  match inp, obs with
  | VL [cfg; VL cmd_env; VL host_env; VL watch],
    VL [cookie; mn; mx; VL vers; muxne; muxv; certne; grp; dirne; VL present; stdin_ok] =>
      c <- dcfg_env cfg ;; cmd_env <- omap dB cmd_env ;; host_env <- omap dB host_env ;;
      vers <- omap dI vers ;; muxne <- dbool muxne ;; certne <- dbool certne ;; dirne <- dbool dirne ;;
      present <- omap dB present ;; stdin_ok <- dbool stdin_ok ;;
      let host_only k := match effective k cmd_env with Some _ => false | None => true end in
      Some (
        stdin_ok &&
        (is_control_key P (e_cookie_key c) || V_eqb cookie (VL [VB (e_cookie_value c)])) &&
        V_eqb mn (VL [VB (itoa (e_min_port c))]) && V_eqb mx (VL [VB (itoa (e_max_port c))]) &&
        V_eqb (VL (map VI vers)) (VL (map VI (sort_desc (e_versions c)))) &&
        Bool.eqb muxne (e_mux c) && Bool.eqb certne (e_automtls c) &&
        (match e_group c with [] => true | g => V_eqb grp (VL [VB g]) end) &&
        (match e_launch c with LRunnerFunc => dirne | LCmd => true end) &&
        (if e_skip_host_env c then forallb (fun k => negb (host_only k)) present else true))
  | _, _ => None
  end.

Definition check_env (P : env_params) (inp obs : V) : verdict :=
  match obs_env P inp, oracle_env P inp obs with
  | Some m, Some oi =>
      {| v_decoded := true; v_agree := V_eqb m obs; v_oracle_impl := oi;
         v_oracle_model := match oracle_env P inp m with Some b => b | None => false end;
         v_model_obs := m;
         v_branch := match inp with VL (VL [_; _; _; _; _; mux; tls; _; l; skip] :: _) => VL [mux; tls; l; skip] | _ => VL [] end |}
  | _, _ => bad_case
  end.
