(* C02: version negotiation.  server side: protocolVersion (server.go:148-222);
   client side: the version list built in Start (client.go:620-644) and
   checkProtoVersion (client.go:1024-1046).  Executable model only. *)
From Coq Require Import List NArith ZArith Bool.
From GP Require Import Base.Val Base.Bytes Base.GoStrings.
Import ListNotations.

(* A plugin set is abstract: an identity and the wire kind of its (homogeneous) members. *)
Inductive kind := KEmpty | KNet | KGrpc.
Record pset := { ps_id : Z; ps_kind : kind }.
Inductive proto := PNet | PGrpc.

(* finite maps version -> set as association lists; [mset] overwrites, as Go's map assignment *)
Definition vmap := list (Z * pset).
Fixpoint mget (m : vmap) (k : Z) : option pset :=
  match m with [] => None | (k', v) :: r => if Z.eqb k k' then Some v else mget r k end.
Fixpoint mdel (m : vmap) (k : Z) : vmap :=
  match m with [] => [] | (k', v) :: r => if Z.eqb k k' then mdel r k else (k', v) :: mdel r k end.
Definition mset (m : vmap) (k : Z) (v : pset) : vmap := (k, v) :: mdel m k.
Definition mkeys (m : vmap) : list Z := map fst m.

(* descending insertion sort = sort.Sort(sort.Reverse(sort.IntSlice(l))) as far as the result goes *)
Fixpoint insert_desc (x : Z) (l : list Z) : list Z :=
  match l with
  | [] => [x]
  | y :: r => if Z.leb y x then x :: l else y :: insert_desc x r
  end.
Fixpoint sort_desc (l : list Z) : list Z :=
  match l with [] => [] | x :: r => insert_desc x (sort_desc r) end.

(* PLUGIN_PROTOCOL_VERSIONS: split on ',', Atoi each, failures dropped; "" means no list *)
Fixpoint keep_some {A} (l : list (option A)) : list A :=
  match l with [] => [] | Some a :: r => a :: keep_some r | None :: r => keep_some r end.
Definition parse_versions (env : bytes) : list Z :=
  match env with
  | [] => []
  | _ => keep_some (map atoi (split 44 env))
  end.

Record serve_cfg := {
  s_version : Z;                (* HandshakeConfig.ProtocolVersion *)
  s_plugins : option pset;      (* ServeConfig.Plugins, None = nil *)
  s_versioned : vmap;           (* ServeConfig.VersionedPlugins (keys unique) *)
  s_factory : bool              (* ServeConfig.GRPCServer != nil *)
}.

(* the legacy fields folded in: the server side overwrites an existing key *)
Definition server_map (c : serve_cfg) : vmap :=
  match s_plugins c with
  | Some p => mset (s_versioned c) (s_version c) p
  | None => s_versioned c
  end.

Definition proto_of (factory : bool) (carried : proto) (s : option pset) : proto :=
  if factory then
    match s with
    | Some {| ps_kind := KGrpc |} => PGrpc
    | Some {| ps_kind := KNet |} => PNet
    | _ => carried
    end
  else carried.

(* the loop over the server's versions (already sorted descending) *)
Fixpoint pick_loop (vs : list Z) (m : vmap) (factory : bool) (cvs : list Z)
         (cur : Z * proto * option pset) : Z * proto * option pset :=
  match vs with
  | [] => cur
  | v :: r =>
      let set := mget m v in
      let pt := proto_of factory (snd (fst cur)) set in
      if memZ v cvs then (v, pt, set) else pick_loop r m factory cvs (v, pt, set)
  end.

(* [keys] is the order in which Go's map iteration produced the keys: any permutation *)
Definition server_pick_keys (c : serve_cfg) (keys : list Z) (env : bytes) : Z * proto * option pset :=
  let m := server_map c in
  pick_loop (sort_desc keys) m (s_factory c) (sort_desc (parse_versions env))
            (s_version c, PNet, s_plugins c).

Definition server_pick (c : serve_cfg) (env : bytes) : Z * proto * option pset :=
  server_pick_keys c (mkeys (server_map c)) env.

(* ---- client side *)
Record client_cfg := {
  c_version : Z;
  c_plugins : option pset;
  c_versioned : vmap
}.

(* the client does NOT overwrite an existing key *)
Definition client_map (c : client_cfg) : vmap :=
  match c_plugins c, mget (c_versioned c) (c_version c) with
  | Some p, None => (c_version c, p) :: c_versioned c
  | _, _ => c_versioned c
  end.

Definition env_of_keys (keys : list Z) : bytes := join [44%N] (map itoa keys).

(* checkProtoVersion on the second handshake field *)
Definition client_accept (c : client_cfg) (field : bytes) : option (Z * pset) :=
  match atoi field with
  | None => None
  | Some v => match mget (client_map c) v with Some p => Some (v, p) | None => None end
  end.

(* ---- independent specification: greatest common / least element *)
Definition is_max_common (v : Z) (S C : list Z) : Prop :=
  In v S /\ In v C /\ forall w, In w S -> In w C -> (w <= v)%Z.
Definition is_min (v : Z) (S : list Z) : Prop :=
  In v S /\ forall w, In w S -> (v <= w)%Z.
Definition disjoint (S C : list Z) : Prop := forall w, In w S -> ~ In w C.

(* ---- glue for the correspondence family "negotiate"
   input: ((sver splugins? (sid skind) ((v id kind) ...) factory) env)
   obs: (version proto set_id|-1) *)
Definition kind_of_Z (z : Z) : kind := if Z.eqb z 1 then KNet else if Z.eqb z 2 then KGrpc else KEmpty.
Definition dpset (v : V) : option pset :=
  match v with VL [VI i; VI k] => Some {| ps_id := i; ps_kind := kind_of_Z k |} | _ => None end.
Definition dentry (v : V) : option (Z * pset) :=
  match v with VL [VI ver; VI i; VI k] => Some (ver, {| ps_id := i; ps_kind := kind_of_Z k |}) | _ => None end.
Fixpoint dedup_map (l : list (Z * pset)) : vmap :=
  match l with [] => [] | (k, v) :: r => mset (dedup_map r) k v end.

Definition dserve (v : V) : option serve_cfg :=
  match v with
  | VL [VI sver; hasp; sp; VL ents; fac] =>
      hasp <- dbool hasp ;; sp <- dpset sp ;; ents <- omap dentry ents ;; fac <- dbool fac ;;
      Some {| s_version := sver; s_plugins := if hasp then Some sp else None;
              s_versioned := dedup_map ents; s_factory := fac |}
  | _ => None
  end.

Definition enc_pick (r : Z * proto * option pset) : V :=
  let '(v, p, s) := r in
  VL [VI v; VI (match p with PNet => 1 | PGrpc => 2 end)%Z;
      VI (match s with Some x => ps_id x | None => (-1)%Z end)].

Definition obs_negotiate (inp : V) : option V :=
  match inp with
  | VL [sc; VB env] => c <- dserve sc ;; Some (enc_pick (server_pick c env))
  | _ => None
  end.

(* oracle: the announced version is the greatest common version when one exists, else the least
   served version; the set id and protocol belong to that version *)
Fixpoint maxZ (l : list Z) : option Z :=
  match l with [] => None | x :: r => match maxZ r with None => Some x | Some m => Some (Z.max x m) end end.
Fixpoint minZ (l : list Z) : option Z :=
  match l with [] => None | x :: r => match minZ r with None => Some x | Some m => Some (Z.min x m) end end.

Definition expected_version (c : serve_cfg) (env : bytes) : Z :=
  let S := mkeys (server_map c) in
  let C := parse_versions env in
  match maxZ (filter (fun v => memZ v C) S) with
  | Some v => v
  | None => match minZ S with Some v => v | None => s_version c end
  end.

Definition oracle_negotiate (inp obs : V) : option bool :=
  match inp, obs with
  | VL [sc; VB env], VL [VI v; VI p; VI sid] =>
      c <- dserve sc ;;
      let ev := expected_version c env in
      let set := match mkeys (server_map c) with [] => s_plugins c | _ => mget (server_map c) ev end in
      let sid_ok := Z.eqb sid (match set with Some x => ps_id x | None => (-1)%Z end) in
      let p_ok :=
        match set with
        | Some {| ps_kind := KGrpc |} => if s_factory c then Z.eqb p 2 else Z.eqb p 1
        | Some {| ps_kind := KNet |} => Z.eqb p 1
        | _ => true  (* empty / nil set: the protocol is carried over from a higher version *)
        end in
      Some (Z.eqb v ev && sid_ok && p_ok)
  | _, _ => None
  end.

Definition check_negotiate (inp obs : V) : verdict :=
  match obs_negotiate inp, oracle_negotiate inp obs with
  | Some m, Some oi =>
      {| v_decoded := true; v_agree := V_eqb m obs; v_oracle_impl := oi;
         v_oracle_model := match oracle_negotiate inp m with Some b => b | None => false end;
         v_model_obs := m;
         v_branch := match inp with
                     | VL [sc; VB env] =>
                       match dserve sc with
                       | Some c =>
                         let S := mkeys (server_map c) in let C := parse_versions env in
                         VL [vbool (match filter (fun v => memZ v C) S with [] => false | _ => true end);
                             vbool (match C with [] => false | _ => true end);
                             vnat (Nat.min 3 (length (filter (fun v => memZ v C) S)))]
                       | None => VL [] end
                     | _ => VL [] end |}
  | _, _ => bad_case
  end.

(* client side family "clientver": input ((cver hasp (id kind) ((v id kind)...)) field) ; obs (ok version set_id) *)
Definition dclient (v : V) : option client_cfg :=
  match v with
  | VL [VI cver; hasp; cp; VL ents] =>
      hasp <- dbool hasp ;; cp <- dpset cp ;; ents <- omap dentry ents ;;
      Some {| c_version := cver; c_plugins := if hasp then Some cp else None; c_versioned := dedup_map ents |}
  | _ => None
  end.
Definition obs_clientver (inp : V) : option V :=
  match inp with
  | VL [cc; VB field] =>
      c <- dclient cc ;;
      Some (match client_accept c field with
            | Some (v, p) => VL [VI 1%Z; VI v; VI (ps_id p)]
            | None => VL [VI 0%Z; VI 0%Z; VI (-1)%Z]
            end)
  | _ => None
  end.
Definition check_clientver (inp obs : V) : verdict :=
  match obs_clientver inp with
  | Some m =>
      {| v_decoded := true; v_agree := V_eqb m obs;
         (* oracle: accepted => the version is one the client offers and the set is the one registered under it *)
         v_oracle_impl := match inp, obs with
                          | VL [cc; VB field], VL [VI ok; VI v; VI sid] =>
                            match dclient cc with
                            | Some c => if Z.eqb ok 0 then true else
                                match mget (client_map c) v with
                                | Some p => Z.eqb (ps_id p) sid && match atoi field with Some f => Z.eqb f v | None => false end
                                | None => false end
                            | None => false end
                          | _, _ => false end;
         v_oracle_model := true; v_model_obs := m;
         v_branch := match m with VL (o :: _) => o | _ => VL [] end |}
  | None => bad_case
  end.

(* both sides in one loop (family "negotiate2"): input (client_cfg serve_cfg);
   obs (ok negotiated client_set announced server_set killed) *)
Definition both_sides (cc : client_cfg) (sc : serve_cfg) : V :=
  let env := env_of_keys (mkeys (client_map cc)) in
  let '(v, p, set) := server_pick sc env in
  let ssid := match set with Some x => ps_id x | None => (-1)%Z end in
  match client_accept cc (itoa v) with
  | Some (v', pc) => VL [VI 1%Z; VI v'; VI (ps_id pc); VI v; VI ssid; VI 0%Z]
  | None => VL [VI 0%Z; VI 0%Z; VI (-1)%Z; VI v; VI ssid; VI 1%Z]
  end.

(* oracle straight from the property text: common version exists <-> ok; then the negotiated version is the
   greatest common one and both sides hold the sets registered under it; otherwise the plugin was terminated
   and (when it serves anything) was offered... the lowest served version *)
Definition oracle_both (cc : client_cfg) (sc : serve_cfg) (obs : V) : bool :=
  let C := mkeys (client_map cc) in
  let S := mkeys (server_map sc) in
  let common := filter (fun v => memZ v C) S in
  match obs with
  | VL [VI ok; VI ver; VI csid; VI ann; VI ssid; VI killed] =>
      match S with [] => true | _ =>   (* a plugin that serves no plugin set at all is outside the property's quantifier *)
      match maxZ common with
      | Some m =>
          Z.eqb ok 1 && Z.eqb ver m && Z.eqb ann m &&
          Z.eqb csid (match mget (client_map cc) m with Some x => ps_id x | None => (-9)%Z end) &&
          Z.eqb ssid (match mget (server_map sc) m with Some x => ps_id x | None => (-9)%Z end)
      | None =>
          Z.eqb ok 0 && Z.eqb killed 1 &&
          match minZ S with Some lo => Z.eqb ann lo | None => true end
      end end
  | _ => false
  end.

Definition check_negotiate2 (inp obs : V) : verdict :=
  match inp with
  | VL [cc; sc] =>
      match dclient cc, dserve sc with
      | Some cc, Some sc =>
          let m := both_sides cc sc in
          {| v_decoded := true; v_agree := V_eqb m obs; v_oracle_impl := oracle_both cc sc obs;
             v_oracle_model := oracle_both cc sc m; v_model_obs := m;
             v_branch := match m with VL (o :: _) => o | _ => VL [] end |}
      | _, _ => bad_case
      end
  | _ => bad_case
  end.
