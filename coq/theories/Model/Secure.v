(* C13: SecureConfig.Check (client.go:335-358) and its position in Start
   (client.go:662-668).  Executable model only; proofs are in Proofs/SecureP.v. *)
From Coq Require Import List NArith ZArith Bool.
From GP Require Import Base.Val Base.Bytes.
Import ListNotations.

(* crypto/subtle.ConstantTimeCompare: length test, then OR-fold of byte XORs *)
Fixpoint xor_fold (a b : bytes) (acc : N) : N :=
  match a, b with
  | x :: a', y :: b' => xor_fold a' b' (N.lor acc (N.lxor x y))
  | _, _ => acc
  end.

Definition ct_compare (a b : bytes) : bool :=
  if Nat.eqb (length a) (length b) then N.eqb (xor_fold a b 0) 0 else false.

(* What opening + hashing the file gives: an I/O error, or the digest that
   hash.Sum returns after the file was copied in (oracle: the hash function
   and the file system). *)
Inductive file_res := FileErr | FileDigest (d : bytes).

Inductive check_res := CkNoChecksum | CkNoHash | CkIOErr | CkMismatch | CkOk.

Definition check (checksum : bytes) (hash_present : bool) (f : file_res) : check_res :=
  match checksum with
  | [] => CkNoChecksum
  | _ =>
    if negb hash_present then CkNoHash else
    match f with
    | FileErr => CkIOErr
    | FileDigest d => if ct_compare d checksum then CkOk else CkMismatch
    end
  end.

(* The part of Start between env construction and runner creation. *)
Inductive effect := EfCheck | EfLaunch.
Inductive start_class := StErrVerify (c : check_res) | StErrMismatch | StLaunched.

Definition start_secure (checksum : bytes) (hash_present : bool) (f : file_res)
  : start_class * list effect :=
  match check checksum hash_present f with
  | CkOk => (StLaunched, [EfCheck; EfLaunch])
  | CkMismatch => (StErrMismatch, [EfCheck])
  | c => (StErrVerify c, [EfCheck])
  end.

Definition launched (r : start_class * list effect) : bool :=
  existsb (fun e => match e with EfLaunch => true | _ => false end) (snd r).

(* ---- glue for the correspondence check ---- *)
Definition class_code (c : start_class) : Z :=
  match c with
  | StLaunched => 0
  | StErrMismatch => 1
  | StErrVerify CkNoChecksum => 2
  | StErrVerify CkNoHash => 3
  | StErrVerify CkIOErr => 4
  | StErrVerify _ => 5
  end%Z.

(* input: (checksum, hash_present, file_ok, digest) ; obs: (class, launched) *)
Definition obs_secure (inp : V) : option V :=
  match inp with
  | VL [VB cks; hp; fok; VB dig] =>
      hp <- dbool hp ;; fok <- dbool fok ;;
      let r := start_secure cks hp (if fok then FileDigest dig else FileErr) in
      Some (VL [VI (class_code (fst r)); vbool (launched r)])
  | _ => None
  end.

(* property oracle on an observation: launched iff digest = checksum and checksum non-empty
   (with a hash and a readable file) *)
Definition oracle_secure (inp obs : V) : option bool :=
  match inp, obs with
  | VL [VB cks; hp; fok; VB dig], VL [VI cls; l] =>
      hp <- dbool hp ;; fok <- dbool fok ;; l <- dbool l ;;
      let should := hp && fok && bytes_eqb dig cks && negb (Nat.eqb (length cks) 0) in
      Some (Bool.eqb l should && (Bool.eqb l (Z.eqb cls 0)))
  | _, _ => None
  end.

Definition check_secure (inp obs : V) : verdict :=
  match obs_secure inp, oracle_secure inp obs with
  | Some m, Some oi =>
      {| v_decoded := true; v_agree := V_eqb m obs; v_oracle_impl := oi;
         v_oracle_model := match oracle_secure inp m with Some b => b | None => false end;
         v_model_obs := m;
         v_branch := match m with VL (c :: _) => c | _ => VL [] end |}
  | _, _ => bad_case
  end.
