(* C01 / C05: what Client.Start does after the runner was started (client.go:741-941 on the
   current tree), as a function of the bytes the plugin writes to stdout, how the output ends,
   and the client configuration.  Executable model only. *)
From Coq Require Import List NArith ZArith Bool String.
From GP Require Import Base.Val Base.Bytes Base.GoStrings Model.Negotiate.
Import ListNotations.

(* code-shape facts, filled from Generated.v in Props/ *)
Record hs_params := {
  hp_core : Z;                (* CoreProtocolVersion *)
  hp_min_fields : nat;        (* len(parts) < k is rejected *)
  hp_cert_len : nat;          (* len(parts[5]) > k is a certificate *)
  hp_checks_addr_err : bool;  (* the error of the network switch is checked *)
  hp_guards_nil_tls : bool    (* loadServerCert refuses a nil TLS config *)
}.

Record hs_cfg := {
  h_client : client_cfg;      (* version sets (Negotiate.v) *)
  h_allowed : list bytes;     (* AllowedProtocols after NewClient's default *)
  h_has_tls : bool;           (* TLSConfig != nil when the line is processed (static TLS or AutoMTLS) *)
  h_mux : bool                (* GRPCBrokerMultiplex *)
}.

(* answers of the functions go-plugin calls but does not implement, for this line's fields *)
Record hs_oracle := {
  o_translate_ok : bool;      (* runner.PluginToHost(parts[2], parts[3]) returned no error *)
  o_net : bytes;              (* translated network *)
  o_addr : bytes;             (* translated address *)
  o_resolves : bool;          (* net.Resolve{TCP,Unix}Addr(o_net, o_addr) succeeds *)
  o_canon : bytes;            (* String() of the resolved address *)
  o_cert_parses : bool        (* base64 + x509.ParseCertificate of parts[5] succeed *)
}.

(* ---- the bufio.Scanner view of the plugin's stdout *)
Inductive term := TEof | TStall.                    (* how the output ends when it has no newline *)
Inductive scan := SLine (l : bytes) | SClosed | SNone.
Definition max_token : N := 65536%N.
Definition blen (l : bytes) : N := N.of_nat (List.length l).

Fixpoint take_line (s : bytes) (acc : bytes) : option bytes :=   (* bytes before the first \n *)
  match s with
  | [] => None
  | c :: r => if N.eqb c 10 then Some (frev acc) else take_line r (c :: acc)
  end.
Definition drop_cr (l : bytes) : bytes :=
  match frev l with 13%N :: r => frev r | _ => l end.

Definition scan_first (out : bytes) (t : term) : scan :=
  match take_line out [] with
  | Some l => if N.ltb (blen l) max_token then SLine (drop_cr l) else SClosed
  | None =>
      if N.leb max_token (blen out) then SClosed else
      match t, out with
      | TEof, [] => SClosed
      | TEof, _ => SLine (drop_cr out)
      | TStall, _ => SNone
      end
  end.

(* ---- outcome *)
Inductive err_class :=
| ETimeout | EExited | EUnrecognized | ECoreParse | ECoreVersion | EAppVersion
| ETranslate | EAddr | EProtocol | ECert | EMuxUnsupported | EMuxParse.

Record accepted := {
  a_net : bytes; a_addr : bytes; a_resolved : bool; a_proto : bytes; a_version : Z; a_set : Z
}.
Inductive outcome := OOk (a : accepted) | OErr (e : err_class) | OPanic.
Inductive effect := EfKill | EfSetPlugins (v : Z) | EfSetProto (p : bytes) | EfLoadCert.

Definition netrpc := bs "netrpc".
Definition grpc := bs "grpc".
Definition nthb (l : list bytes) (i : nat) : bytes := nth i l [].

Definition fail (e : err_class) (eff : list effect) : outcome * list effect := (OErr e, eff ++ [EfKill]).

Definition proto_of_parts (parts : list bytes) : bytes :=
  if Nat.leb 5 (List.length parts) then nthb parts 4 else netrpc.
Definition has_cert_field (P : hs_params) (parts : list bytes) : bool :=
  Nat.leb 6 (List.length parts) && Nat.ltb (hp_cert_len P) (List.length (nthb parts 5)).
(* loadServerCert: None = nil dereference (panic), Some None = fine, Some (Some e) = error *)
Definition cert_check (P : hs_params) (c : hs_cfg) (o : hs_oracle) (has_cert : bool) : option (option err_class) :=
  if negb has_cert then Some None else
  if hp_guards_nil_tls P && negb (h_has_tls c) then Some (Some ECert) else
  if negb (o_cert_parses o) then Some (Some ECert) else
  if h_has_tls c then Some None else None.
Definition mux_check (c : hs_cfg) (proto : bytes) (parts : list bytes) : option err_class :=
  if h_mux c && bytes_eqb proto grpc then
    if Nat.leb (List.length parts) 6 then Some EMuxUnsupported else
    match parse_bool (nthb parts 6) with
    | None => Some EMuxParse
    | Some false => Some EMuxUnsupported
    | Some true => None
    end
  else None.
Definition addr_known (o : hs_oracle) : bool :=
  bytes_eqb (o_net o) (bs "tcp") || bytes_eqb (o_net o) (bs "unix").

(* processing of a received line (client.go:833-937) *)
Definition process_line (P : hs_params) (c : hs_cfg) (o : hs_oracle) (line : bytes)
  : outcome * list effect :=
  let parts := split 124 (trim_space line) in
  if Nat.ltb (List.length parts) (hp_min_fields P) then fail EUnrecognized [] else
  match atoi (nthb parts 0) with
  | None => fail ECoreParse []
  | Some core =>
    if negb (Z.eqb core (hp_core P)) then fail ECoreVersion [] else
    match client_accept (h_client c) (nthb parts 1) with
    | None => fail EAppVersion []
    | Some (v, set) =>
      let e1 := [EfSetPlugins v] in
      if negb (o_translate_ok o) then fail ETranslate e1 else
      let addr_ok := addr_known o && o_resolves o in
      if hp_checks_addr_err P && negb addr_ok then fail EAddr e1 else
      let proto := proto_of_parts parts in
      let e2 := e1 ++ [EfSetProto proto] in
      if negb (mem_bytes proto (h_allowed c)) then fail EProtocol e2 else
      let has_cert := has_cert_field P parts in
      match cert_check P c o has_cert with
      | None => (OPanic, e2 ++ [EfLoadCert; EfKill])
      | Some (Some e) => fail e (e2 ++ [EfLoadCert])
      | Some None =>
        let e3 := if has_cert then e2 ++ [EfLoadCert] else e2 in
        match mux_check c proto parts with
        | Some e => fail e e3
        | None =>
          (OOk {| a_net := o_net o; a_addr := o_canon o; a_resolved := addr_ok; a_proto := proto;
                  a_version := v; a_set := ps_id set |}, e3)
        end
      end
    end
  end.

(* the select in Start: which events can be taken, given what the plugin wrote and how it ended *)
Definition start_after_launch (P : hs_params) (c : hs_cfg) (o : hs_oracle) (out : bytes) (t : term)
  : list (outcome * list effect) :=
  match scan_first out t with
  | SLine l => [process_line P c o l]
  | SNone => [fail ETimeout []]
  | SClosed =>
      (* the channel is closed: the zero value "" is received; when this is because the process
         ended, the done context may be ready too and select picks either *)
      match t with
      | TEof => [process_line P c o []; fail EExited []]
      | TStall => [process_line P c o []]
      end
  end.

(* ---- independent specification of an acceptable line *)
Definition wf_line (P : hs_params) (c : hs_cfg) (o : hs_oracle) (line : bytes) (a : accepted) : bool :=
  let fs := split 124 (trim_space line) in
  let proto := if Nat.leb 5 (List.length fs) then nthb fs 4 else netrpc in
  Nat.leb (hp_min_fields P) (List.length fs) &&
  match atoi (nthb fs 0) with Some k => Z.eqb k (hp_core P) | None => false end &&
  match atoi (nthb fs 1) with
  | Some v => match mget (client_map (h_client c)) v with
              | Some s => Z.eqb v (a_version a) && Z.eqb (ps_id s) (a_set a)
              | None => false end
  | None => false end &&
  o_translate_ok o &&
  (bytes_eqb (o_net o) (bs "tcp") || bytes_eqb (o_net o) (bs "unix")) && o_resolves o &&
  bytes_eqb (a_net a) (o_net o) && bytes_eqb (a_addr a) (o_canon o) && a_resolved a &&
  bytes_eqb (a_proto a) proto && mem_bytes proto (h_allowed c) &&
  (if Nat.leb 6 (List.length fs) && Nat.ltb (hp_cert_len P) (List.length (nthb fs 5))
   then o_cert_parses o && h_has_tls c else true) &&
  (if h_mux c && bytes_eqb proto grpc
   then Nat.leb 7 (List.length fs) && match parse_bool (nthb fs 6) with Some true => true | _ => false end
   else true).

(* ---- glue for the correspondence family "handshake" *)
Definition err_code (e : err_class) : Z :=
  match e with
  | ETimeout => 1 | EExited => 2 | EUnrecognized => 3 | ECoreParse => 4 | ECoreVersion => 5
  | EAppVersion => 6 | ETranslate => 7 | EAddr => 8 | EProtocol => 9 | ECert => 10
  | EMuxUnsupported => 11 | EMuxParse => 12
  end%Z.

Definition has_kill (eff : list effect) : bool :=
  existsb (fun e => match e with EfKill => true | _ => false end) eff.

(* obs = (class addr_nonnil net addr proto version set kills_ge1 in_time kill_after_ok)
   class 0 = ok, 99 = panic *)
Definition enc_outcome (r : outcome * list effect) : V :=
  let k := vbool (has_kill (snd r)) in
  match fst r with
  | OOk a => VL [VI 0%Z; vbool (a_resolved a); VB (a_net a); VB (a_addr a); VB (a_proto a); VI (a_version a); VI (a_set a); k; VI 1%Z; VI 1%Z]
  | OErr e => VL [VI (err_code e); VI 0%Z; VB []; VB []; VB []; VI 0%Z; VI (-1)%Z; k; VI 1%Z; VI 1%Z]
  | OPanic => VL [VI 99%Z; VI 0%Z; VB []; VB []; VB []; VI 0%Z; VI (-1)%Z; k; VI 1%Z; VI 1%Z]
  end.

Definition dcfg (v : V) : option hs_cfg :=
  match v with
  | VL [cc; VL allowed; tls; mux] =>
      cc <- dclient cc ;; allowed <- omap dB allowed ;; tls <- dbool tls ;; mux <- dbool mux ;;
      Some {| h_client := cc; h_allowed := allowed; h_has_tls := tls; h_mux := mux |}
  | _ => None
  end.
Definition doracle (v : V) : option hs_oracle :=
  match v with
  | VL [tok; VB n; VB a; res; VB canon; cert] =>
      tok <- dbool tok ;; res <- dbool res ;; cert <- dbool cert ;;
      Some {| o_translate_ok := tok; o_net := n; o_addr := a; o_resolves := res; o_canon := canon; o_cert_parses := cert |}
  | _ => None
  end.
Definition dterm (v : V) : option term :=
  match v with VI 0%Z => Some TEof | VI 1%Z => Some TStall | _ => None end.

(* property oracle on an observation (C01 + C05): never a panic; an accepted line is well formed
   and the reported values are the line's; an error means the runner was killed; in time *)
Definition oracle_obs (P : hs_params) (c : hs_cfg) (o : hs_oracle) (out : bytes) (t : term) (obs : V) : bool :=
  match obs with
  | VL [VI cls; nonnil; VB n; VB a; VB p; VI ver; VI set; kills; intime; killafter] =>
      match dbool nonnil, dbool kills, dbool intime, dbool killafter with
      | Some nonnil, Some kills, Some intime, Some killafter =>
        intime && killafter && negb (Z.eqb cls 99) &&
        (if Z.eqb cls 0 then
           nonnil &&
           match scan_first out t with
           | SLine l => wf_line P c o l {| a_net := n; a_addr := a; a_resolved := nonnil; a_proto := p; a_version := ver; a_set := set |}
           | _ => false
           end
         else kills)
      | _, _, _, _ => false
      end
  | _ => false
  end.

Definition check_handshake (P : hs_params) (inp obs : V) : verdict :=
  match inp with
  | VL [cfg; orc; VB out; tm] =>
      match dcfg cfg, doracle orc, dterm tm with
      | Some c, Some o, Some t =>
          let rs := map enc_outcome (start_after_launch P c o out t) in
          {| v_decoded := true;
             v_agree := existsb (fun m => V_eqb m obs) rs;
             v_oracle_impl := oracle_obs P c o out t obs;
             v_oracle_model := forallb (oracle_obs P c o out t) rs;
             v_model_obs := VL rs;
             v_branch := match rs with VL (cls :: _) :: _ => cls | _ => VL [] end |}
      | _, _, _ => bad_case
      end
  | _ => bad_case
  end.
