(* C04: Client.Kill (client.go:499-573) against the ways a plugin can behave when asked to stop.
   The transports are oracles with one law per behaviour class (stated at each constructor).
   Executable model only. *)
From Coq Require Import List NArith ZArith Bool.
From GP Require Import Base.Val.
Import ListNotations.

Inductive kproto := KNetRPC | KGRPC.
Inductive behaviour :=
| ExitsAtOnce          (* exits as soon as the shutdown request arrives *)
| ExitsAfterDelay      (* exits on its own well inside the grace period, after cleanup *)
| Ignores              (* acknowledges the request but keeps running *)
| Frozen               (* SIGSTOPped: answers nothing, dies only on SIGKILL *)
| AlreadyDead          (* crashed before Kill *)
| FailedHandshake      (* launched, but Start failed: a runner exists, no address *)
| LaunchFailed         (* Start was called but nothing was launched (exec error, a custom runner whose Start fails): a runner is recorded, there is no process *)
| NeverStarted.        (* Start was never called: no runner *)

Record kparams := {
  kp_grace : Z;             (* seconds Kill waits for a graceful exit (client.go Kill) *)
  kp_rpc_deadline : option Z; (* deadline of the gRPC Shutdown request, None = unbounded *)
  kp_keepalive : Z;         (* yamux keep-alive bound for a peer that stopped answering (net/rpc) *)
  kp_kill_ctx_fresh : bool  (* runner.Kill is handed a context that cannot already be done (context.Background()); when it
                               is not, the context may have run out with the grace period, and a runner that honours its
                               context then refuses the request *)
}.

Record kresult := {
  k_returns : bool;         (* Kill returns *)
  k_budget : Z;             (* sum of the timers that may have to expire first (seconds) *)
  k_forced : bool;          (* runner.Kill was used (processKilled) *)
  k_clean_exit : bool;      (* the plugin ran its own cleanup (exited by itself) *)
  k_exited : bool           (* afterwards: process gone and reaped, Exited() = true *)
}.

Definition noop := {| k_returns := true; k_budget := 0; k_forced := false; k_clean_exit := false; k_exited := false |}.

(* the graceful request: Some (ok, seconds it may block) ; None = blocks forever *)
Definition close_request (P : kparams) (pr : kproto) (b : behaviour) : option (bool * Z) :=
  match b with
  | ExitsAtOnce | ExitsAfterDelay | Ignores => Some (true, 0%Z)
  | AlreadyDead =>                                  (* the request fails at once; gRPC's Close still reports success *)
      Some (match pr with KNetRPC => false | KGRPC => true end, 0%Z)
  | Frozen =>
      match pr with
      | KNetRPC => Some (false, kp_keepalive P)     (* Control.Quit fails when the yamux keep-alive gives up *)
      | KGRPC => match kp_rpc_deadline P with
                 | Some d => Some (true, d)         (* the RPC times out; Conn.Close() succeeds, so "graceful" *)
                 | None => None                     (* Shutdown without a deadline to a frozen peer never returns *)
                 end
      end
  | _ => Some (false, 0%Z)
  end.

Definition kill (P : kparams) (pr : kproto) (b : behaviour) : kresult :=
  match b with
  | NeverStarted => noop
  | LaunchFailed =>      (* no address and no process: runner.Kill on nothing; Kill returns at once *)
      {| k_returns := true; k_budget := 0; k_forced := true; k_clean_exit := false; k_exited := false |}
  | FailedHandshake =>   (* no address: straight to runner.Kill *)
      {| k_returns := true; k_budget := 0; k_forced := true; k_clean_exit := false; k_exited := true |}
  | _ =>
      match close_request P pr b with
      | None => {| k_returns := false; k_budget := 0; k_forced := false; k_clean_exit := false; k_exited := false |}
      | Some (graceful, t) =>
          let exits_in_grace := match b with ExitsAtOnce | ExitsAfterDelay | AlreadyDead => true | _ => false end in
          let clean := match b with ExitsAtOnce | ExitsAfterDelay => true | _ => false end in
          if graceful && exits_in_grace
          then {| k_returns := true; k_budget := t; k_forced := false; k_clean_exit := clean; k_exited := true |}
          else
            (* the force kill; without it the process lives on and Kill waits for its goroutines for ever *)
            let carried_out := kp_kill_ctx_fresh P || negb graceful in
            {| k_returns := carried_out; k_budget := (t + (if graceful then kp_grace P else 0))%Z; k_forced := true;
               k_clean_exit := false; k_exited := carried_out |}
      end
  end.

(* n Kills one after another: the first does the work, the rest find no runner *)
Definition kill_n (P : kparams) (pr : kproto) (b : behaviour) (n : nat) : list kresult :=
  match n with
  | O => []
  | S m => kill P pr b :: map (fun _ => noop) (seq 0 m)
  end.

(* ---- glue for the family "kill": input (proto behaviour) ; obs (returned_in_bound exited gone clean_exit forced) *)
Definition beh_of_Z (z : Z) : behaviour :=
  match z with
  | 0 => ExitsAtOnce | 1 => ExitsAfterDelay | 2 => Ignores | 3 => Frozen | 4 => AlreadyDead | 5 => FailedHandshake | 7 => LaunchFailed | _ => NeverStarted
  end%Z.

Definition check_kill (P : kparams) (inp obs : V) : verdict :=
  match inp, obs with
  | VL [VI pr; VI b], VL [ret; ex; gone; clean; forced] =>
      match dbool ret, dbool ex, dbool gone, dbool clean, dbool forced with
      | Some ret, Some ex, Some gone, Some clean, Some forced =>
          let r := kill P (if Z.eqb pr 0 then KNetRPC else KGRPC) (beh_of_Z b) in
          let started := negb (Z.eqb b 6 || Z.eqb b 7) in
          let m := VL [vbool (k_returns r); vbool (k_exited r); vbool (k_exited r || negb started); vbool (k_clean_exit r); vbool (k_forced r)] in
          {| v_decoded := true; v_agree := V_eqb m obs;
             (* property oracle: Kill returned in bounded time; afterwards the process is gone and reported exited;
                a plugin that exits on its own in the grace period was not force-killed *)
             v_oracle_impl := ret && (negb started || (ex && gone)) &&
                              (if (Z.eqb b 0 || Z.eqb b 1) then clean && negb forced else true);
             v_oracle_model := k_returns r; v_model_obs := m; v_branch := VL [VI pr; VI b] |}
      | _, _, _, _, _ => bad_case
      end
  | _, _ => bad_case
  end.
