(* C03: what the host's calls do once the plugin has died.
   Two layers.  (a) The waits: every public call is a sequence of blocking waits, each with the sources that can end
   it; the death of the plugin enables some of them (the kernel closes its sockets and pipes, the process wait returns),
   timers fire by themselves.  (b) The outcome table built on (a): which calls need the plugin, and hence must return
   an error, from which client state.  Executable definitions only. *)
From Coq Require Import List NArith ZArith Bool.
From GP Require Import Base.Val.
Import ListNotations.
Local Open Scope Z_scope.

Inductive proto := PNet | PGrpc | PGrpcMux.

Inductive op := OStart | OClient | ODispense | OPing | OCall | OStream | OBrokerDial | OBrokerAccept | OKill.

Record cparams := {
  cp_start_done : bool;        (* Start's wait for the line also selects on doneCtx *)
  cp_start_timeout : bool;     (* ... and on StartTimeout *)
  cp_lines_eof : bool;         (* the scanner goroutine closes the line channel at EOF *)
  cp_wait_cancels : bool;      (* the process-wait goroutine cancels doneCtx *)
  cp_wait_sets_exited : bool;  (* ... and sets exited *)
  cp_grpc_ctx : bool;          (* doneCtx is what GRPCPlugin.GRPCClient receives *)
  cp_mux_accept_timer : option Z;   (* seconds; None = waits with no timer *)
  cp_grpc_dial_timer : option Z;
  cp_grpc_knock_timer : option Z
}.

(* what can end a blocking wait *)
Inductive src :=
| SConn            (* an operation on a connection to the plugin fails once the plugin's end is closed *)
| SEof             (* the plugin's stdout ends *)
| SDone            (* doneCtx is cancelled *)
| STimer (s : Z).  (* a timer of s seconds *)

Definition wait := list src.

(* [eps]: assumed bound (ms) on how long the operating system takes to close a dead process's sockets and pipes and to
   report its exit; [tstart]: the configured StartTimeout (ms) *)
Definition fires (P : cparams) (eps : Z) (s : src) : option Z :=
  match s with
  | SConn => Some eps
  | SEof => if cp_lines_eof P then Some eps else None
  | SDone => if cp_wait_cancels P then Some eps else None
  | STimer s => Some (1000 * s)
  end.

Definition omin (a b : option Z) : option Z :=
  match a, b with Some x, Some y => Some (Z.min x y) | Some x, None => Some x | None, b => b end.

Definition wait_bound (P : cparams) (eps : Z) (w : wait) : option Z :=
  fold_right (fun s acc => omin (fires P eps s) acc) None w.

Definition oplus (a b : option Z) : option Z :=
  match a, b with Some x, Some y => Some (x + y) | _, _ => None end.

Definition timer_src (t : option Z) : list src := match t with Some s => [STimer s] | None => [] end.

(* the blocking waits of each public call, as the code has them *)
Definition waits (P : cparams) (tstart_s : Z) (pr : proto) (o : op) : list wait :=
  match o with
  | OStart =>
      (* the select also has a doneCtx arm, but it cannot fire while Start runs: Start holds the client lock from entry to
         return, and the process-wait goroutine takes that lock (to set exited) before its deferred cancel runs.  What
         ends the wait when the plugin dies is the scanner goroutine closing the line channel at EOF *)
      [ [SEof] ++ (if cp_start_timeout P then [STimer tstart_s] else []) ]
  | OClient => match pr with PGrpc => [] | _ => [[SConn]] end              (* gRPC dials lazily; net/rpc and the multiplexer dial at once *)
  | ODispense => match pr with PNet => [[SConn]] | _ => [] end            (* gRPC Dispense is local *)
  | OPing | OCall | OStream => [[SConn]]
  | OBrokerDial =>
      match pr with
      | PNet => [[SConn]]                                                    (* yamux stream to a dead peer *)
      | PGrpc => [timer_src (cp_grpc_dial_timer P); [SConn]]                 (* wait for the connection info, then the call *)
      | PGrpcMux => [SConn :: timer_src (cp_grpc_knock_timer P)]             (* knock, wait for the ack; or the session is gone *)
      end
  | OBrokerAccept =>
      match pr with
      | PNet => [timer_src (cp_mux_accept_timer P)]                           (* wait for the peer's stream *)
      | PGrpc => [[SConn]]                                                    (* send the connection info on the control stream *)
      | PGrpcMux => []                                                        (* registers a listener with the local multiplexer: nothing is sent *)
      end
  | OKill => []                                                               (* Kill of a dead plugin: nothing to wait for beyond doneCtx, already cancelled *)
  end.

Definition op_bound (P : cparams) (eps tstart_s : Z) (pr : proto) (o : op) : option Z :=
  fold_right (fun w acc => oplus (wait_bound P eps w) acc) (Some 0) (waits P tstart_s pr o).

(* ---- outcome table *)
Record hstate := { h_started : bool; h_client : bool; h_client_failed : bool }.

(* does the call need an answer from the plugin, from this client state? *)
Definition needs_plugin (pr : proto) (st : hstate) (o : op) : bool :=
  match o with
  | OStart => negb (h_started st)
  | OClient => if h_client st then false
               else match pr with
                    | PGrpc => negb (h_started st)
                    | PGrpcMux => negb (h_started st) || negb (h_client_failed st)   (* the once-initialised multiplexer reports its error only once *)
                    | PNet => true
                    end
  | ODispense => match pr with PNet => true | _ => false end
  | OPing | OCall | OStream | OBrokerDial => true
  | OBrokerAccept => match pr with PGrpcMux => false | _ => true end
  | OKill => false
  end.

(* allowed (ok, error) for a call issued after the death *)
Definition allowed_after (pr : proto) (st : hstate) (o : op) : bool * bool :=
  if needs_plugin pr st o then (false, true) else (true, false).

Definition step_state (st : hstate) (o : op) (ok : bool) : hstate :=
  match o with
  | OStart => {| h_started := h_started st || ok; h_client := h_client st; h_client_failed := h_client_failed st |}
  | OClient => {| h_started := h_started st || ok; h_client := h_client st || ok; h_client_failed := h_client_failed st || negb ok |}
  | _ => st
  end.

(* crash points: 0 before output, 1 mid line, 2 after the line, 3 idle, 4 in a unary call, 5 in a stream, 6 broker id issued
   (host dials), 7 dial promised (host accepts), 8 during stdio, 9 while many broker negotiations of the host are in flight *)
(* phase 1 = in flight when the plugin died, phase 2 = issued afterwards *)
Definition allowed (pr : proto) (point : Z) (phase : Z) (st : hstate) (o : op) : bool * bool :=
  if Z.eqb phase 0 then (true, false)
  else if Z.eqb phase 1 then
    match o with
    | OStart => if Z.eqb point 2 then (true, true) else (false, true)      (* line and exit race in Start's select *)
    | OBrokerAccept => match pr with PNet => (false, true) | _ => (true, true) end   (* the info may have been sent before the death *)
    | _ => (false, true)
    end
  else
    if Z.eqb point 2 then
      (* the listener's backlog takes connections until the process is gone: connecting may still succeed *)
      match o with
      | OClient => (true, true)
      | OStart => (true, true)
      | _ => allowed_after pr st o
      end
    else allowed_after pr st o.

Definition dop (z : Z) : option op :=
  match z with 0 => Some OStart | 1 => Some OClient | 2 => Some ODispense | 3 => Some OPing | 4 => Some OCall | 5 => Some OStream
             | 6 => Some OBrokerDial | 7 => Some OBrokerAccept | 8 => Some OKill | _ => None end.
Definition dproto (p : Z) (mux : bool) : proto := if Z.eqb p 0 then PNet else if mux then PGrpcMux else PGrpc.

(* the monitor: run over the observed calls; (accepted by the table, property holds) *)
Fixpoint monitor (pr : proto) (point : Z) (st : hstate) (ops : list (Z * Z * Z * Z)) : option (bool * bool) :=
  match ops with
  | [] => Some (true, true)
  | (oz, cls, slow, phase) :: rest =>
      match dop oz with
      | None => None
      | Some o =>
          let '(okA, errA) := allowed pr point phase st o in
          let ok := Z.eqb cls 0 in
          let acc := (if ok then okA else if Z.eqb cls 1 then errA else false) && Z.eqb slow 0 in
          (* the property: the call returned in time, and with an error if it was issued after the death and needed the plugin *)
          let prop := negb (Z.eqb cls 2) && Z.eqb slow 0 && (if Z.eqb phase 2 && negb (Z.eqb point 2) && needs_plugin pr st o then Z.eqb cls 1 else true) in
          match monitor pr point (step_state st o ok) rest with
          | Some (a, p) => Some (acc && a, prop && p)
          | None => None
          end
      end
  end.

Definition dop4 (v : V) : option (Z * Z * Z * Z) :=
  match v with VL [VI a; VI b; VI c; VI d] => Some (a, b, c, d) | _ => None end.

(* input (proto mux point); obs (ops exited ctx panicked); ctx: 0 no gRPC plugin client was created, 1 not cancelled, 2 cancelled *)
Definition check_crash (P : cparams) (inp obs : V) : verdict :=
  match inp, obs with
  | VL [VI p; m; VI point], VL [ops; ex; VI ctx; VI pan] =>
      match dbool m, dbool ex, dlist dop4 ops with
      | Some m, Some ex, Some ol =>
          let pr := dproto p m in
          match monitor pr point {| h_started := false; h_client := false; h_client_failed := false |} ol with
          | Some (acc, prop) =>
              let exited_pred := cp_wait_cancels P && cp_wait_sets_exited P in
              let ctx_ok := negb (Z.eqb ctx 1) in
              {| v_decoded := true;
                 v_agree := acc && Bool.eqb ex exited_pred && (if cp_grpc_ctx P then ctx_ok else true) && Z.eqb pan 0;
                 v_oracle_impl := prop && ex && ctx_ok && Z.eqb pan 0;
                 v_oracle_model := exited_pred && cp_grpc_ctx P;
                 v_model_obs := VL [vbool exited_pred; vbool (cp_grpc_ctx P)];
                 v_branch := VL [VI p; vbool m; VI point] |}
          | None => bad_case
          end
      | _, _, _ => bad_case
      end
  | _, _ => bad_case
  end.
