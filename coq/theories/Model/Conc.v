(* C20: the three mechanisms go-plugin relies on for concurrent use, as machines over schedules:
   (1) id allocation by an atomic fetch-and-add on a uint32 (and, for contrast, a read-then-write counter);
   (2) shutdown paths that close a channel under a once guard (and, for contrast, check-then-close);
   (3) mutex discipline: traces of acquire / release / access events, lock semantics, and the event sequences
       the extracted access table assigns to every API function.
   Executable definitions only; proofs in Proofs/ConcP.v. *)
From Coq Require Import List NArith ZArith Bool String.
From GP Require Import Base.Val Generated.
Import ListNotations.
Local Open Scope Z_scope.

(* ------------------------------------------------------------------ 1. ids *)
Definition wrap32 (z : Z) : Z := z mod 4294967296.

Inductive idev :=
| IInc (t : nat)          (* atomic.AddUint32(&nextId, 1): one indivisible step *)
| IRd (t : nat)           (* non-atomic variant: load the counter ... *)
| IWr (t : nat).          (* ... then store the loaded value + 1 and return it *)

Record idst := { i_shared : Z; i_local : list (nat * Z); i_out : list Z }.

Fixpoint lookup_nat (t : nat) (l : list (nat * Z)) : option Z :=
  match l with [] => None | (t', v) :: r => if Nat.eqb t t' then Some v else lookup_nat t r end.

Definition id_step (s : idst) (e : idev) : idst :=
  match e with
  | IInc _ => let v := wrap32 (i_shared s + 1) in {| i_shared := v; i_local := i_local s; i_out := i_out s ++ [v] |}
  | IRd t => {| i_shared := i_shared s; i_local := (t, i_shared s) :: i_local s; i_out := i_out s |}
  | IWr t => match lookup_nat t (i_local s) with
             | Some v0 => let v := wrap32 (v0 + 1) in {| i_shared := v; i_local := i_local s; i_out := i_out s ++ [v] |}
             | None => s
             end
  end.

Definition ids_of (s0 : Z) (sched : list idev) : list Z :=
  i_out (fold_left id_step sched {| i_shared := s0; i_local := []; i_out := [] |}).

Definition is_inc (e : idev) : bool := match e with IInc _ => true | _ => false end.

(* what the code's NextId contributes to a schedule: one step when atomic, two when not *)
Definition nextid_events (atomic : bool) (t : nat) : list idev := if atomic then [IInc t] else [IRd t; IWr t].

(* ------------------------------------------------------------------ 2. close once *)
Inductive clev :=
| CDo (t : nat)           (* once.Do(func() { close(ch) }) / lock; if ch != nil { close(ch); ch = nil }; unlock : indivisible *)
| CChk (t : nat)          (* unguarded variant: look whether the channel is still open ... *)
| CCls (t : nat).         (* ... then close it *)

Record clst := { c_closed : bool; c_done : bool; c_saw : list nat; c_closes : nat; c_panics : nat }.

Definition cl_step (s : clst) (e : clev) : clst :=
  match e with
  | CDo _ => if c_done s then s
             else {| c_closed := true; c_done := true; c_saw := c_saw s;
                     c_closes := if c_closed s then c_closes s else S (c_closes s);
                     c_panics := if c_closed s then S (c_panics s) else c_panics s |}
  | CChk t => if c_closed s then s else {| c_closed := c_closed s; c_done := c_done s; c_saw := t :: c_saw s; c_closes := c_closes s; c_panics := c_panics s |}
  | CCls t => if existsb (Nat.eqb t) (c_saw s)
              then (if c_closed s
                    then {| c_closed := true; c_done := c_done s; c_saw := c_saw s; c_closes := c_closes s; c_panics := S (c_panics s) |}   (* close of closed channel *)
                    else {| c_closed := true; c_done := c_done s; c_saw := c_saw s; c_closes := S (c_closes s); c_panics := c_panics s |})
              else s
  end.

Definition cl_init : clst := {| c_closed := false; c_done := false; c_saw := []; c_closes := 0%nat; c_panics := 0%nat |}.
Definition cl_run (sched : list clev) : clst := fold_left cl_step sched cl_init.
Definition is_do (e : clev) : bool := match e with CDo _ => true | _ => false end.
Definition close_events (guarded : bool) (t : nat) : list clev := if guarded then [CDo t] else [CChk t; CCls t].

(* ------------------------------------------------------------------ 2b. a reply channel that its requester closes *)
(* The broker streams' Send makes a reply channel, hands it with the request to the stream goroutine, and closes it when it
   returns (defer close(ch)).  The stream goroutine answers every request it took with one send on that channel (unbuffered:
   the send completes when the requester receives).  Events: *)
Inductive rqev :=
| RqTake          (* the stream goroutine takes the request *)
| RqReply         (* ... and delivers the reply; with a waiting requester this is the rendezvous after which Send returns *)
| RqGiveUp.       (* the requester returns without the reply (broker closed) and closes the channel *)

Record rqst := { q_taken : bool; q_replied : bool; q_closed : bool; q_panic : bool }.

Definition rq_step (waits : bool) (s : rqst) (e : rqev) : rqst :=
  match e with
  | RqTake => {| q_taken := true; q_replied := q_replied s; q_closed := q_closed s; q_panic := q_panic s |}
  | RqReply =>
      if q_taken s && negb (q_replied s)
      then if q_closed s
           then {| q_taken := true; q_replied := true; q_closed := true; q_panic := true |}      (* send on closed channel *)
           else {| q_taken := true; q_replied := true; q_closed := true; q_panic := q_panic s |}  (* received; Send returns; deferred close *)
      else s
  | RqGiveUp =>
      (* only a requester that does not insist on the reply can take this way out, and only while it has not returned yet *)
      if waits || q_closed s then s
      else {| q_taken := q_taken s; q_replied := q_replied s; q_closed := true; q_panic := q_panic s |}
  end.

Definition rq_init : rqst := {| q_taken := false; q_replied := false; q_closed := false; q_panic := false |}.
Definition rq_run (waits : bool) (sched : list rqev) : rqst := fold_left (rq_step waits) sched rq_init.

(* ------------------------------------------------------------------ 3. mutex discipline *)
(* Traces are written NEWEST EVENT FIRST: consing an event extends the execution in time. *)
Inductive ev :=
| Acq (t : nat) (l : string)
| Rel (t : nat) (l : string)
| Acc (t : nat) (f : string) (w : bool).     (* plain (non-atomic) read or write of field f *)

Definition ev_thread (e : ev) : nat := match e with Acq t _ | Rel t _ | Acc t _ _ => t end.

(* who holds lock l after the trace *)
Fixpoint holder (l : string) (tr : list ev) : option nat :=
  match tr with
  | [] => None
  | Acq t l' :: old => if String.eqb l' l then Some t else holder l old
  | Rel t l' :: old => if String.eqb l' l then None else holder l old
  | Acc _ _ _ :: old => holder l old
  end.

(* lock semantics: acquire only a free lock, release only a lock one holds *)
Fixpoint wf (tr : list ev) : Prop :=
  match tr with
  | [] => True
  | Acq t l :: old => holder l old = None /\ wf old
  | Rel t l :: old => holder l old = Some t /\ wf old
  | Acc _ _ _ :: old => wf old
  end.

(* thread-local view: has thread t acquired l and not released it since? *)
Fixpoint lheld (t : nat) (l : string) (tr : list ev) : bool :=
  match tr with
  | [] => false
  | Acq t' l' :: old => if (Nat.eqb t' t && String.eqb l' l)%bool then true else lheld t l old
  | Rel t' l' :: old => if (Nat.eqb t' t && String.eqb l' l)%bool then false else lheld t l old
  | Acc _ _ _ :: old => lheld t l old
  end.

Definition proj (t : nat) (tr : list ev) : list ev := filter (fun e => Nat.eqb (ev_thread e) t) tr.

(* every access happens with the lock of its field held by the accessing thread *)
Fixpoint bracketed (lk : string -> option string) (tr : list ev) : bool :=
  match tr with
  | [] => true
  | Acc t f _ :: old => (match lk f with Some l => lheld t l old | None => false end) && bracketed lk old
  | _ :: old => bracketed lk old
  end.

(* ---- the extracted table *)
Definition row := (string * string * string * bool * guard)%type.
Definition row_field (r : row) : string := match r with (s, f, _, _, _) => (s ++ "." ++ f)%string end.
Definition row_fn (r : row) : string := match r with (_, _, fn, _, _) => fn end.
Definition row_write (r : row) : bool := match r with (_, _, _, w, _) => w end.
Definition row_guard (r : row) : guard := match r with (_, _, _, _, g) => g end.

Fixpoint lock_of (tbl : list row) (f : string) : option string :=
  match tbl with
  | [] => None
  | r :: rest => match row_guard r with
                 | GLock l => if String.eqb (row_field r) f then Some l else lock_of rest f
                 | _ => lock_of rest f
                 end
  end.

Definition opt_str_eqb (a b : option string) : bool :=
  match a, b with Some x, Some y => String.eqb x y | None, None => true | _, _ => false end.

(* no access is unordered, and all mutex-ordered accesses of one field use one mutex *)
Definition table_ok (tbl : list row) : bool :=
  forallb (fun r => match row_guard r with
                    | GNone => false
                    | GLock l => opt_str_eqb (lock_of tbl (row_field r)) (Some l)
                    | _ => true
                    end) tbl.

(* the events one call of function fn by thread t contributes (newest first): for every mutex-ordered access of
   fn, acquire - access - release.  Accesses ordered by an atomic, a sync.Once or a recorded happens-before edge
   are outside the mutex model (they are listed in the trusted base). *)
Definition row_events (t : nat) (r : row) : list ev :=
  match row_guard r with
  | GLock l => [Rel t l; Acc t (row_field r) (row_write r); Acq t l]
  | _ => []
  end.

Definition call_events (tbl : list row) (t : nat) (fn : string) : list ev :=
  List.concat (map (row_events t) (filter (fun r => String.eqb (row_fn r) fn) tbl)).

(* a thread's whole trace: its calls, latest first *)
Definition thread_trace (tbl : list row) (t : nat) (calls : list string) : list ev :=
  List.concat (map (call_events tbl t) calls).

(* unguarded access (a GNone row) for the refutation example *)
Definition bare_access (t : nat) (f : string) (w : bool) : list ev := [Acc t f w].

(* ------------------------------------------------------------------ 4. lock order *)
(* a snapshot of who holds which mutexes and who waits for which *)
Record wstate := { w_holds : nat -> list string; w_waits : nat -> option string }.

Fixpoint rank_of (ranks : list (string * nat)) (l : string) : option nat :=
  match ranks with [] => None | (k, r) :: t => if String.eqb k l then Some r else rank_of t l end.

(* the certificate: every edge goes strictly upwards in the numbering *)
Definition ranks_ok (edges : list (string * string)) (ranks : list (string * nat)) : bool :=
  forallb (fun e => match rank_of ranks (fst e), rank_of ranks (snd e) with
                    | Some a, Some b => Nat.ltb a b
                    | _, _ => false
                    end) edges.

Definition edge_in (edges : list (string * string)) (h w : string) : bool :=
  existsb (fun e => String.eqb (fst e) h && String.eqb (snd e) w) edges.

(* ------------------------------------------------------------------ glue (prop 20) *)
Fixpoint nodupb (l : list Z) : bool :=
  match l with [] => true | x :: r => negb (existsb (Z.eqb x) r) && nodupb r end.

Fixpoint zlist_eqb (a b : list Z) : bool :=
  match a, b with [] , [] => true | x :: a', y :: b' => Z.eqb x y && zlist_eqb a' b' | _, _ => false end.

Definition dzlist (v : V) : option (list Z) := dlist dI v.

(* input (n_host_ids n_plugin_ids); obs (host_races plugin_races panics failed_ops host_ids plugin_ids), ids sorted *)
Definition check_conc (atomic : bool) (inp obs : V) : verdict :=
  match inp, obs with
  | VL [VI nh; VI np], VL [VI rh; VI rp; VI pn; VI fl; hids; pids] =>
      match dzlist hids, dzlist pids with
      | Some hl, Some pl =>
          let sched := List.concat (map (nextid_events atomic) (seq 0 (Z.to_nat nh))) in
          let predicted := ids_of 0 sched in
          let clean := (Z.eqb rh 0 && Z.eqb rp 0 && Z.eqb pn 0)%bool in
          {| v_decoded := true;
             v_agree := (clean && Z.eqb fl 0 && zlist_eqb hl predicted && nodupb pl && Z.eqb (Z.of_nat (List.length pl)) np)%bool;
             v_oracle_impl := (clean && nodupb hl && nodupb pl)%bool;
             v_oracle_model := nodupb predicted;
             v_model_obs := VL [VI 0; VI 0; VI 0; VI 0; VL (map VI predicted)];
             v_branch := VL [vbool (Z.ltb 0 nh); vbool (Z.ltb 0 np)] |}
      | _, _ => bad_case
      end
  | _, _ => bad_case
  end.
