(* C10: the host's handling of the plugin's real stderr (client.go logStderr, log_entry.go
   parseJSON) and of stdout after the handshake (the scanner goroutine in Start).
   Executable model only. *)
From Coq Require Import List NArith ZArith Bool String.
From GP Require Import Base.Val Base.Bytes Base.GoStrings.
Import ListNotations.

(* ---- bufio.Reader.ReadLine for a buffer of n bytes (n >= 16), on the remaining stream *)
Inductive rl := RlEof | RlLine (chunk : bytes) (is_prefix : bool) (rest : bytes).

(* split at the first newline found among the first n bytes: (line incl. newline stripped, rest) *)
Fixpoint find_nl (n : nat) (s : bytes) (acc : bytes) : option (bytes * bytes) :=
  match n, s with
  | O, _ => None
  | _, [] => None
  | S n', c :: r => if N.eqb c 10 then Some (frev acc, r) else find_nl n' r (c :: acc)
  end.

Definition last_is_cr (l : bytes) : bool :=
  match frev l with c :: _ => N.eqb c 13 | [] => false end.

Definition strip_cr (l : bytes) : bytes :=
  if last_is_cr l then frev (tl (frev l)) else l.

Definition read_line (n : nat) (s : bytes) : rl :=
  match s with
  | [] => RlEof
  | _ =>
    match find_nl n s [] with
    | Some (l, rest) => RlLine (strip_cr l) false rest
    | None =>
      if Nat.leb n (List.length s) then
        let full := firstn n s in
        if last_is_cr full
        then RlLine (firstn (n - 1) s) true (skipn (n - 1) s)   (* the CR is pushed back *)
        else RlLine full true (skipn n s)
      else RlLine s false []                                     (* unterminated last line at EOF *)
    end
  end.

(* NewClient: 0 means the default; bufio.NewReaderSize: anything below 16 means 16 *)
Definition buf_size (default : N) (configured : Z) : nat :=
  let c := if Z.eqb configured 0 then Z.of_N default else configured in
  if Z.ltb c 16 then 16%nat else Z.to_nat c.

(* ---- what json.Unmarshal into map[string]interface{} gave for a line (oracle: encoding/json) *)
Inductive jval := JStr (s : bytes) | JOther (repr : bytes).
Inductive decoded := NotJSON | JObj (kvs : list (bytes * jval)).

Inductive level := LTrace | LDebug | LInfo | LWarn | LError.
Record record := { r_level : level; r_msg : bytes; r_kvs : list (bytes * bytes); r_ts : bytes }.

(* hclog.LevelFromString: TrimSpace, ToLower, compare.  ToLower: ASCII, plus U+0130 (C4 B0) -> 'i';
   any other non-ASCII byte cannot lower-case into one of the five words *)
Fixpoint lower_go (s : bytes) : option bytes :=
  match s with
  | [] => Some []
  | 196 :: 176 :: r => match lower_go r with Some t => Some (105 :: t) | None => None end
  | c :: r =>
      if N.leb 128 c then None else
      match lower_go r with
      | Some t => Some ((if N.leb 65 c && N.leb c 90 then c + 32 else c) :: t)
      | None => None
      end
  end%N.

Definition level_from_string (s : bytes) : option level :=
  match lower_go (trim_space s) with
  | None => None
  | Some t =>
    if bytes_eqb t (bs "trace") then Some LTrace else
    if bytes_eqb t (bs "debug") then Some LDebug else
    if bytes_eqb t (bs "info") then Some LInfo else
    if bytes_eqb t (bs "warn") then Some LWarn else
    if bytes_eqb t (bs "error") then Some LError else None
  end.

Fixpoint jget (k : bytes) (kvs : list (bytes * jval)) : option jval :=
  match kvs with [] => None | (k', v) :: r => if bytes_eqb k k' then Some v else jget k r end.
Fixpoint jdel (k : bytes) (kvs : list (bytes * jval)) : list (bytes * jval) :=
  match kvs with [] => [] | (k', v) :: r => if bytes_eqb k k' then jdel k r else (k', v) :: jdel k r end.
Definition jrepr (v : jval) : bytes := match v with JStr s => s | JOther r => r end.

Record sd_params := {
  sp_checked_assertions : bool;      (* parseJSON's string assertions are comma-ok *)
  sp_prefixes : list bytes;          (* the text prefixes of logStderr, in order *)
  sp_drains_after_scan_stop : bool;  (* Start keeps draining stdout once the scanner stopped *)
  sp_default_buf : N                 (* defaultPluginLogBufferSize *)
}.

(* parseJSON: Some None = error (treated as non-JSON), None = panic *)
Inductive pj := PjPanic | PjErr | PjEntry (msg lvl : bytes) (has_ts : bool) (kvs : list (bytes * jval)).

(* ts_ok: time.Parse accepted the @timestamp string (oracle: package time) *)
Definition parse_json (P : sd_params) (d : decoded) (ts_ok : bool) : pj :=
  match d with
  | NotJSON => PjErr
  | JObj kvs =>
    let str_or (k : bytes) (cont : bytes -> list (bytes * jval) -> pj) (kvs : list (bytes * jval)) : pj :=
      match jget k kvs with
      | None => cont [] kvs
      | Some (JStr s) => cont s (jdel k kvs)
      | Some (JOther _) => if sp_checked_assertions P then PjErr else PjPanic
      end in
    str_or (bs "@message") (fun msg kvs1 =>
    str_or (bs "@level") (fun lvl kvs2 =>
      match jget (bs "@timestamp") kvs2 with
      | None => PjEntry msg lvl false kvs2
      | Some (JStr _) => if ts_ok then PjEntry msg lvl true (jdel (bs "@timestamp") kvs2) else PjErr
      | Some (JOther _) => if sp_checked_assertions P then PjErr else PjPanic
      end) kvs1) kvs
  end.

(* the text path: level by prefix, panic-trace flag *)
Definition text_level (P : sd_params) (line : bytes) (panic : bool) : level * bool :=
  let hp (i : nat) := has_prefix (nth i (sp_prefixes P) [0%N]) line in
  if hp 0%nat then (LTrace, false) else
  if hp 1%nat then (LDebug, false) else
  if hp 2%nat then (LInfo, false) else
  if hp 3%nat then (LWarn, false) else
  if hp 4%nat then (LError, false) else
  if hp 5%nat then (LError, true) else
  if panic then (LError, true) else (LDebug, false).

Inductive out_ev := OWrite (b : bytes) | ORecord (r : record) | OPanicEv.

(* per complete line, the oracle answers: (decoded, ts_ok, ts_formatted) keyed by position in the
   sequence of complete (non-prefix, non-continuation) lines *)
Definition line_oracle := (decoded * bool * bytes)%type.

Definition classify (P : sd_params) (line : bytes) (o : line_oracle) (panic : bool) : list out_ev * bool :=
  let '(d, ts_ok, ts_fmt) := o in
  match parse_json P d ts_ok with
  | PjPanic => ([OPanicEv], panic)
  | PjErr =>
      let '(lv, p') := text_level P line panic in
      ([ORecord {| r_level := lv; r_msg := line; r_kvs := []; r_ts := [] |}], p')
  | PjEntry msg lvl has_ts kvs =>
      match level_from_string lvl with
      | Some lv => ([ORecord {| r_level := lv; r_msg := msg; r_kvs := map (fun kv => (fst kv, jrepr (snd kv))) kvs; r_ts := ts_fmt |}], false)
      | None => ([ORecord {| r_level := LDebug; r_msg := line; r_kvs := []; r_ts := [] |}], false)
      end
  end.

(* the loop of logStderr; fuel = number of ReadLine calls; oracles consumed one per complete line *)
Fixpoint log_stderr (fuel : nat) (P : sd_params) (n : nat) (s : bytes) (orc : list line_oracle)
         (cont panic : bool) : list out_ev :=
  match fuel with
  | O => []
  | S f =>
    match read_line n s with
    | RlEof => []
    | RlLine chunk is_prefix rest =>
      if is_prefix || cont then
        OWrite chunk :: ORecord {| r_level := LDebug; r_msg := chunk; r_kvs := []; r_ts := [] |} ::
        (if is_prefix then [] else [OWrite [10%N]]) ++
        log_stderr f P n rest orc is_prefix panic
      else
        let o := match orc with o :: _ => o | [] => (NotJSON, false, []) end in
        let '(evs, panic') := classify P chunk o panic in
        OWrite chunk :: OWrite [10%N] :: evs ++
        (if existsb (fun e => match e with OPanicEv => true | _ => false end) evs then []
         else log_stderr f P n rest (tl orc) false panic')
    end
  end.

Definition writes_of (evs : list out_ev) : bytes :=
  flat_map (fun e => match e with OWrite b => b | _ => [] end) evs.
Definition records_of (evs : list out_ev) : list record :=
  flat_map (fun e => match e with ORecord r => [r] | _ => [] end) evs.
Definition panics (evs : list out_ev) : bool :=
  existsb (fun e => match e with OPanicEv => true | _ => false end) evs.

(* ---- specification side, independent of any buffer size: the input with every CR LF turned into
   LF, cut at LF; whether the last line is terminated does not matter *)
Definition starts_lf (r : bytes) : bool := match r with d :: _ => N.eqb d 10 | [] => false end.
Fixpoint normalize (s : bytes) : bytes :=
  match s with
  | c :: r => if N.eqb c 13 && starts_lf r then normalize r else c :: normalize r
  | [] => []
  end.
Fixpoint lines_acc (s : bytes) (cur : bytes) : list bytes :=
  match s with
  | [] => match cur with [] => [] | _ => [frev cur] end
  | c :: r => if N.eqb c 10 then frev cur :: lines_acc r [] else lines_acc r (c :: cur)
  end.
Definition lines (s : bytes) : list bytes := lines_acc s [].

(* ---- stdout after the handshake: the scanner goroutine + drain *)
Definition scanner_limit : N := 65536%N.
(* number of bytes consumed from a stream of line lengths (each incl. its newline; the last may be unterminated) *)
Fixpoint stdout_consumed (P : sd_params) (line_lens : list N) : N * bool :=
  match line_lens with
  | [] => (0%N, true)
  | l :: r =>
      if N.leb l scanner_limit then let '(c, ok) := stdout_consumed P r in (l + c, ok)%N
      else if sp_drains_after_scan_stop P then (fold_right N.add 0%N line_lens, true)
      else (scanner_limit, false)    (* the scanner stops; nothing reads the pipe any more *)
  end.

(* ---- glue *)
Definition level_code (l : level) : Z :=
  match l with LTrace => 1 | LDebug => 2 | LInfo => 3 | LWarn => 4 | LError => 5 end%Z.

Definition djval (v : V) : option jval :=
  match v with VL [VI 0%Z; VB s] => Some (JStr s) | VL [VI 1%Z; VB r] => Some (JOther r) | _ => None end.
Definition dkv (v : V) : option (bytes * jval) :=
  match v with VL [VB k; j] => j <- djval j ;; Some (k, j) | _ => None end.
Definition dorc (v : V) : option line_oracle :=
  match v with
  | VL [VI 0%Z] => Some (NotJSON, false, [])
  | VL [VI 1%Z; VL kvs; tsok; VB tsf] => kvs <- omap dkv kvs ;; tsok <- dbool tsok ;; Some (JObj kvs, tsok, tsf)
  | _ => None
  end.

(* canonical encoding of records: kvs sorted by the harness; here we sort by insertion into an
   ordered list on the encoded pair so both sides compare as multisets *)
Fixpoint bytes_leb (a b : bytes) : bool :=
  match a, b with
  | [], _ => true
  | _ :: _, [] => false
  | x :: a', y :: b' => if N.ltb x y then true else if N.ltb y x then false else bytes_leb a' b'
  end.
Definition kv_leb (a b : bytes * bytes) : bool :=
  if bytes_eqb (fst a) (fst b) then bytes_leb (snd a) (snd b) else bytes_leb (fst a) (fst b).
Fixpoint kv_insert (x : bytes * bytes) (l : list (bytes * bytes)) :=
  match l with [] => [x] | y :: r => if kv_leb x y then x :: l else y :: kv_insert x r end.
Definition kv_sort (l : list (bytes * bytes)) := fold_right kv_insert [] l.

Definition enc_record (r : record) : V :=
  VL [VI (level_code (r_level r)); VB (r_msg r);
      VL (map (fun kv => VL [VB (fst kv); VB (snd kv)]) (kv_sort (r_kvs r))); VB (r_ts r)].

(* input: (bufsize bytes (oracle...)) obs: (panicked writes (records...)) *)
Definition obs_stderr (P : sd_params) (inp : V) : option V :=
  match inp with
  | VL [VI b; VB s; VL orcs] =>
      orcs <- omap dorc orcs ;;
      let evs := log_stderr (S (List.length s)) P (buf_size (sp_default_buf P) b) s orcs false false in
      Some (VL [vbool (panics evs); VB (writes_of evs); VL (map enc_record (records_of evs))])
  | _ => None
  end.

(* property oracle: no panic; the forwarded bytes have exactly the input's lines *)
Fixpoint list_bytes_eqb (a b : list bytes) : bool :=
  match a, b with
  | [], [] => true
  | x :: a', y :: b' => bytes_eqb x y && list_bytes_eqb a' b'
  | _, _ => false
  end.
(* ... and, from the property's sentence about records: every line gives at least one record, and every line that
   fits the buffer with its terminator, is plain text (contains no '{', so cannot be a JSON object) and lies outside a panic trace is
   found among the records with its own text as the message, at the level of its [LEVEL] prefix (debug without one),
   wherever it stands in the stream *)
Definition starts_with (c : N) (l : bytes) : bool := match l with d :: _ => N.eqb d c | [] => false end.
(* ... and for hclog JSON: when every line fits the buffer (so that lines and parser verdicts line up one to one), a line
   that encoding/json reads as an object with string @level (one of the five names) and string @message, and no
   @timestamp, is found among the records at that level, with that message and with every other key among its fields *)
Definition rec_matches (lv : level) (msg : bytes) (keys : list bytes) (r : V) : bool :=
  match r with
  | VL [VI lc; VB m; VL kvl; _] =>
      Z.eqb lc (level_code lv) && bytes_eqb m msg &&
      forallb (fun k => existsb (fun kv => match kv with VL [VB k'; _] => bytes_eqb k k' | _ => false end) kvl) keys
  | _ => false
  end.
Definition json_rec_ok (recs : list V) (o : V) : bool :=
  match dorc o with
  | Some (JObj kvs, _, _) =>
      match jget (bs "@level") kvs, jget (bs "@message") kvs, jget (bs "@timestamp") kvs with
      | Some (JStr lv), Some (JStr m), None =>
          match level_from_string lv with
          | Some L =>
              let keys := map fst (jdel (bs "@level") (jdel (bs "@message") kvs)) in
              existsb (rec_matches L m keys) recs
          | None => true
          end
      | _, _, _ => true
      end
  | _ => true
  end.
Definition oracle_stderr (P : sd_params) (inp obs : V) : option bool :=
  match inp, obs with
  | VL [VI b; VB s; VL orcs], VL [p; VB w; VL recs] =>
      p <- dbool p ;;
      let ls := lines (normalize s) in
      let n := buf_size (sp_default_buf P) b in
      let no_trace := negb (existsb (has_prefix (nth 5%nat (sp_prefixes P) [0%N])) ls) in
      let expected (l : bytes) := enc_record {| r_level := fst (text_level P l false); r_msg := l; r_kvs := []; r_ts := [] |} in
      let rec_ok (l : bytes) :=
        if Nat.ltb (List.length l + 2) n && negb (existsb (N.eqb 123) l) && no_trace
        then existsb (V_eqb (expected l)) recs else true in
      Some (negb p && list_bytes_eqb (lines w) (lines (normalize s)) &&
            (p || (Nat.leb (List.length ls) (List.length recs) && forallb rec_ok ls)) &&
            (p || negb (forallb (fun l => Nat.ltb (List.length l + 2) n) ls) || negb (Nat.eqb (List.length ls) (List.length orcs)) ||
             forallb (json_rec_ok recs) orcs))
  | _, _ => None
  end.

Definition check_stderr (P : sd_params) (inp obs : V) : verdict :=
  match obs_stderr P inp, oracle_stderr P inp obs with
  | Some m, Some oi =>
      {| v_decoded := true; v_agree := V_eqb m obs; v_oracle_impl := oi;
         v_oracle_model := match oracle_stderr P inp m with Some b => b | None => false end;
         v_model_obs := m;
         v_branch := match m with VL [_; _; VL recs] => vnat (Nat.min 3 (List.length recs)) | _ => VL [] end |}
  | _, _ => bad_case
  end.

(* stdout family: input (line lengths...) obs: (writer_completed) *)
Definition check_stdout (P : sd_params) (inp obs : V) : verdict :=
  match inp, obs with
  | VL lens, VL [done] =>
      match omap dN lens, dbool done with
      | Some lens, Some done =>
          let '(c, ok) := stdout_consumed P lens in
          {| v_decoded := true; v_agree := Bool.eqb ok done; v_oracle_impl := done; v_oracle_model := ok;
             v_model_obs := VL [vbool ok; vN c];
             v_branch := vbool (existsb (fun l => negb (N.leb l scanner_limit)) lens) |}
      | _, _ => bad_case
      end
  | _, _ => bad_case
  end.
