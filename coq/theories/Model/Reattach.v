(* C15: reattaching to running plugins.  A world of plugin instances (real processes, or in-process
   test-mode servers) and clients; the address recorded in a reattach config identifies its instance
   while that instance is alive (OS oracle: a listening address belongs to one process).
   Executable model only. *)
From Coq Require Import List NArith ZArith Bool PeanoNat.
From GP Require Import Base.Val.
Import ListNotations.

Record inst := { i_alive : bool; i_test : bool; i_store : Z }.
Record rcl := { c_inst : nat; c_test : bool; c_live : bool }.   (* c_live: its Start succeeded and it was not killed (non-test) *)
Record world := { insts : list inst; cls : list rcl }.

Inductive rop :=
| RStart (test : bool)        (* launch a plugin (or serve one in test mode) and obtain the first client *)
| RReattach (c : nat)         (* NewClient(Reattach: client c's ReattachConfig()).Start() *)
| RSet (c : nat) (v : Z) | RGet (c : nat)
| RKill (c : nat)
| RDie (i : nat)              (* the process is killed from outside *)
| RCancel (i : nat)           (* cancel the context of a test-mode server *)
| RAlive (i : nat).

Fixpoint updl {A} (l : list A) (i : nat) (x : A) : list A :=
  match l, i with [], _ => [] | _ :: t, O => x :: t | h :: t, S j => h :: updl t j x end.

Definition inst_alive (w : world) (i : nat) : bool := match nth_error (insts w) i with Some x => i_alive x | None => false end.
Definition set_alive (w : world) (i : nat) (b : bool) : world :=
  match nth_error (insts w) i with
  | Some x => {| insts := updl (insts w) i {| i_alive := b; i_test := i_test x; i_store := i_store x |}; cls := cls w |}
  | None => w
  end.

(* observation codes: reattach 1 ok / 0 process-not-found; set 1/0; get value or -1; alive 1/0; others 0 *)
Definition rstep (w : world) (o : rop) : world * Z :=
  match o with
  | RStart t =>
      ({| insts := insts w ++ [{| i_alive := true; i_test := t; i_store := 0 |}];
          cls := cls w ++ [{| c_inst := length (insts w); c_test := t; c_live := true |}] |}, 1%Z)
  | RReattach c =>
      match nth_error (cls w) c with
      | Some x =>
          if inst_alive w (c_inst x)
          then ({| insts := insts w; cls := cls w ++ [{| c_inst := c_inst x; c_test := c_test x; c_live := true |}] |}, 1%Z)
          else ({| insts := insts w; cls := cls w ++ [{| c_inst := c_inst x; c_test := c_test x; c_live := false |}] |}, 0%Z)
      | None => (w, (-2)%Z)
      end
  | RSet c v =>
      match nth_error (cls w) c with
      | Some x =>
          if c_live x && inst_alive w (c_inst x) then
            match nth_error (insts w) (c_inst x) with
            | Some y => ({| insts := updl (insts w) (c_inst x) {| i_alive := i_alive y; i_test := i_test y; i_store := v |}; cls := cls w |}, 1%Z)
            | None => (w, 0%Z)
            end
          else (w, 0%Z)
      | None => (w, (-2)%Z)
      end
  | RGet c =>
      match nth_error (cls w) c with
      | Some x => if c_live x && inst_alive w (c_inst x)
                  then (w, match nth_error (insts w) (c_inst x) with Some y => i_store y | None => (-1)%Z end)
                  else (w, (-1)%Z)
      | None => (w, (-2)%Z)
      end
  | RKill c =>
      match nth_error (cls w) c with
      | Some x =>
          if c_test x then (w, 0%Z)     (* test mode: no runner is recorded, Kill does nothing to the server *)
          else if c_live x
               then ({| insts := insts (set_alive w (c_inst x) false);
                        cls := updl (cls w) c {| c_inst := c_inst x; c_test := false; c_live := false |} |}, 0%Z)
               else (w, 0%Z)
      | None => (w, (-2)%Z)
      end
  | RDie i => (set_alive w i false, 0%Z)
  | RCancel i => match nth_error (insts w) i with
                 | Some x => if i_test x then (set_alive w i false, 0%Z) else (w, 0%Z)
                 | None => (w, (-2)%Z)
                 end
  | RAlive i => (w, if inst_alive w i then 1%Z else 0%Z)
  end.

Fixpoint rrun (w : world) (ops : list rop) : world * list Z :=
  match ops with
  | [] => (w, [])
  | o :: r => let '(w1, x) := rstep w o in let '(w2, xs) := rrun w1 r in (w2, x :: xs)
  end.
Definition w0 : world := {| insts := []; cls := [] |}.

(* ---- glue: ops as (kind a b) *)
Definition drop_ (v : V) : option rop :=
  match v with
  | VL [VI 0%Z; t; _] => t <- dbool t ;; Some (RStart t)
  | VL [VI 1%Z; VI c; _] => Some (RReattach (Z.to_nat c))
  | VL [VI 2%Z; VI c; VI x] => Some (RSet (Z.to_nat c) x)
  | VL [VI 3%Z; VI c; _] => Some (RGet (Z.to_nat c))
  | VL [VI 4%Z; VI c; _] => Some (RKill (Z.to_nat c))
  | VL [VI 5%Z; VI i; _] => Some (RDie (Z.to_nat i))
  | VL [VI 6%Z; VI i; _] => Some (RCancel (Z.to_nat i))
  | VL [VI 7%Z; VI i; _] => Some (RAlive (Z.to_nat i))
  | _ => None
  end.

Definition check_reattach (inp obs : V) : verdict :=
  match inp, obs with
  | VL ops, VL outs =>
      match omap drop_ ops, omap dI outs with
      | Some ops, Some outs =>
          let m := snd (rrun w0 ops) in
          {| v_decoded := true; v_agree := V_eqb (VL (map VI m)) obs;
             v_oracle_impl := V_eqb (VL (map VI m)) obs;   (* the model IS the property here: same instance, not-found, test-mode survival *)
             v_oracle_model := true; v_model_obs := VL (map VI m); v_branch := vnat (length ops) |}
      | _, _ => bad_case
      end
  | _, _ => bad_case
  end.
