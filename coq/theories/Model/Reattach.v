(* C15: reattaching to running plugins.  A world of plugin instances (real processes, or in-process
   test-mode servers) and clients; the address recorded in a reattach config identifies its instance
   while that instance is alive (OS oracle: a listening address belongs to one process).
   Executable model only. *)
From Coq Require Import List NArith ZArith Bool PeanoNat.
From GP Require Import Base.Val.
Import ListNotations.

Inductive conn := CUp | CDown | CMaybe.   (* are connections established earlier still served?  CMaybe: either *)
Record inst := { i_alive : bool;      (* the instance runs and accepts new connections *)
                 i_conn : conn;
                 i_test : bool; i_store : Z }.
Record rcl := { c_inst : nat; c_test : bool;
                c_live : bool;        (* its Start succeeded and it was not killed (non-test) *)
                c_conn : bool }.      (* its Start ever succeeded: it has an address, hence a ReattachConfig *)
Record world := { insts : list inst; cls : list rcl }.

Inductive rop :=
| RStart (test : bool)        (* launch a plugin (or serve one in test mode) and obtain the first client *)
| RReattach (c : nat)         (* NewClient(Reattach: client c's ReattachConfig()).Start() *)
| RSet (c : nat) (v : Z) | RGet (c : nat)
| RKill (c : nat)
| RDie (i : nat)              (* the process is killed from outside *)
| RCancel (i : nat)           (* cancel the context of a test-mode server *)
| RAlive (i : nat)
| RAgain (c : nat).           (* Start once more on client c *)

Fixpoint updl {A} (l : list A) (i : nat) (x : A) : list A :=
  match l, i with [], _ => [] | _ :: t, O => x :: t | h :: t, S j => h :: updl t j x end.

Definition inst_alive (w : world) (i : nat) : bool := match nth_error (insts w) i with Some x => i_alive x | None => false end.
Definition inst_conn (w : world) (i : nat) : conn := match nth_error (insts w) i with Some x => i_conn x | None => CDown end.
Definition set_state (w : world) (i : nat) (alive : bool) (conn : conn) : world :=
  match nth_error (insts w) i with
  | Some x => {| insts := updl (insts w) i {| i_alive := alive; i_conn := conn; i_test := i_test x; i_store := i_store x |}; cls := cls w |}
  | None => w
  end.

(* observation codes: reattach 1 ok / 0 process-not-found / -2 the source client has no reattach config;
   set 1/0; get value or -1; alive 1/0; others 0.
   [net]: the protocol is net/rpc.  Cancelling the context of a test-mode server closes its listener; a gRPC server is
   also stopped, which ends its connections; a net/rpc server has no way to end the connections it already has
   (server.go says so in a comment) and whether a later call on one of them still works is a race with the teardown of
   Serve: the model leaves it open (CMaybe) and takes the observed outcome, [hint], as the resolution. *)
Definition works (c : conn) (hint_ok : bool) : bool := match c with CUp => true | CDown => false | CMaybe => hint_ok end.

Definition rstep (net : bool) (w : world) (o : rop) (hint : Z) : world * Z :=
  match o with
  | RStart t =>
      ({| insts := insts w ++ [{| i_alive := true; i_conn := CUp; i_test := t; i_store := 0 |}];
          cls := cls w ++ [{| c_inst := length (insts w); c_test := t; c_live := true; c_conn := true |}] |}, 1%Z)
  | RReattach c =>
      match nth_error (cls w) c with
      | Some x =>
          if negb (c_conn x)
          then ({| insts := insts w; cls := cls w ++ [{| c_inst := c_inst x; c_test := c_test x; c_live := false; c_conn := false |}] |}, (-2)%Z)
          else if inst_alive w (c_inst x)
          then ({| insts := insts w; cls := cls w ++ [{| c_inst := c_inst x; c_test := c_test x; c_live := true; c_conn := true |}] |}, 1%Z)
          else ({| insts := insts w; cls := cls w ++ [{| c_inst := c_inst x; c_test := c_test x; c_live := false; c_conn := false |}] |}, 0%Z)
      | None => (w, (-2)%Z)
      end
  | RSet c v =>
      match nth_error (cls w) c with
      | Some x =>
          if c_live x && works (inst_conn w (c_inst x)) (Z.eqb hint 1) then
            match nth_error (insts w) (c_inst x) with
            | Some y => ({| insts := updl (insts w) (c_inst x) {| i_alive := i_alive y; i_conn := i_conn y; i_test := i_test y; i_store := v |}; cls := cls w |}, 1%Z)
            | None => (w, 0%Z)
            end
          else (w, 0%Z)
      | None => (w, (-2)%Z)
      end
  | RGet c =>
      match nth_error (cls w) c with
      | Some x => if c_live x && works (inst_conn w (c_inst x)) (negb (Z.eqb hint (-1)))
                  then (w, match nth_error (insts w) (c_inst x) with Some y => i_store y | None => (-1)%Z end)
                  else (w, (-1)%Z)
      | None => (w, (-2)%Z)
      end
  | RKill c =>
      match nth_error (cls w) c with
      | Some x =>
          if c_test x then (w, 0%Z)     (* test mode: no runner is recorded, Kill does nothing to the server *)
          else if c_live x
               then ({| insts := insts (set_state w (c_inst x) false CDown);
                        cls := updl (cls w) c {| c_inst := c_inst x; c_test := false; c_live := false; c_conn := c_conn x |} |}, 0%Z)
               else (w, 0%Z)
      | None => (w, (-2)%Z)
      end
  | RDie i => (set_state w i false CDown, 0%Z)
  | RCancel i => match nth_error (insts w) i with
                 | Some x => if i_test x then (set_state w i false (if net then match i_conn x with CUp => CMaybe | c => c end else CDown), 0%Z) else (w, 0%Z)
                 | None => (w, (-2)%Z)
                 end
  | RAlive i => (w, if inst_alive w i then 1%Z else 0%Z)
  | RAgain c =>
      (* a client that has an address keeps answering with it; one whose attach failed is not attached by asking again
         (whatever has become of the instance: a dead one does not come back) *)
      match nth_error (cls w) c with
      | Some x => (w, if c_conn x then 1%Z else 0%Z)
      | None => (w, (-2)%Z)
      end
  end.

(* run a history; [hints] are the observed outcomes, consulted only where the model leaves a choice open *)
Fixpoint rrun (net : bool) (w : world) (ops : list rop) (hints : list Z) : world * list Z :=
  match ops with
  | [] => (w, [])
  | o :: r => let '(w1, x) := rstep net w o (hd 0%Z hints) in let '(w2, xs) := rrun net w1 r (tl hints) in (w2, x :: xs)
  end.
Definition w0 : world := {| insts := []; cls := [] |}.

(* ---- glue: ops as (kind a b) *)
Definition drop_ (v : V) : option rop :=
  match v with
  | VL [VI 0%Z; t; _] => t <- dbool t ;; Some (RStart t)
  | VL [VI 1%Z; VI c; _] => Some (RReattach (Z.to_nat c))
  | VL [VI 2%Z; VI c; VI x] => Some (RSet (Z.to_nat c) x)
  | VL [VI 3%Z; VI c; _] => Some (RGet (Z.to_nat c))
  | VL [VI 4%Z; VI c; _] => Some (RKill (Z.to_nat c))
  | VL [VI 5%Z; VI i; _] => Some (RDie (Z.to_nat i))
  | VL [VI 6%Z; VI i; _] => Some (RCancel (Z.to_nat i))
  | VL [VI 7%Z; VI i; _] => Some (RAlive (Z.to_nat i))
  | VL [VI 8%Z; VI c; _] => Some (RAgain (Z.to_nat c))
  | _ => None
  end.

Definition check_reattach (inp obs : V) : verdict :=
  match inp, obs with
  | VL [VI pr; VL ops], VL outs =>
      match omap drop_ ops, omap dI outs with
      | Some ops, Some outs =>
          let m := snd (rrun (Z.eqb pr 0) w0 ops outs) in
          {| v_decoded := true; v_agree := V_eqb (VL (map VI m)) obs;
             v_oracle_impl := V_eqb (VL (map VI m)) obs;   (* the model IS the property here: same instance, not-found, test-mode survival *)
             v_oracle_model := true; v_model_obs := VL (map VI m); v_branch := vnat (length ops) |}
      | _, _ => bad_case
      end
  | _, _ => bad_case
  end.
