(* The code-shape parameters of the models, instantiated from the facts gosrc2v regenerates from
   the Go source on every run. *)
From Coq Require Import List NArith ZArith Bool.
From Coq Require Import String.
Import ListNotations.
From GP Require Import Generated Model.Handshake Model.Stderr Model.Env Model.MuxBroker Model.GrpcMux Model.Serve Model.Kill Model.Tls Model.Resources Model.Crash Model.StartFail Model.LaunchOpts.

Definition gen_hs_params : hs_params :=
  {| hp_core := core_protocol_version;
     hp_min_fields := handshake_min_fields;
     hp_cert_len := cert_field_min_len;
     hp_checks_addr_err := start_checks_addr_error;
     hp_guards_nil_tls := load_cert_guards_nil_tls |}.

Definition gen_sd_params : sd_params :=
  {| sp_checked_assertions := Nat.eqb parsejson_unchecked_assertions 0;
     sp_prefixes := stderr_text_prefixes;
     sp_drains_after_scan_stop := start_drains_stdout_after_scanner;
     sp_default_buf := default_log_buffer |}.

Definition gen_env_params : env_params :=
  {| ep_clears_inherited := start_clears_inherited_cert && start_clears_inherited_mux;
     ep_mux_key := env_multiplex_grpc;
     ep_group_key := env_unix_socket_group;
     ep_dir_key := env_unix_socket_dir |}.

(* look a select statement up in the generated table *)
Fixpoint sel_lookup (tbl : list (string * nat * sel)) (f : string) (i : nat) : option sel :=
  match tbl with
  | [] => None
  | (f', i', x) :: r => if (String.eqb f f' && Nat.eqb i i')%bool then Some x else sel_lookup r f i
  end.

Definition gen_mux_params : MuxBroker.params :=
  {| drain_has_default :=
       match sel_lookup select_table "mux_timeoutwait"%string 1 with
       | Some x => sel_default x
       | None => false
       end;
     run_closes_dropped := mux_run_closes_dropped;
     sender_waits_ack := mux_dial_waits_ack; taker_timeout_deletes := mux_accept_timeout_deletes; expiry_drains := mux_expiry_drains |}.

(* GRPCBroker without multiplexing: Accept sends and returns; Dial's timeout deletes nothing; timeoutWait only deletes *)
Definition gen_grpc_params : MuxBroker.params :=
  {| drain_has_default := true; run_closes_dropped := grpc_run_closes_dropped;
     sender_waits_ack := grpc_accept_waits_ack;
     taker_timeout_deletes := grpc_dial_timeout_deletes;
     expiry_drains := match sel_lookup select_table "grpc_timeoutwait"%string 1 with Some _ => true | None => false end |}.

Definition gen_cmux_params : GrpcMux.cparams :=
  {| GrpcMux.registers_first := accept_registers_listener_before_knock_goroutine;
     GrpcMux.door_before_ack := knock_opens_door_before_ack |}.

Definition gen_sv_params : Serve.sv_params :=
  {| Serve.svp_core := core_protocol_version; Serve.svp_fields := handshake_format_fields; Serve.svp_mux_key := env_multiplex_grpc |}.

(* yamux defaults: keep-alive every 30 s, connection write timeout 10 s *)
Definition gen_kill_params : Kill.kparams :=
  {| Kill.kp_grace := match kill_timers with g :: _ => g | [] => 0%Z end;
     Kill.kp_rpc_deadline := grpc_shutdown_deadline;
     Kill.kp_keepalive := yamux_keepalive_bound;
     Kill.kp_kill_ctx_fresh := kill_ctx_background |}.

Definition gen_tls_params : Tls.tparams :=
  {| Tls.tp_host_cfg_at_start := tls_host_cfg_at_start;
     Tls.tp_host_requires_client := tls_host_requires_client;
     Tls.tp_host_pins_client_cas := tls_host_pins_client_cas;
     Tls.tp_host_pins_root_cas := tls_host_pins_root_cas;
     Tls.tp_plugin_requires_client := tls_plugin_requires_client;
     Tls.tp_plugin_pins_client_cas := tls_plugin_pins_client_cas;
     Tls.tp_broker_serves_with_tls := tls_broker_serves_with_tls;
     Tls.tp_pools_only_pinned := tls_pools_only_pinned;
     Tls.tp_standard_verification := tls_standard_verification |}.

Definition gen_res_params : Resources.rparams :=
  {| Resources.rp_serve_defers_close := res_serve_defers_listener_close;
     Resources.rp_muxer_closes_wrapped := res_muxer_closes_wrapped_listener;
     Resources.rp_accept_serve_closes := res_accept_and_serve_closes_listener;
     Resources.rp_kill_removes_dir := res_kill_removes_socket_dir;
     Resources.rp_broker_run_nonblocking :=
       match sel_lookup select_table "grpc_run"%string 0 with Some x => sel_default x | None => false end;
     (* nothing in the code orders the plugin's exit after its AcceptAndServe goroutines have closed their listeners *)
     Resources.rp_stop_waits_for_brokered := false |}.

Definition first_timer (l : list Z) : option Z := match l with t :: _ => Some t | [] => None end.

Definition gen_crash_params : Crash.cparams :=
  {| Crash.cp_start_done := crash_start_selects_done;
     Crash.cp_start_timeout := crash_start_selects_timeout;
     Crash.cp_lines_eof := crash_lines_closed_at_eof;
     Crash.cp_wait_cancels := crash_wait_cancels_ctx;
     Crash.cp_wait_sets_exited := crash_wait_sets_exited;
     Crash.cp_grpc_ctx := crash_grpc_plugins_get_done_ctx;
     Crash.cp_mux_accept_timer := first_timer mux_accept_timers;
     Crash.cp_grpc_dial_timer := first_timer grpc_dial_timers;
     Crash.cp_grpc_knock_timer := first_timer grpc_knock_timers |}.

Definition gen_sf_params : sf_params :=
  {| sf_records_first := start_records_runner_before_start;
     sf_kill_forces := kill_force_kills && kill_returns_without_runner_or_id;
     sf_kill_removes_dir := kill_defers_dir_removal;
     sf_kill_forgets := kill_forgets_runner;
     sf_start_kill_ctx_fresh := start_kill_ctx_background |}.

Definition gen_lo_params : lo_params :=
  {| lo_counted := launch_options_counted;
     lo_exactly_one := launch_requires_exactly_one;
     lo_secure_reattach := launch_rejects_secure_reattach;
     lo_mux_reattach := launch_rejects_mux_reattach |}.
