(* C08: one multiplexed brokered establishment for id n (grpc_broker.go Accept/listenForKnocks/knock/muxDial,
   package internal/grpcmux), as an executable transition system over the goroutines involved:
     A  GRPCBroker.Accept on the accepting side        D  the dialer (muxDial on the other side)
     R  GRPCBroker.Run on the accepting side            K  listenForKnocks(n)
     M  the accepting side's muxer handing out the next yamux stream
   The accepting side is either the plugin (GRPCServerMuxer: AcceptKnock pushes n into knockCh, the main
   Accept loop routes the next stream to acceptChannels[n], and FAILS the main listener if n is not
   registered) or the host (GRPCClientMuxer: AcceptKnock looks the blocked listener up and errors if absent).
   Documented usage: establishments are sequential, so knockCh is empty and no other stream is in flight.
   Labels say which goroutine takes its next step; a schedule is any list of labels. *)
From Coq Require Import List Bool.
Import ListNotations.

Inductive side := ServerMux | ClientMux.          (* which muxer the accepting side has *)
Inductive label := LA | LR | LK | LD | LM.
Inductive target := ToListener | ToMain.

Inductive apc := A0 | A1 | A2 | ADone.             (* Accept: slot created -> two ordered actions -> returned *)
Inductive kpc := KNone | KWait | KKnock | KAck (ok : bool) | KDone.   (* listenForKnocks *)
Inductive dpc := D0 | DWait | DOpen | DDone | DFail.                  (* muxDial *)

Record cst := {
  a_pc : apc; k_pc : kpc; d_pc : dpc;
  knock_inflight : bool;       (* knock message sent, not yet filed by Run *)
  slot : bool;                 (* knock parked in serverStreams[n] *)
  registered : bool;           (* muxer.Listener(n) has registered the listener *)
  knockch : bool;              (* ServerMux: n sits in knockCh; ClientMux: listener n was unblocked *)
  ack : option bool;           (* ack on its way / arrived at the dialer, with its error flag *)
  stream_inflight : bool;      (* the dialer's yamux stream opened, not yet accepted *)
  delivered : option target;
  main_err : bool              (* the plugin's main listener returned an error (its gRPC server stops) *)
}.

Record cparams := {
  registers_first : bool;   (* Accept registers the listener before starting listenForKnocks *)
  door_before_ack : bool    (* listenForKnocks opens the door (muxer.AcceptKnock) before it sends the acknowledgement *)
}.

Definition cinit : cst :=
  {| a_pc := A0; k_pc := KNone; d_pc := D0; knock_inflight := false; slot := false; registered := false;
     knockch := false; ack := None; stream_inflight := false; delivered := None; main_err := false |}.

Definition upd_a (s : cst) (x : apc) := {| a_pc := x; k_pc := k_pc s; d_pc := d_pc s; knock_inflight := knock_inflight s; slot := slot s; registered := registered s; knockch := knockch s; ack := ack s; stream_inflight := stream_inflight s; delivered := delivered s; main_err := main_err s |}.

Definition cstep (P : cparams) (sd : side) (s : cst) (l : label) : option cst :=
  match l with
  | LA =>
      match a_pc s with
      | A0 => Some (upd_a s A1)                                         (* getServerStream *)
      | A1 => (* first of the two ordered actions *)
          if registers_first P
          then Some {| a_pc := A2; k_pc := k_pc s; d_pc := d_pc s; knock_inflight := knock_inflight s; slot := slot s; registered := true; knockch := knockch s; ack := ack s; stream_inflight := stream_inflight s; delivered := delivered s; main_err := main_err s |}
          else Some {| a_pc := A2; k_pc := KWait; d_pc := d_pc s; knock_inflight := knock_inflight s; slot := slot s; registered := registered s; knockch := knockch s; ack := ack s; stream_inflight := stream_inflight s; delivered := delivered s; main_err := main_err s |}
      | A2 =>
          if registers_first P
          then Some {| a_pc := ADone; k_pc := KWait; d_pc := d_pc s; knock_inflight := knock_inflight s; slot := slot s; registered := registered s; knockch := knockch s; ack := ack s; stream_inflight := stream_inflight s; delivered := delivered s; main_err := main_err s |}
          else Some {| a_pc := ADone; k_pc := k_pc s; d_pc := d_pc s; knock_inflight := knock_inflight s; slot := slot s; registered := true; knockch := knockch s; ack := ack s; stream_inflight := stream_inflight s; delivered := delivered s; main_err := main_err s |}
      | ADone => None
      end
  | LR =>   (* Run files the knock into the id's server slot (created on demand, 1-buffered) *)
      if knock_inflight s
      then Some {| a_pc := a_pc s; k_pc := k_pc s; d_pc := d_pc s; knock_inflight := false; slot := true; registered := registered s; knockch := knockch s; ack := ack s; stream_inflight := stream_inflight s; delivered := delivered s; main_err := main_err s |}
      else None
  | LK =>
      match k_pc s with
      | KWait => if slot s
                 then Some {| a_pc := a_pc s; k_pc := KKnock; d_pc := d_pc s; knock_inflight := knock_inflight s; slot := false; registered := registered s; knockch := knockch s; ack := ack s; stream_inflight := stream_inflight s; delivered := delivered s; main_err := main_err s |}
                 else None
      | KKnock =>   (* the first of the two ordered actions of a received knock *)
          if door_before_ack P then
            (* muxer.AcceptKnock(n) *)
            match sd with
            | ServerMux =>   (* knockCh <- n : always succeeds when the channel is empty; never an error *)
                Some {| a_pc := a_pc s; k_pc := KAck true; d_pc := d_pc s; knock_inflight := knock_inflight s; slot := slot s; registered := registered s; knockch := true; ack := ack s; stream_inflight := stream_inflight s; delivered := delivered s; main_err := main_err s |}
            | ClientMux =>   (* look the blocked listener up; "no listener for id" when it is not registered yet *)
                Some {| a_pc := a_pc s; k_pc := KAck (registered s); d_pc := d_pc s; knock_inflight := knock_inflight s; slot := slot s; registered := registered s; knockch := registered s; ack := ack s; stream_inflight := stream_inflight s; delivered := delivered s; main_err := main_err s |}
            end
          else
            (* the acknowledgement goes out first (it cannot carry AcceptKnock's error) *)
            Some {| a_pc := a_pc s; k_pc := KAck true; d_pc := d_pc s; knock_inflight := knock_inflight s; slot := slot s; registered := registered s; knockch := knockch s; ack := Some true; stream_inflight := stream_inflight s; delivered := delivered s; main_err := main_err s |}
      | KAck ok =>  (* the second action *)
          if door_before_ack P then
            Some {| a_pc := a_pc s; k_pc := KDone; d_pc := d_pc s; knock_inflight := knock_inflight s; slot := slot s; registered := registered s; knockch := knockch s; ack := Some ok; stream_inflight := stream_inflight s; delivered := delivered s; main_err := main_err s |}
          else
            Some {| a_pc := a_pc s; k_pc := KDone; d_pc := d_pc s; knock_inflight := knock_inflight s; slot := slot s; registered := registered s;
                    knockch := match sd with ServerMux => true | ClientMux => registered s end;
                    ack := ack s; stream_inflight := stream_inflight s; delivered := delivered s; main_err := main_err s |}
      | _ => None
      end
  | LD =>
      match d_pc s with
      | D0 => Some {| a_pc := a_pc s; k_pc := k_pc s; d_pc := DWait; knock_inflight := true; slot := slot s; registered := registered s; knockch := knockch s; ack := ack s; stream_inflight := stream_inflight s; delivered := delivered s; main_err := main_err s |}
      | DWait => match ack s with
                 | Some true => Some {| a_pc := a_pc s; k_pc := k_pc s; d_pc := DOpen; knock_inflight := knock_inflight s; slot := slot s; registered := registered s; knockch := knockch s; ack := ack s; stream_inflight := stream_inflight s; delivered := delivered s; main_err := main_err s |}
                 | Some false => Some {| a_pc := a_pc s; k_pc := k_pc s; d_pc := DFail; knock_inflight := knock_inflight s; slot := slot s; registered := registered s; knockch := knockch s; ack := ack s; stream_inflight := stream_inflight s; delivered := delivered s; main_err := main_err s |}
                 | None => None
                 end
      | DOpen => Some {| a_pc := a_pc s; k_pc := k_pc s; d_pc := DDone; knock_inflight := knock_inflight s; slot := slot s; registered := registered s; knockch := knockch s; ack := ack s; stream_inflight := true; delivered := delivered s; main_err := main_err s |}
      | _ => None
      end
  | LM =>
      if stream_inflight s then
        match sd with
        | ServerMux =>   (* main Accept loop: session.Accept, then select on knockCh *)
            if knockch s then
              if registered s
              then Some {| a_pc := a_pc s; k_pc := k_pc s; d_pc := d_pc s; knock_inflight := knock_inflight s; slot := slot s; registered := registered s; knockch := false; ack := ack s; stream_inflight := false; delivered := Some ToListener; main_err := main_err s |}
              else Some {| a_pc := a_pc s; k_pc := k_pc s; d_pc := d_pc s; knock_inflight := knock_inflight s; slot := slot s; registered := registered s; knockch := false; ack := ack s; stream_inflight := false; delivered := delivered s; main_err := true |}
            else Some {| a_pc := a_pc s; k_pc := k_pc s; d_pc := d_pc s; knock_inflight := knock_inflight s; slot := slot s; registered := registered s; knockch := knockch s; ack := ack s; stream_inflight := false; delivered := Some ToMain; main_err := main_err s |}
        | ClientMux =>   (* only an unblocked listener calls session.Accept *)
            if knockch s
            then Some {| a_pc := a_pc s; k_pc := k_pc s; d_pc := d_pc s; knock_inflight := knock_inflight s; slot := slot s; registered := registered s; knockch := false; ack := ack s; stream_inflight := false; delivered := Some ToListener; main_err := main_err s |}
            else None
        end
      else None
  end.

Fixpoint crun (P : cparams) (sd : side) (s : cst) (l : list label) : option cst :=
  match l with [] => Some s | a :: r => match cstep P sd s a with Some s' => crun P sd s' r | None => None end end.
Definition creachable P sd s := exists l, crun P sd cinit l = Some s.

Definition quiescent (P : cparams) (sd : side) (s : cst) : bool :=
  forallb (fun l => match cstep P sd s l with None => true | Some _ => false end) [LA; LR; LK; LD; LM].
