(* C14: does a host configuration interoperate with a plugin configuration?  The composition of the
   pieces modelled elsewhere (allowed-protocol filter and mux check of Handshake.v, transport acceptance of
   Tls.v, config exclusivity checks of Client.Start) over the matrix dimensions.  Executable model only. *)
From Coq Require Import List NArith ZArith Bool.
From GP Require Import Base.Val.
Import ListNotations.

Inductive wire := WNet | WGrpc.
Inductive htls := HNone | HStatic | HAuto.
Inductive ptls := PNone | PProvider | PNoMTLS.   (* PNoMTLS: no TLSProvider and takes no part in the AutoMTLS exchange (old build, impostor) *)
Inductive launch := LCmd | LRunnerFunc | LReattach.
Inductive muxline := MuxNew | MuxOld | MuxFalse.   (* plugin: advertises when asked / never prints the field / prints false *)

Record hcfg := { h_allow_net : bool; h_allow_grpc : bool; h_tls : htls; h_mux : bool; h_launch : launch }.
Record pcfg := { p_wire : wire; p_tls : ptls; p_mux : muxline }.

Inductive outcome := Works | StartErr | StartErrMuxUnsupported | FirstUseErr.

Definition allowed (h : hcfg) (w : wire) : bool := match w with WNet => h_allow_net h | WGrpc => h_allow_grpc h end.

(* transport: does the pair end up speaking the same thing? *)
Definition transport_ok (h : hcfg) (p : pcfg) : bool :=
  match h_launch h with
  | LReattach =>   (* no handshake, no certificate exchange: only what the reattaching client's own config says *)
      match h_tls h, p_tls p with
      | HNone, PNone | HNone, PNoMTLS => true
      | HStatic, PProvider => true
      | _, _ => false
      end
  | _ =>
      match h_tls h, p_tls p with
      | HNone, PNone | HNone, PNoMTLS => true
      | HStatic, PProvider => true
      | HAuto, PNone => true        (* the plugin answers the certificate exchange *)
      | _, _ => false               (* in particular AutoMTLS against a plugin that announces no certificate *)
      end
  end.

Definition interop (h : hcfg) (p : pcfg) : outcome :=
  match h_launch h with
  | LReattach =>
      if h_mux h then StartErr                         (* "multiplexing is not supported with Reattach" *)
      else if transport_ok h p then Works else FirstUseErr
  | _ =>
      if negb (allowed h (p_wire p)) then StartErr
      else
        let mux_relevant := h_mux h && match p_wire p with WGrpc => true | WNet => false end in
        if mux_relevant && match p_mux p with MuxNew => false | _ => true end then StartErrMuxUnsupported
        else if transport_ok h p then Works else FirstUseErr
  end.

(* independent statement of compatibility *)
Definition compatible (h : hcfg) (p : pcfg) : bool :=
  match h_launch h with
  | LReattach => negb (h_mux h)
  | _ => allowed h (p_wire p) &&
         (if h_mux h then match p_wire p with WGrpc => match p_mux p with MuxNew => true | _ => false end | WNet => true end else true)
  end && transport_ok h p.

(* ---- glue: input (allow_net allow_grpc htls mux launch wire ptls muxline) obs (class killed_after_refusal) *)
Definition check_interop (inp obs : V) : verdict :=
  match inp, obs with
  | VL [an; ag; VI ht; mx; VI la; VI wi; VI pt; VI ml], VL [VI cls; killed] =>
      match dbool an, dbool ag, dbool mx, dbool killed with
      | Some an, Some ag, Some mx, Some killed =>
          let h := {| h_allow_net := an; h_allow_grpc := ag; h_tls := (if Z.eqb ht 0 then HNone else if Z.eqb ht 1 then HStatic else HAuto);
                      h_mux := mx; h_launch := (if Z.eqb la 0 then LCmd else if Z.eqb la 1 then LRunnerFunc else LReattach) |} in
          (* muxline 3 = a legacy four-field handshake line: the protocol defaults to net/rpc whatever the plugin serves *)
          let p := {| p_wire := (if Z.eqb ml 3 then WNet else if Z.eqb wi 0 then WNet else WGrpc);
                      p_tls := (if Z.eqb pt 0 then PNone else if Z.eqb pt 1 then PProvider else PNoMTLS);
                      p_mux := (if Z.eqb ml 0 then MuxNew else if Z.eqb ml 2 then MuxFalse else MuxOld) |} in
          let o := interop h p in
          let code := match o with Works => 0 | StartErr => 1 | StartErrMuxUnsupported => 2 | FirstUseErr => 3 end%Z in
          let must_kill := match o with StartErr | StartErrMuxUnsupported => match h_launch h with LReattach => false | _ => true end | _ => false end in
          let m := VL [VI code; vbool must_kill] in
          {| v_decoded := true; v_agree := V_eqb m obs;
             (* property oracle: never a hang (4), a panic (5), a silent downgrade (6) or a working unknown-name dispense (7);
                works exactly when compatible; refused start configurations leave no process *)
             v_oracle_impl := Z.leb cls 3 && Bool.eqb (Z.eqb cls 0) (compatible h p) &&
                              (* where the mismatch surfaces: a protocol outside the allowed list and an option conflict at
                                 start; an unanswered multiplexing request at start, with the dedicated error *)
                              (let launches := negb (match h_launch h with LReattach => true | _ => false end) in
                               let grpc := match p_wire p with WGrpc => true | WNet => false end in
                               let advertises := match p_mux p with MuxNew => true | _ => false end in
                               (if launches && negb (allowed h (p_wire p)) then Z.eqb cls 1 else true) &&
                               (if launches && allowed h (p_wire p) && h_mux h && grpc && negb advertises then Z.eqb cls 2 else true) &&
                               (if negb launches && h_mux h then Z.eqb cls 1 else true)) &&
                              (if (Z.eqb cls 1 || Z.eqb cls 2) && negb (match h_launch h with LReattach => true | _ => false end) then killed else true);
             v_oracle_model := Bool.eqb (Z.eqb code 0) (compatible h p);
             v_model_obs := m; v_branch := VI code |}
      | _, _, _, _ => bad_case
      end
  | _, _ => bad_case
  end.
