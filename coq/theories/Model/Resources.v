(* C18: the resources go-plugin creates for one plugin (socket files on either side, the custom runner's
   socket directory, host goroutines) and what releases them on a graceful shutdown, as wired in the code.
   Executable model only. *)
From Coq Require Import List NArith ZArith Bool.
From GP Require Import Base.Val.
Import ListNotations.

Inductive resource :=
| PluginMainSocket            (* the plugin's main Unix socket file *)
| PluginBrokeredSocket        (* a socket of a listener the plugin accepted on (gRPC broker, no multiplexing) *)
| HostBrokeredSocket          (* a socket of a listener the host accepted on *)
| RunnerSocketDir             (* the temporary directory Start creates for a custom runner *)
| HostGoroutine.              (* a go-plugin goroutine in the host belonging to this client *)

Record rparams := {
  rp_serve_defers_close : bool;        (* Serve defers listener.Close() (rmListener removes the file) *)
  rp_muxer_closes_wrapped : bool;      (* GRPCServerMuxer.Close closes the listener it wraps *)
  rp_accept_serve_closes : bool;       (* AcceptAndServe defers ln.Close() *)
  rp_kill_removes_dir : bool;          (* Kill removes the runner's socket directory *)
  rp_broker_run_nonblocking : bool;    (* GRPCBroker.Run parks messages with a non-blocking send *)
  rp_stop_waits_for_brokered : bool    (* the plugin's exit is ordered after its brokered listeners were closed *)
}.

Record rcfg := {
  r_grpc : bool; r_mux : bool; r_custom_runner : bool;
  r_plugin_brokered : nat;     (* brokered listeners the plugin opened during the session *)
  r_host_brokered : nat;       (* brokered listeners the host opened *)
  r_unmatched_infos : nat      (* connection infos / knocks announced twice for one id and never consumed *)
}.

(* what MAY be left a few seconds after Kill + graceful exit; [sched] resolves the one race the code leaves open
   (plugin process exit vs. its AcceptAndServe goroutines closing their listeners) *)
Definition socket_leftovers (P : rparams) (c : rcfg) (exit_wins_race : bool) : list resource :=
  (if rp_serve_defers_close P && (negb (r_mux c && r_grpc c) || rp_muxer_closes_wrapped P) then [] else [PluginMainSocket]) ++
  (if r_grpc c && negb (r_mux c) && Nat.ltb 0 (r_plugin_brokered c) &&
      (negb (rp_accept_serve_closes P) || (negb (rp_stop_waits_for_brokered P) && exit_wins_race))
   then [PluginBrokeredSocket] else []) ++
  (if r_grpc c && negb (r_mux c) && Nat.ltb 0 (r_host_brokered c) && negb (rp_accept_serve_closes P) then [HostBrokeredSocket] else []).

(* with a custom runner every socket of either side lives inside the directory Start created; Kill removes that
   directory, with whatever is in it, after the plugin has exited *)
Definition leftovers (P : rparams) (c : rcfg) (exit_wins_race : bool) : list resource :=
  (if r_custom_runner c
   then (if rp_kill_removes_dir P then [] else RunnerSocketDir :: socket_leftovers P c exit_wins_race)
   else socket_leftovers P c exit_wins_race) ++
  (if r_grpc c && Nat.ltb 0 (r_unmatched_infos c) && negb (rp_broker_run_nonblocking P) then [HostGoroutine] else []).

Definition res_code (r : resource) : Z :=
  match r with PluginMainSocket => 1 | PluginBrokeredSocket => 2 | HostBrokeredSocket => 3 | RunnerSocketDir => 4 | HostGoroutine => 5 end%Z.

Fixpoint memr (z : Z) (l : list resource) : bool :=
  match l with [] => false | r :: t => Z.eqb z (res_code r) || memr z t end.

(* ---- glue: input (grpc mux custom_runner plugin_brokered host_brokered unmatched) obs (main pbrok hbrok dir gor) as booleans *)
Definition check_leftovers (P : rparams) (inp obs : V) : verdict :=
  match inp, obs with
  | VL [g; m; cr; VI pb; VI hb; VI um], VL [o1; o2; o3; o4; o5] =>
      match dbool g, dbool m, dbool cr, dbool o1, dbool o2, dbool o3, dbool o4, dbool o5 with
      | Some g, Some m, Some cr, Some o1, Some o2, Some o3, Some o4, Some o5 =>
          let c := {| r_grpc := g; r_mux := m; r_custom_runner := cr; r_plugin_brokered := Z.to_nat pb; r_host_brokered := Z.to_nat hb; r_unmatched_infos := Z.to_nat um |} in
          let enc l := VL [vbool (memr 1 l); vbool (memr 2 l); vbool (memr 3 l); vbool (memr 4 l); vbool (memr 5 l)] in
          let a := enc (leftovers P c false) in
          let b := enc (leftovers P c true) in
          {| v_decoded := true; v_agree := V_eqb a obs || V_eqb b obs;
             v_oracle_impl := negb (o1 || o2 || o3 || o4 || o5);      (* the property: nothing is left *)
             v_oracle_model := match leftovers P c true with [] => true | _ => false end;
             v_model_obs := VL [a; b]; v_branch := VL [vbool g; vbool m; vbool (Nat.ltb 0 (Z.to_nat pb))] |}
      | _, _, _, _, _, _, _, _ => bad_case
      end
  | _, _ => bad_case
  end.
