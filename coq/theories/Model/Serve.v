(* C16: the plugin side's gate and announcement (server.go Serve, lines 232-446).
   Executable model only. *)
From Coq Require Import List NArith ZArith Bool String.
From GP Require Import Base.Val Base.Bytes Base.GoStrings Model.Negotiate.
Import ListNotations.

Record sv_params := {
  svp_core : Z;              (* CoreProtocolVersion *)
  svp_fields : nat;          (* number of fields of the handshake format string *)
  svp_mux_key : bytes        (* envMultiplexGRPC *)
}.

Record sv_cfg := {
  sv_key : bytes; sv_value : bytes;     (* HandshakeConfig.MagicCookieKey / Value *)
  sv_serve : serve_cfg                  (* version sets (Negotiate.v) *)
}.

(* the process environment: os.Getenv returns "" for an unset variable *)
Definition getenv (env : list (bytes * bytes)) (k : bytes) : bytes :=
  match find (fun kv => bytes_eqb (fst kv) k) env with Some kv => snd kv | None => [] end.

Inductive sv_effect := SvListen | SvPrint (line : bytes) | SvSwapStdio | SvExit (code : Z).

(* addr / cert: what the OS listener and the TLS setup produced (oracles) *)
Definition serve (P : sv_params) (c : sv_cfg) (env : list (bytes * bytes)) (addr cert : bytes) : list sv_effect :=
  if match sv_key c with [] => true | _ => false end || match sv_value c with [] => true | _ => false end
  then [SvExit 1]
  else if negb (bytes_eqb (getenv env (sv_key c)) (sv_value c)) then [SvExit 1]
  else
    let '(v, p, _) := server_pick (sv_serve c) (getenv env (bs "PLUGIN_PROTOCOL_VERSIONS")) in
    let proto := match p with PNet => bs "netrpc" | PGrpc => bs "grpc" end in
    (* Sprintf("%d|%d|%s|%s|%s|%s") then, when the host signalled that it understands it, "|true" *)
    let line := join [124%N] ([itoa (svp_core P); itoa v; bs "unix"; addr; proto; cert] ++
                              (match getenv env (svp_mux_key P) with [] => [] | _ => [bs "true"] end)) in
    [SvListen; SvPrint line; SvSwapStdio].

Definition printed (effs : list sv_effect) : list bytes :=
  flat_map (fun e => match e with SvPrint l => [l] | _ => [] end) effs.
Definition listens (effs : list sv_effect) : bool :=
  existsb (fun e => match e with SvListen => true | _ => false end) effs.
Definition exits (effs : list sv_effect) : option Z :=
  match flat_map (fun e => match e with SvExit c => [c] | _ => [] end) effs with c :: _ => Some c | [] => None end.

Definition no_bar (b : bytes) : bool := forallb (fun c => negb (N.eqb c 124)) b.

(* ---- glue for the family "serve"
   input: ((key value sver slegacy? (id kind) ((v id kind)...) factory) ((k v)...) cert_present)
   obs:   (exited code nfields core ver net proto cert_nonempty field7 listened) with -1 / empty when no line *)
Definition denv (v : V) : option (bytes * bytes) := match v with VL [VB k; VB x] => Some (k, x) | _ => None end.
Definition obs_serve (P : sv_params) (inp : V) : option V :=
  match inp with
  | VL [VL [VB k; VB vl; sc]; VL env; certp] =>
      sc <- dserve sc ;; env <- omap denv env ;; certp <- dbool certp ;;
      let cert := if certp then bs "CERT" else [] in
      let effs := serve P {| sv_key := k; sv_value := vl; sv_serve := sc |} env (bs "/tmp/sock") cert in
      match exits effs, printed effs with
      | Some code, _ => Some (VL [VI 1; VI code; VI (-1); VI (-1); VI (-1); VB []; VB []; VI 0; VB []; VI 0])%Z
      | None, [line] =>
          let fs := split 124 line in
          Some (VL [VI 0%Z; VI (-1)%Z; vnat (List.length fs);
                    VI (match atoi (nth 0 fs []) with Some z => z | None => (-1)%Z end);
                    VI (match atoi (nth 1 fs []) with Some z => z | None => (-1)%Z end);
                    VB (nth 2 fs []); VB (nth 4 fs []); vbool (match nth 5 fs [] with [] => false | _ => true end);
                    VB (nth 6 fs []); vbool (listens effs)])
      | None, _ => None
      end
  | _ => None
  end.

(* property oracle: wrong/missing cookie or empty configured key/value <-> exit 1 without listening or printing;
   otherwise exactly one line with 6 fields, 7 iff the mux variable is non-empty, core version first, listening before *)
Definition oracle_serve (P : sv_params) (inp obs : V) : option bool :=
  match inp, obs with
  | VL [VL [VB k; VB vl; sc]; VL env; certp], VL [VI ex; VI code; VI nf; VI core; VI ver; VB nt; VB proto; cne; VB f7; lst] =>
      env <- omap denv env ;; lst <- dbool lst ;;
      let gate_ok := negb (match k with [] => true | _ => false end) && negb (match vl with [] => true | _ => false end)
                     && bytes_eqb (getenv env k) vl in
      let muxset := match getenv env (svp_mux_key P) with [] => false | _ => true end in
      Some (if gate_ok
            then Z.eqb ex 0 && lst && Z.eqb core (svp_core P) &&
                 Z.eqb nf (if muxset then 7 else 6) && (if muxset then bytes_eqb f7 (bs "true") else true)
            else Z.eqb ex 1 && Z.eqb code 1 && negb lst && Z.eqb nf (-1))
  | _, _ => None
  end.

Definition check_serve (P : sv_params) (inp obs : V) : verdict :=
  match obs_serve P inp, oracle_serve P inp obs with
  | Some m, Some oi =>
      {| v_decoded := true; v_agree := V_eqb m obs; v_oracle_impl := oi;
         v_oracle_model := match oracle_serve P inp m with Some b => b | None => false end;
         v_model_obs := m; v_branch := match m with VL (e :: _ :: nf :: _) => VL [e; nf] | _ => VL [] end |}
  | _, _ => bad_case
  end.
