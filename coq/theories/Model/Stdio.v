(* C11: synced stdout/stderr over gRPC (grpc_stdio.go) and over net/rpc (two dedicated streams).
   Executable model only. *)
From Coq Require Import List NArith ZArith Bool.
From GP Require Import Base.Val Base.Bytes.
Import ListNotations.

Definition chunk := bytes.

(* one underlying read of k bytes into bufio's buffer is handed out in pieces of at most [csize] bytes *)
Fixpoint pieces (fuel csize : nat) (d : bytes) : list chunk :=
  match fuel with
  | O => []
  | S f => match d with
           | [] => []
           | _ => firstn csize d :: pieces f csize (skipn csize d)
           end
  end.

(* copyChan: [reads] is the schedule of sizes the underlying pipe reads return (clamped to 1..bsize);
   when the schedule runs out, reads are full-sized *)
Fixpoint copy_chan (fuel csize bsize : nat) (reads : list nat) (data : bytes) : list chunk :=
  match fuel with
  | O => []
  | S f =>
    match data with
    | [] => []
    | _ =>
      let k := match reads with r :: _ => Nat.max 1 (Nat.min r bsize) | [] => bsize end in
      pieces (S (length data)) csize (firstn k data) ++ copy_chan f csize bsize (tl reads) (skipn k data)
    end
  end.

Inductive tag := TOut | TErr | TUnknown.

(* StreamStdio: select between the two rendezvous channels = a merge that keeps each side's order;
   [sched] says which side is served next while both have something; empty chunks are skipped *)
Fixpoint merge (fuel : nat) (sched : list bool) (a b : list chunk) : list (tag * chunk) :=
  match fuel with
  | O => []
  | S f =>
    match a, b with
    | [], [] => []
    | x :: a', [] => (TOut, x) :: merge f sched a' []
    | [], y :: b' => (TErr, y) :: merge f sched [] b'
    | x :: a', y :: b' =>
        match sched with
        | false :: s' => (TErr, y) :: merge f s' a b'
        | true :: s' => (TOut, x) :: merge f s' a' b
        | [] => (TOut, x) :: merge f [] a' b
        end
    end
  end.
Definition stream_stdio (sched : list bool) (a b : list chunk) : list (tag * chunk) :=
  filter (fun m => match snd m with [] => false | _ => true end)
         (merge (S (length a + length b)) sched a b).

(* grpcStdioClient.Run: demultiplex by tag, unknown tags dropped *)
Fixpoint client_run (msgs : list (tag * chunk)) : bytes * bytes :=
  match msgs with
  | [] => ([], [])
  | (t, c) :: r =>
      let '(o, e) := client_run r in
      match t with TOut => (c ++ o, e) | TErr => (o, c ++ e) | TUnknown => (o, e) end
  end.

Definition end_to_end (csize bsize : nat) (r1 r2 : list nat) (sched : list bool) (o e : bytes) : bytes * bytes :=
  client_run (stream_stdio sched
                (copy_chan (S (length o)) csize bsize r1 o)
                (copy_chan (S (length e)) csize bsize r2 e)).

(* ---- glue
   family "copychan": input (reads data) obs (chunks...)
   family "stdio": input ((stream data)...) obs (stdout stderr) *)
Definition check_copychan (csize : N) (inp obs : V) : verdict :=
  match inp with
  | VL [VL reads; VB data] =>
      match omap dnat reads with
      | Some reads =>
          let cs := copy_chan (S (length data)) (N.to_nat csize) 4096 reads data in
          let m := VL (map VB cs) in
          {| v_decoded := true; v_agree := V_eqb m obs;
             v_oracle_impl := match obs with
                              | VL l => match omap dB l with
                                        | Some l => bytes_eqb (concat l) data && forallb (fun c => Nat.leb (length c) (N.to_nat csize)) l
                                        | None => false end
                              | _ => false end;
             v_oracle_model := bytes_eqb (concat cs) data; v_model_obs := m; v_branch := vnat (Nat.min 4 (length cs)) |}
      | None => bad_case
      end
  | _ => bad_case
  end.

Definition dwrite (v : V) : option (bool * bytes) :=
  match v with VL [s; VB d] => s <- dbool s ;; Some (s, d) | _ => None end.

Definition check_stdio (csize : N) (inp obs : V) : verdict :=
  match inp with
  | VL ws =>
      match omap dwrite ws with
      | Some ws =>
          let o := concat (map snd (filter (fun w => negb (fst w)) ws)) in
          let e := concat (map snd (filter (fun w => fst w) ws)) in
          let '(mo, me) := end_to_end (N.to_nat csize) 4096 [] [] [] o e in
          let m := VL [VB mo; VB me] in
          {| v_decoded := true; v_agree := V_eqb m obs;
             v_oracle_impl := V_eqb (VL [VB o; VB e]) obs;
             v_oracle_model := V_eqb (VL [VB o; VB e]) m; v_model_obs := m;
             v_branch := VL [vbool (match o with [] => false | _ => true end); vbool (match e with [] => false | _ => true end)] |}
      | None => bad_case
      end
  | _ => bad_case
  end.
