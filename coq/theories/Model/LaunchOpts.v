(* C14, "option conflicts surface at start": the exclusivity checks at the head of Client.Start (client.go), in front
   of everything that launches or attaches.  Executable model only. *)
From Coq Require Import List NArith ZArith Bool.
From GP Require Import Base.Val.
Import ListNotations.

Record lo_params := {
  lo_counted : list Z;          (* options whose presence increments the counter: 0 Cmd, 1 Reattach, 2 RunnerFunc *)
  lo_exactly_one : bool;        (* the counter is compared with 1 and anything else is an error *)
  lo_secure_reattach : bool;    (* SecureConfig + Reattach is an error *)
  lo_mux_reattach : bool        (* GRPCBrokerMultiplex + Reattach is an error *)
}.

Record lo_cfg := { l_cmd : bool; l_reattach : bool; l_runner : bool; l_secure : bool; l_mux : bool }.

Definition opt_set (c : lo_cfg) (k : Z) : bool :=
  match k with 0%Z => l_cmd c | 1%Z => l_reattach c | 2%Z => l_runner c | _ => false end.

(* 0 = the checks pass and Start goes on to launch or attach; 1 = "exactly one of ..."; 2 = ErrSecureConfigAndReattach;
   3 = multiplexing with Reattach *)
Definition option_check (P : lo_params) (c : lo_cfg) : Z :=
  let n := List.length (filter (opt_set c) (lo_counted P)) in
  if lo_exactly_one P && negb (Nat.eqb n 1) then 1%Z else
  if lo_secure_reattach P && l_secure c && l_reattach c then 2%Z else
  if lo_mux_reattach P && l_mux c && l_reattach c then 3%Z else 0%Z.

(* what Start does next, when it gets there: which launch method is used *)
Inductive lo_method := MReattach | MRunner | MCmd.
Definition method_used (c : lo_cfg) : lo_method :=
  if l_reattach c then MReattach else if l_runner c then MRunner else MCmd.

(* independent statement of a configuration without option conflict *)
Definition b2n (b : bool) : nat := if b then 1 else 0.
Definition unambiguous (c : lo_cfg) : bool :=
  Nat.eqb (b2n (l_cmd c) + b2n (l_reattach c) + b2n (l_runner c)) 1 &&
  negb (l_secure c && l_reattach c) && negb (l_mux c && l_reattach c).

(* ---- glue for the family "conflict": input (cmd reattach runner secure mux) ; obs (error class, touched anything) *)
Definition check_conflict (P : lo_params) (inp obs : V) : verdict :=
  match inp, obs with
  | VL [a; b; c; d; e], VL [VI cls; tch] =>
      match dbool a, dbool b, dbool c, dbool d, dbool e, dbool tch with
      | Some a, Some b, Some c, Some d, Some e, Some tch =>
          let cfg := {| l_cmd := a; l_reattach := b; l_runner := c; l_secure := d; l_mux := e |} in
          let k := option_check P cfg in
          let m := VL [VI k; vbool (Z.eqb k 0)] in
          {| v_decoded := true; v_agree := V_eqb m obs;
             (* property oracle: a conflicting configuration is refused with one of the conflict errors and nothing was
                launched or attached; an unambiguous one is not refused for a conflict *)
             v_oracle_impl := if unambiguous cfg then Z.eqb cls 0 && tch
                              else (Z.eqb cls 1 || Z.eqb cls 2 || Z.eqb cls 3) && negb tch;
             v_oracle_model := if unambiguous cfg then Z.eqb k 0 else negb (Z.eqb k 0);
             v_model_obs := m; v_branch := VL [VI k] |}
      | _, _, _, _, _, _ => bad_case
      end
  | _, _ => bad_case
  end.
