(* C20 — Concurrent use of clients and brokers is free of data races and panics.
   Statements only; proofs in Proofs/ConcP.v.  The access table, the close sites and the shape of NextId are
   re-extracted from the Go source on every run (harness/cmd/gosrc2v/locks.go). *)
From Coq Require Import List NArith ZArith Bool String.
From GP Require Import Base.Val Generated Model.Conc Proofs.ConcP.
Import ListNotations.

(* facts about the current source *)
Lemma table_is_ok : table_ok access_table = true. Proof. reflexivity. Qed.
Lemma ids_are_atomic : nextid_atomic = true. Proof. reflexivity. Qed.
Lemma closes_are_guarded : forallb (fun s => snd s) close_sites = true. Proof. reflexivity. Qed.
Lemma send_waits : broker_send_waits_reply = true. Proof. reflexivity. Qed.
Lemma pending_closes_are_guarded : forallb (fun s => snd s) pending_close_sites = true. Proof. reflexivity. Qed.

(* (1) NextId never returns the same id twice: any number of calls up to 2^32 (the counter is a uint32 and wraps), from
   any goroutines, in any order *)
Theorem C20_nextid_distinct : forall (calls : list nat) (counter : Z),
  (Z.of_nat (List.length calls) <= 4294967296)%Z ->
  NoDup (ids_of counter (List.concat (map (nextid_events nextid_atomic) calls))).
Proof. intros calls counter H. exact (nextid_calls_distinct nextid_atomic calls counter ids_are_atomic H). Qed.
Print Assumptions C20_nextid_distinct.

(* (2) no channel of a shutdown path is closed twice: however many goroutines reach the close, in whatever order *)
Theorem C20_close_once : forall site, In site close_sites -> forall (closers : list nat),
  let s := cl_run (List.concat (map (close_events (snd site)) closers)) in
  c_panics s = 0%nat /\ c_closes s = (match closers with [] => 0%nat | _ => 1%nat end).
Proof.
  intros site Hin closers. apply close_calls_once.
  pose proof closes_are_guarded as H. rewrite forallb_forall in H. exact (H site Hin).
Qed.

(* (2a) the done channel of a pending broker entry.  Its closer is whoever takes the parked connection, and that need not be
   one goroutine only: an id used again while the entry of its previous use awaits removal parks the new connection in the
   same entry.  Every function that closes such a channel (the list is read from the source) does it under the entry's
   once, so: any number of takers, in any order, close it exactly once and none of them panics *)
Theorem C20_pending_entry_closed_once : forall site, In site pending_close_sites -> forall (takers : list nat),
  let s := cl_run (List.concat (map (close_events (snd site)) takers)) in
  c_panics s = 0%nat /\ c_closes s = (match takers with [] => 0%nat | _ => 1%nat end).
Proof.
  intros site Hin takers. apply close_calls_once.
  pose proof pending_closes_are_guarded as H. rewrite forallb_forall in H. exact (H site Hin).
Qed.

(* the pinned tree closed it bare in MuxBroker.Accept and GRPCBroker.Dial; even a check before the close would not do:
   C20_refuted_unguarded_close below *)


(* (2b) the broker streams' reply channels: the stream goroutine never sends on a channel its requester has closed, for
   every schedule of take / reply / give-up attempts *)
Theorem C20_reply_channel_safe : forall sched, q_panic (rq_run broker_send_waits_reply sched) = false.
Proof. intros sched. rewrite send_waits. exact (reply_channel_safe sched). Qed.

(* (3) no data race on a mutex-guarded field: threads performing any sequences of the API functions of the table,
   interleaved in any way the mutexes allow, order every two accesses of one field by a release/acquire of its lock *)
Theorem C20_no_data_race : forall (calls : nat -> list string) (tr : list ev),
  (forall t, proj t tr = thread_trace access_table t (calls t)) -> wf tr ->
  forall post mid pre t1 t2 f w1 w2,
    tr = post ++ Acc t2 f w2 :: mid ++ Acc t1 f w1 :: pre -> t1 <> t2 ->
    exists l m3 m2 m1, lock_of access_table f = Some l /\ mid = m3 ++ Acq t2 l :: m2 ++ Rel t1 l :: m1.
Proof. intros calls tr. exact (table_discipline_no_race access_table calls tr table_is_ok). Qed.

(* ---- non-vacuity and refutations of the broken variants *)
Example C20_table_has_guarded_rows :
  lock_of access_table "Client.client" = Some "Client:l"%string /\
  call_events access_table 7 "Client.Exited" = [Rel 7 "Client:l"; Acc 7 "Client.exited" false; Acq 7 "Client:l"]%string.
Proof. split; reflexivity. Qed.

(* a counter that is read and then written hands one id to two callers *)
Example C20_refuted_nonatomic_ids :
  ids_of 0 [IRd 0; IRd 1; IWr 0; IWr 1] = [1; 1]%Z /\
  exists sched, sched = List.concat (map (nextid_events false) [0; 1]%nat) /\ ids_of 0 sched = [1; 2]%Z.
Proof. split; [reflexivity|]. eexists; split; reflexivity. Qed.

(* check-then-close panics under the schedule in which both closers look before either closes *)
Example C20_refuted_unguarded_close : c_panics (cl_run [CChk 0; CChk 1; CCls 0; CCls 1]) = 1%nat.
Proof. reflexivity. Qed.

(* a Send that may also return when the broker is closed lets the reply hit a closed channel *)
Example C20_refuted_send_gives_up : q_panic (rq_run false [RqTake; RqGiveUp; RqReply]) = true.
Proof. reflexivity. Qed.

(* an access outside the lock makes the table fail its check, and gives a trace with two unordered accesses *)
Example C20_refuted_unlocked_read :
  table_ok (("Client", "client", "Client.Client", false, GNone) :: access_table)%string = false /\
  wf [Acc 2 "Client.client" true; Acc 1 "Client.client" false]%string /\
  ~ (exists l m3 m2 m1, @nil ev = m3 ++ Acq 2 l :: m2 ++ Rel 1 l :: m1).
Proof.
  split; [reflexivity|]. split; [cbn; auto|].
  intros (l & m3 & m2 & m1 & H). destruct m3; discriminate.
Qed.
