(* C03 — Plugin failure at any point becomes a host error, never a crash or hang.
   Statements only; proofs in Proofs/CrashP.v.  Which sources end each blocking wait is re-extracted from the Go
   source on every run (client.go Start's select and goroutines, the brokers' timers, the doneCtx plumbing). *)
From Coq Require Import List NArith ZArith Bool Lia.
From GP Require Import Base.Val Model.Crash Model.Params Proofs.CrashP.
Import ListNotations.
Local Open Scope Z_scope.

Lemma f_done : cp_start_done gen_crash_params = true. Proof. reflexivity. Qed.
Lemma f_eof : cp_lines_eof gen_crash_params = true. Proof. reflexivity. Qed.
Lemma f_cancel : cp_wait_cancels gen_crash_params = true. Proof. reflexivity. Qed.
Lemma f_exited : cp_wait_sets_exited gen_crash_params = true. Proof. reflexivity. Qed.
Lemma f_ctx : cp_grpc_ctx gen_crash_params = true. Proof. reflexivity. Qed.
Lemma f_ma : exists t, cp_mux_accept_timer gen_crash_params = Some t /\ 0 <= t <= 5. Proof. eexists; split; [reflexivity|lia]. Qed.
Lemma f_gd : exists t, cp_grpc_dial_timer gen_crash_params = Some t /\ 0 <= t <= 5. Proof. eexists; split; [reflexivity|lia]. Qed.
Lemma f_gk : exists t, cp_grpc_knock_timer gen_crash_params = Some t /\ 0 <= t <= 5. Proof. eexists; split; [reflexivity|lia]. Qed.

(* every public call, on every protocol, with any StartTimeout: once the plugin is dead the call's blocking waits all end,
   within 5 s (the broker timers) plus two OS delays [eps] (socket/pipe closure and exit notification: ASSUMED bounded) *)
Theorem C03_calls_return_partial : forall pr o eps tstart, 0 <= eps -> 0 <= tstart ->
  exists b, op_bound gen_crash_params eps tstart pr o = Some b /\ 0 <= b <= 1000 * 5 + 2 * eps.
Proof. exact (calls_bounded gen_crash_params f_eof 5 f_ma f_gd f_gk). Qed.
Print Assumptions C03_calls_return_partial.

(* a plugin that dies before or during the handshake ends Start at once, whatever the StartTimeout *)
Theorem C03_start_does_not_wait_for_timeout : forall pr eps tstart, 0 <= eps -> 0 <= tstart ->
  exists b, op_bound gen_crash_params eps tstart pr OStart = Some b /\ b <= eps.
Proof. exact (start_returns_at_once gen_crash_params f_eof). Qed.

(* for every history of host calls: behaviour the outcome table accepts satisfies the property -- every call returned in
   time, and every call issued after the death that needed the plugin returned an error *)
Theorem C03_table_implies_property : forall pr point ops st a p,
  monitor pr point st ops = Some (a, p) -> a = true -> p = true.
Proof. exact table_implies_property. Qed.

(* the client reports the plugin as exited and the gRPC plugin context is the one that gets cancelled *)
Theorem C03_exited_and_ctx : cp_wait_cancels gen_crash_params && cp_wait_sets_exited gen_crash_params && cp_grpc_ctx gen_crash_params = true.
Proof. reflexivity. Qed.

Example C03_nonvacuous :
  monitor PGrpc 4 {| h_started := false; h_client := false; h_client_failed := false |}
    [(0, 0, 0, 0); (1, 0, 0, 0); (2, 0, 0, 0); (4, 1, 0, 1); (3, 1, 0, 2); (2, 0, 0, 2); (4, 1, 0, 2)] = Some (true, true) /\
  monitor PGrpc 4 {| h_started := false; h_client := false; h_client_failed := false |}
    [(0, 0, 0, 0); (1, 0, 0, 0); (2, 0, 0, 0); (4, 1, 0, 1); (3, 0, 0, 2)] = Some (false, false) /\
  monitor PNet 3 {| h_started := false; h_client := false; h_client_failed := false |}
    [(0, 0, 0, 0); (1, 0, 0, 0); (2, 0, 0, 0); (4, 2, 0, 2)] = Some (false, false).
Proof. repeat split; reflexivity. Qed.
