(* C09 — Brokers stay live: unmatched, duplicate or late peers cannot wedge them (MuxBroker part;
   the gRPC broker's expiry handler only deletes, see Props/C07.v).
   Statements only; proofs in Proofs/MuxBrokerP.v. *)
From Coq Require Import List NArith Bool PeanoNat.
From Coq Require Import String.
From GP Require Import Generated Model.MuxBroker Model.Conc Model.Params Proofs.MuxBrokerP Proofs.ConcP.
Import ListNotations.

(* facts of the current source (regenerated on every run) *)
Lemma facts_drain_default : drain_has_default gen_mux_params = true. Proof. reflexivity. Qed.
Lemma facts_run_closes : run_closes_dropped gen_mux_params = true. Proof. reflexivity. Qed.

(* after ANY history (unmatched dials, repeated dials to one id, accepts that time out, an accept
   racing the expiry of a pending connection, in any interleaving): whoever holds the broker mutex
   can take its next step, i.e. nobody ever waits while holding it *)
Theorem C09_no_wait_under_lock : forall s, reachable gen_mux_params s -> wedged gen_mux_params s = false.
Proof. intros s. exact (no_wait_under_lock gen_mux_params s facts_drain_default). Qed.
Print Assumptions C09_no_wait_under_lock.

(* the mutex is only ever held by an expiry handler in its drain step *)
Theorem C09_lock_holder : forall s t, reachable gen_mux_params s -> lock s = Some t ->
  exists k p, tlookup (thr s) t = Some (TwDrain k p).
Proof. intros s t R. apply (J_lock _ (inv2_reachable _ _ R)). Qed.

(* every parked Accept / expiry wait has its own 5 s timer branch available whenever the mutex is free *)
Theorem C09_parked_can_fire : forall s t, lock_free s = true ->
  (exists n p, tlookup (thr s) t = Some (AccWait n p)) \/ (exists k p, tlookup (thr s) t = Some (TwWait k p)) ->
  step gen_mux_params s (Fire t) <> None.
Proof. exact (parked_can_fire gen_mux_params). Qed.

(* no inbound stream is ever orphaned: once Run has processed it, it is parked in a slot (and will be
   taken, or closed by the expiry handler), taken by an Accept (which acks), or closed -- so the dialer
   of every stream is eventually answered *)
Theorem C09_no_orphan_stream : forall s i, reachable gen_mux_params s -> i < nacc s -> accounted s i.
Proof. intros s i R. exact (Q_acc _ (inv4_reachable _ _ facts_run_closes R) i). Qed.
Print Assumptions C09_no_orphan_stream.

Theorem C09_dial_answered : forall s t n i, tlookup (thr s) t = Some (DialWait n i) ->
  (exists a, nth_error (acks s) i = Some (Some a)) \/ (nth_error (acks s) i = Some None /\ nth_error (closed s) i = Some true) ->
  step gen_mux_params s (Step t) <> None.
Proof. exact (dial_answered gen_mux_params). Qed.

(* no cycle of goroutines waiting for each other's mutexes, anywhere in the package: the pairs (held, wanted) extracted from
   the source on this run (direct nesting and synchronous calls, transitively) allow the numbering extracted with them,
   which Coq re-checks here; a mutex locked again while held would be an edge from a lock to itself *)
Lemma facts_lock_order : ranks_ok lock_order_edges lock_ranks = true. Proof. reflexivity. Qed.

Theorem C09_no_lock_cycle : forall st c, follows lock_order_edges st -> ~ deadlock st c.
Proof. exact (no_lock_cycle lock_order_edges lock_ranks facts_lock_order). Qed.

(* the seeded double lock (Accept's timeout branch calling a helper that locks again) as an edge set *)
Example C09_refuted_double_lock : ranks_ok [("MuxBroker:", "MuxBroker:")]%string [("MuxBroker:", 0)]%string = false.
Proof. reflexivity. Qed.

(* the two defects of the pinned tree, on the model with the corresponding facts off *)
Definition old_params := {| drain_has_default := false; run_closes_dropped := false; sender_waits_ack := true; taker_timeout_deletes := true; expiry_drains := true |}.
(* Run = thread 0; two unaccepted dials to id 7 = threads 1, 2; the second park is dropped; both expire *)
Definition double_dial : list label :=
  [Call OpRun; Call (OpDial 7%N); Call (OpDial 7%N); Step 0; Step 0; Fire 3; Step 3; Step 3; Fire 4; Step 4].
Example C09_refuted_on_old_code_wedge :
  exists s, run old_params init double_dial = Some s /\ wedged old_params s = true /\
            step old_params s (Call (OpAccept 100%N)) = None.
Proof. eexists. split; [vm_compute; reflexivity|split; vm_compute; reflexivity]. Qed.
(* with only the drain fixed, the second dialer's stream is still orphaned: not parked, not taken, not closed *)
Example C09_refuted_on_old_code_orphan :
  match run {| drain_has_default := true; run_closes_dropped := false; sender_waits_ack := true; taker_timeout_deletes := true; expiry_drains := true |} init double_dial with
  | Some s => nth_error (closed s) 1 = Some false /\ nth_error (takers s) 1 = Some None /\
              nth_error (acks s) 1 = Some None /\ step {| drain_has_default := true; run_closes_dropped := false; sender_waits_ack := true; taker_timeout_deletes := true; expiry_drains := true |} s (Step 2) = None
  | None => False
  end.
Proof. vm_compute. repeat split; reflexivity. Qed.
(* on the current code the same history leaves the broker usable and the second dialer answered *)
Example C09_nonvacuous :
  match run gen_mux_params init (double_dial ++ [Step 4]) with
  | Some s => wedged gen_mux_params s = false /\ step gen_mux_params s (Step 2) <> None /\
              step gen_mux_params s (Call (OpAccept 100%N)) <> None
  | None => False
  end.
Proof. vm_compute. repeat split; try reflexivity; intros H; discriminate H. Qed.
