(* C08 — Multiplexed gRPC broker routes each announced stream to its ID's listener.
   Statements only; proofs in Proofs/GrpcMuxP.v (exhaustive kernel-checked enumeration of the finite
   establishment system, lifted to every schedule by [reach_in]).  The ordering fact comes from the
   Go source on every run: if Accept starts the knock goroutine before registering the listener again,
   [facts_order] stops checking. *)
From Coq Require Import List Bool.
From GP Require Import Model.GrpcMux Model.Params Proofs.GrpcMuxP.
Import ListNotations.

Lemma facts_order : gen_cmux_params = fixedP. Proof. reflexivity. Qed.

(* For both muxer kinds (accepting side = plugin with GRPCServerMuxer, or = host with GRPCClientMuxer),
   for EVERY interleaving of Accept, Run, listenForKnocks, the dialer and the muxer inside one
   establishment, in either issue order (the dialer may knock before, during or after Accept):
   the plugin's main listener never errors, the dial never fails, the stream never goes to the main
   listener, and whenever no goroutine can move any more the stream has been delivered to the
   listener accepted for the id, the dial has completed and Accept has returned. *)
Theorem C08_mux_routing : forall sd s, creachable gen_cmux_params sd s -> good_state gen_cmux_params sd s = true.
Proof. rewrite facts_order. exact mux_routing. Qed.
Print Assumptions C08_mux_routing.

(* no schedule is longer than 14 steps: together with the theorem above, every maximal schedule ends delivered *)
Theorem C08_schedules_finite : forall sd, depth_ok gen_cmux_params sd = true.
Proof. rewrite facts_order. intros [|]; [exact depth_fixed_server|exact depth_fixed_client]. Qed.

(* the defect of the pinned tree (knock goroutine started before the listener is registered):
   dial-first, listenForKnocks scheduled before registration *)
Example C08_refuted_on_old_code :
  (exists s, crun oldP ServerMux cinit [LD; LR; LA; LA; LK; LK; LK; LD; LD; LM] = Some s /\ main_err s = true) /\
  (exists s, crun oldP ClientMux cinit [LD; LR; LA; LA; LK; LK; LK; LD] = Some s /\ d_pc s = DFail).
Proof.
  split.
  - eexists. split; [vm_compute; reflexivity|vm_compute; reflexivity].
  - eexists. split; [vm_compute; reflexivity|vm_compute; reflexivity].
Qed.

(* a knock handler that acknowledges before it opens the door: the dialler's stream can reach the plugin's muxer while
   knockCh is still empty and is handed to the MAIN listener *)
Example C08_refuted_ack_before_door :
  exists s, crun ackFirstP ServerMux cinit [LA; LA; LA; LD; LR; LK; LK; LD; LD; LM] = Some s /\ delivered s = Some ToMain.
Proof. eexists. split; vm_compute; reflexivity. Qed.

(* non-vacuity: the same schedules on the current order end with the stream at the id's listener *)
Example C08_nonvacuous :
  (exists s, crun gen_cmux_params ServerMux cinit [LD; LR; LA; LA; LA; LK; LK; LK; LD; LD; LM] = Some s /\
             delivered s = Some ToListener /\ main_err s = false) /\
  (exists s, crun gen_cmux_params ClientMux cinit [LA; LA; LA; LD; LR; LK; LK; LK; LD; LD; LM] = Some s /\
             delivered s = Some ToListener).
Proof.
  split.
  - eexists. split; [vm_compute; reflexivity|]. split; vm_compute; reflexivity.
  - eexists. split; [vm_compute; reflexivity|]. vm_compute; reflexivity.
Qed.
