(* C15 — Reattach reaches the same live plugin; test mode never kills the server.
   Statements only; proofs in Proofs/ReattachP.v.  They hold at every world, hence after every history. *)
From Coq Require Import List NArith ZArith Bool PeanoNat.
From GP Require Import Base.Val Model.Reattach Proofs.ReattachP.
Import ListNotations.

Theorem C15_reattach_same_instance : forall net w c x h,
  nth_error (cls w) c = Some x -> c_conn x = true -> inst_alive w (c_inst x) = true ->
  let '(w', r) := rstep net w (RReattach c) h in
  r = 1%Z /\ insts w' = insts w /\
  nth_error (cls w') (length (cls w)) = Some {| c_inst := c_inst x; c_test := c_test x; c_live := true; c_conn := true |}.
Proof. exact reattach_same_instance. Qed.

Theorem C15_reattach_dead_not_found : forall net w c x h,
  nth_error (cls w) c = Some x -> c_conn x = true -> inst_alive w (c_inst x) = false ->
  let '(w', r) := rstep net w (RReattach c) h in r = 0%Z /\ insts w' = insts w.
Proof. exact reattach_dead_not_found. Qed.

Theorem C15_reattach_never_launches : forall net w c h, insts (fst (rstep net w (RReattach c) h)) = insts w.
Proof. exact reattach_never_touches_instances. Qed.

(* state set through one client is visible through every other live client of the same instance *)
Theorem C15_same_state : forall net w c1 c2 x1 x2 y v h1 h2,
  nth_error (cls w) c1 = Some x1 -> nth_error (cls w) c2 = Some x2 -> c_inst x1 = c_inst x2 ->
  c_live x1 = true -> c_live x2 = true -> nth_error (insts w) (c_inst x1) = Some y -> i_conn y = CUp ->
  snd (rstep net (fst (rstep net w (RSet c1 v) h1)) (RGet c2) h2) = v.
Proof. exact set_then_get. Qed.
Print Assumptions C15_same_state.

Theorem C15_test_mode_kill_keeps_server : forall net w c x h,
  nth_error (cls w) c = Some x -> c_test x = true -> fst (rstep net w (RKill c) h) = w.
Proof. exact test_mode_kill_keeps_server. Qed.

Theorem C15_kill_ends_instance : forall net w c x h,
  nth_error (cls w) c = Some x -> c_test x = false -> c_live x = true -> c_inst x < length (insts w) ->
  inst_alive (fst (rstep net w (RKill c) h)) (c_inst x) = false /\ inst_conn (fst (rstep net w (RKill c) h)) (c_inst x) = CDown.
Proof. exact kill_ends_instance. Qed.

(* a whole history: start, set, reattach twice, read through the second generation, kill it, reattach again *)
Example C15_nonvacuous :
  snd (rrun false w0 [RStart false; RSet 0 7; RReattach 0; RReattach 1; RGet 2; RKill 2; RAlive 0; RReattach 0; RGet 1;
                RStart true; RReattach 4; RSet 5 9; RKill 5; RAlive 1; RGet 4; RCancel 1; RAlive 1; RReattach 4] [])
  = [1; 1; 1; 1; 7; 0; 0; 0; -1; 1; 1; 1; 0; 1; 9; 0; 0; 0]%Z.
Proof. vm_compute. reflexivity. Qed.

(* net/rpc, test mode: cancelling the server's context stops new reattaches; whether calls on the connections that
   exist still work is left open (the observed outcomes, given as hints, resolve it); a client whose own reattach failed
   has no reattach config to hand on *)
Example C15_nonvacuous_netrpc :
  snd (rrun true w0 [RStart true; RReattach 0; RCancel 0; RAlive 0; RSet 1 5; RGet 0; RReattach 0; RReattach 2; RGet 2] [1; 1; 0; 0; 1; 5; 0; -2; -1]%Z)
  = [1; 1; 0; 0; 1; 5; 0; -2; -1]%Z /\
  snd (rrun true w0 [RStart true; RCancel 0; RSet 0 5; RGet 0] [1; 0; 0; -1]%Z) = [1; 0; 0; -1]%Z /\
  snd (rrun false w0 [RStart true; RCancel 0; RSet 0 5; RGet 0] [1; 0; 1; 5]%Z) = [1; 0; 0; -1]%Z.
Proof. vm_compute. repeat split; reflexivity. Qed.

(* a failed attach is not turned into an attached client by calling Start again: the error comes back every time and the
   world is untouched *)
Theorem C15_failed_attach_stays_failed : forall net w c x h,
  nth_error (cls w) c = Some x -> c_conn x = false -> rstep net w (RAgain c) h = (w, 0%Z).
Proof. exact failed_attach_stays_failed. Qed.
