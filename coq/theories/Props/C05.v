(* C05 — A failed start never leaves a plugin process behind (the part decided by Start's own
   logic: every failing path after launch kills the runner; the OS-level termination and the
   later Kill are observed by the correspondence harness). Statements only. *)
From Coq Require Import List NArith ZArith Bool String.
From GP Require Import Base.Val Base.Bytes Base.GoStrings Model.Negotiate Model.Handshake Model.Params Model.StartFail Model.LaunchOpts Model.StartPipe Proofs.HandshakeP Proofs.StartFailP Proofs.StartPipeP.
From GP Require Model.Secure Proofs.LaunchOptsP.
From GP Require Import Generated.
From GP Require Props.C01.
Import ListNotations.

(* every way Start can fail after launch -- each handshake field invalid in turn, silence until
   the timeout, a partial line, exit before any output, stdout closed while alive, a line too long
   for the scanner -- ends with the runner killed; a successful start does not kill *)
Theorem C05_failed_start_kills : forall c o out t r,
  In r (start_after_launch gen_hs_params c o out t) ->
  (forall a, fst r <> OOk a) -> has_kill (snd r) = true.
Proof.
  intros c o out t r Hr Hne.
  destruct (C01.C01_handshake_sound c o out t r Hr) as (_ & K & _).
  destruct (fst r) as [a| |]; [exfalso; eapply Hne; reflexivity|exact K|exact K].
Qed.
Print Assumptions C05_failed_start_kills.

Theorem C05_success_does_not_kill : forall c o out t r a,
  In r (start_after_launch gen_hs_params c o out t) -> fst r = OOk a -> has_kill (snd r) = false.
Proof.
  intros c o out t r a Hr Ha.
  destruct (C01.C01_handshake_sound c o out t r Hr) as (_ & K & _). rewrite Ha in K. exact K.
Qed.

(* the kill is the last effect of a failing start (after the configuration was touched) *)
Theorem C05_kill_is_last : forall e eff, exists pre, snd (fail e eff) = pre ++ [EfKill].
Proof. intros e eff. exists eff. reflexivity. Qed.

(* every error class is reachable: the quantifier of the property is not empty *)
Example C05_nonvacuous_timeout :
  start_after_launch gen_hs_params C01.ex_cfg (C01.ex_orc "tcp" "x" false) (bs "1|1|tc") TStall = [fail ETimeout []].
Proof. vm_compute. reflexivity. Qed.
Example C05_nonvacuous_partial_line_eof :
  map fst (start_after_launch gen_hs_params C01.ex_cfg (C01.ex_orc "tcp" "x" false) (bs "1|1|tc") TEof) = [OErr EUnrecognized].
Proof. vm_compute. reflexivity. Qed.
Example C05_nonvacuous_exit_before_output :
  map fst (start_after_launch gen_hs_params C01.ex_cfg (C01.ex_orc "tcp" "x" false) [] TEof) = [OErr EUnrecognized; OErr EExited].
Proof. vm_compute. reflexivity. Qed.

(* ---- the failure in front of the handshake: runner.Start itself reports an error, possibly after a custom runner
   launched its workload.  The code-shape facts, read from client.go (Start and Kill) on every run: *)
Lemma facts_runner_recorded_first : StartFailP.shape gen_sf_params.
Proof. repeat split; reflexivity. Qed.

(* "A later Kill returns promptly and removes the temporary socket directory": after runner.Start failed, for either
   launch method, whether or not something was launched, and for any number n >= 1 of Kill calls: what was launched is
   ended, by exactly one runner.Kill, the directory is gone and the client has forgotten the runner *)
Theorem C05_kill_after_failed_runner_start : forall l launched n, (1 <= n)%nat ->
  let s := sf_kills gen_sf_params n (failed_runner_start gen_sf_params l launched true) in
  sc_workload s = false /\ sc_dir s = false /\ sc_kills s = 1%nat /\ sc_runner s = false.
Proof. intros l launched n. exact (kill_after_failed_runner_start gen_sf_params l launched n facts_runner_recorded_first). Qed.
Print Assumptions C05_kill_after_failed_runner_start.

(* and the shape matters: a Start that records the runner only once runner.Start succeeded leaves workload and
   directory behind however often Kill is called; so does, for the directory, a Kill that does not remove it *)
Theorem C05_refuted_late_record : forall P n, sf_records_first P = false ->
  let s := sf_kills P n (failed_runner_start P SfRunner true true) in
  sc_workload s = true /\ sc_dir s = true /\ sc_kills s = 0%nat.
Proof. exact late_record_leaves_workload. Qed.
Theorem C05_refuted_no_dir_removal : forall P n, sf_kill_removes_dir P = false ->
  sc_dir (sf_kills P n (failed_runner_start P SfRunner true true)) = true.
Proof. exact no_removal_leaves_dir. Qed.

Example C05_nonvacuous_runner_start_failure :
  sc_workload (failed_runner_start gen_sf_params SfRunner true true) = true /\
  sc_dir (failed_runner_start gen_sf_params SfRunner true true) = true.
Proof. split; reflexivity. Qed.

(* ---- the whole of Start, every way out (Model/StartPipe.v composes the option checks, the SecureConfig check, the
   runner factory, runner.Start and the handshake stage).  The launch-option facts are C14's: *)
Lemma facts_launch_option_checks : LaunchOptsP.shape gen_lo_params.
Proof. repeat split; reflexivity. Qed.

Lemma handshake_stage_kills : forall c o out t r, In r (start_after_launch gen_hs_params c o out t) ->
  match fst r with OOk _ => has_kill (snd r) = false | _ => has_kill (snd r) = true end.
Proof. intros c o out t r Hr. destruct (C01.C01_handshake_sound c o out t r Hr) as (_ & K & _). exact K. Qed.

(* THE PROPERTY over the composed model: for every configuration of launch options and every behaviour of the
   environment (checksum and file, runner factory, runner.Start, anything at all on the plugin's stdout and either way
   of ending), whenever Start returns an error: nothing was launched; or Start itself killed what it launched before
   returning; or the runner is on record and names its workload, and any later Kill -- one or many -- ends it.  And
   whenever a runner naming its workload was obtained, a later Kill removes the custom runner's socket directory. *)
Theorem C05_start_error_leaves_nothing_behind : forall opts w e n,
  In e (start_pipeline gen_lo_params gen_sf_params gen_hs_params opts w) -> e_error e = true -> (1 <= n)%nat ->
  (e_launched e = false \/ e_killed_by_start e = true \/
   (sc_named (e_client e) = true -> sc_workload (sf_kills gen_sf_params n (e_client e)) = false)) /\
  (sc_runner (e_client e) = true -> sc_named (e_client e) = true -> sc_dir (sf_kills gen_sf_params n (e_client e)) = false).
Proof.
  exact (start_error_leaves_nothing gen_lo_params gen_sf_params gen_hs_params facts_runner_recorded_first handshake_stage_kills).
Qed.
Print Assumptions C05_start_error_leaves_nothing_behind.

(* nothing is launched for an ambiguous configuration or a binary that does not match its checksum *)
Theorem C05_launch_needs_checks : forall opts w e,
  In e (start_pipeline gen_lo_params gen_sf_params gen_hs_params opts w) -> e_launched e = true ->
  unambiguous opts = true /\
  (l_secure opts = true -> Secure.launched (Secure.start_secure (w_checksum w) (w_hash_present w) (w_file w)) = true).
Proof. exact (launch_needs_checks gen_lo_params gen_sf_params gen_hs_params facts_launch_option_checks). Qed.

(* non-vacuity: a custom runner, a binary that matches, a plugin that prints half a line and stays silent: Start fails at
   the handshake stage having launched and killed *)
Example C05_pipeline_nonvacuous :
  map (fun e => (e_error e, e_launched e, e_killed_by_start e))
      (start_pipeline gen_lo_params gen_sf_params gen_hs_params
         {| l_cmd := false; l_reattach := false; l_runner := true; l_secure := false; l_mux := false |}
         {| w_checksum := []; w_hash_present := false; w_file := Secure.FileErr; w_factory_fails := false; w_runner_start := None;
            w_hs_cfg := C01.ex_cfg; w_oracle := C01.ex_orc "tcp" "x" false; w_out := bs "1|1|tc"; w_term := TStall |})
  = [(true, true, true)].
Proof. vm_compute. reflexivity. Qed.
