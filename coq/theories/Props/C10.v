(* C10 — Plugin output never crashes or stalls the host; stderr is forwarded faithfully.
   Statements only; proofs in Proofs/StderrP.v.  Instantiated at the facts regenerated from
   client.go / log_entry.go (Model/Params.v). *)
From Coq Require Import List NArith ZArith Bool String.
From GP Require Import Base.Val Base.Bytes Base.GoStrings Model.Stderr Model.Params Proofs.StderrP.
Import ListNotations.

(* facts of the current source the theorems rest on *)
Lemma facts_checked : sp_checked_assertions gen_sd_params = true. Proof. reflexivity. Qed.
Lemma facts_drains : sp_drains_after_scan_stop gen_sd_params = true. Proof. reflexivity. Qed.
Lemma facts_prefixes :
  sp_prefixes gen_sd_params = [bs "[TRACE]"; bs "[DEBUG]"; bs "[INFO]"; bs "[WARN]"; bs "[ERROR]"; bs "panic:"].
Proof. reflexivity. Qed.

(* For all byte strings on stderr, all configured buffer sizes, all answers of encoding/json and
   time.Parse: the bytes copied to ClientConfig.Stderr consist of exactly the input's lines
   (CR LF read as LF; the last line may or may not be terminated), unchanged and in order,
   whatever a line's length relative to the buffer. *)
Theorem C10_copy_faithful : forall cfg_buf (s : bytes) orc,
  lines (writes_of (log_stderr (S (List.length s)) gen_sd_params (buf_size (sp_default_buf gen_sd_params) cfg_buf) s orc false false))
  = lines (normalize s).
Proof.
  intros. apply copy_faithful; [exact facts_checked|].
  pose proof (buf_size_ge (sp_default_buf gen_sd_params) cfg_buf). apply (Nat.le_trans 2 16); [repeat constructor|exact H].
Qed.
Print Assumptions C10_copy_faithful.

(* no stderr content makes the host panic *)
Theorem C10_no_panic : forall fuel n s orc cont pn,
  panics (log_stderr fuel gen_sd_params n s orc cont pn) = false.
Proof. intros. apply log_stderr_no_panic. exact facts_checked. Qed.
Print Assumptions C10_no_panic.

(* a line that fits in the buffer with its terminator yields exactly one record, the one classify gives *)
Theorem C10_one_record_per_line : forall f n l rest o orc pn,
  no10 l -> (List.length l < n)%nat ->
  exists r, log_stderr (S f) gen_sd_params n (l ++ 10%N :: rest) (o :: orc) false pn =
            OWrite (strip_cr l) :: OWrite [10%N] :: ORecord r ::
            log_stderr f gen_sd_params n rest orc false (snd (classify gen_sd_params (strip_cr l) o pn)) /\
            fst (classify gen_sd_params (strip_cr l) o pn) = [ORecord r].
Proof. intros. apply one_record_per_fitting_line; [exact facts_checked|assumption|assumption]. Qed.

Theorem C10_record_hclog : forall line msg lvl lv kvs has_ts d ts_ok ts p,
  parse_json gen_sd_params d ts_ok = PjEntry msg lvl has_ts kvs -> level_from_string lvl = Some lv ->
  classify gen_sd_params line (d, ts_ok, ts) p =
  ([ORecord {| r_level := lv; r_msg := msg; r_kvs := map (fun kv => (fst kv, jrepr (snd kv))) kvs; r_ts := ts |}], false).
Proof. exact (classify_hclog gen_sd_params). Qed.

Theorem C10_record_text : forall line d ts_ok ts p,
  parse_json gen_sd_params d ts_ok = PjErr ->
  classify gen_sd_params line (d, ts_ok, ts) p =
  ([ORecord {| r_level := fst (text_level gen_sd_params line p); r_msg := line; r_kvs := []; r_ts := [] |}],
   snd (text_level gen_sd_params line p)).
Proof. exact (classify_text gen_sd_params). Qed.

Theorem C10_record_unknown_level : forall line msg lvl kvs has_ts d ts_ok ts p,
  parse_json gen_sd_params d ts_ok = PjEntry msg lvl has_ts kvs -> level_from_string lvl = None ->
  classify gen_sd_params line (d, ts_ok, ts) p = ([ORecord {| r_level := LDebug; r_msg := line; r_kvs := []; r_ts := [] |}], false).
Proof. exact (classify_unknown_level gen_sd_params). Qed.

(* every byte written to stdout after the handshake is consumed, whatever the line lengths *)
Theorem C10_stdout_drained : forall lens,
  stdout_consumed gen_sd_params lens = (fold_right N.add 0%N lens, true).
Proof. intros. apply stdout_all_consumed. exact facts_drains. Qed.
Print Assumptions C10_stdout_drained.

(* the level table, concretely (non-vacuity of the record theorems) *)
Example C10_levels :
  level_from_string (bs " Warn ") = Some LWarn /\ level_from_string (bs "TRACE") = Some LTrace /\
  level_from_string (bs "inf") = None /\
  text_level gen_sd_params (bs "[ERROR] x") false = (LError, false) /\
  text_level gen_sd_params (bs "panic: x") false = (LError, true) /\
  text_level gen_sd_params (bs "goroutine 1") true = (LError, true) /\
  text_level gen_sd_params (bs "plain") false = (LDebug, false).
Proof. vm_compute. repeat split; reflexivity. Qed.

(* the two regions where the pinned tree misbehaved, on the model with the corresponding fact off *)
Definition old_sd := {| sp_checked_assertions := false; sp_prefixes := sp_prefixes gen_sd_params;
                        sp_drains_after_scan_stop := false; sp_default_buf := 65536%N |}.
Example C10_refuted_on_old_code_panic :
  panics (log_stderr 10 old_sd 16 (bs "{""@message"": 1}" ++ [10%N]) [(JObj [(bs "@message", JOther (bs "1"))], false, [])] false false) = true.
Proof. vm_compute. reflexivity. Qed.
Example C10_refuted_on_old_code_stall : snd (stdout_consumed old_sd [65537%N; 10%N]) = false.
Proof. vm_compute. reflexivity. Qed.

(* non-vacuity of the copy theorem: a 40-byte line through a 16-byte buffer, CR LF straddling the boundary *)
Example C10_nonvacuous :
  writes_of (log_stderr 50 gen_sd_params 16 (bs "aaaaaaaaaaaaaaa" ++ [13; 10]%N ++ bs "bbbbbbbbbbbbbbbbbbbbbbbb") [] false false)
  = bs "aaaaaaaaaaaaaaa" ++ [10%N] ++ bs "bbbbbbbbbbbbbbbbbbbbbbbb" ++ [10%N].
Proof. vm_compute. reflexivity. Qed.
