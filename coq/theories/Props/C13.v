(* C13 — SecureConfig runs the binary only if its checksum matches.
   This file holds statements only; every proof is [exact] of a lemma in Proofs/. *)
From Coq Require Import List NArith ZArith Bool.
From GP Require Import Base.Val Base.Bytes Model.Secure Proofs.SecureP.
Import ListNotations.

(* subtle.ConstantTimeCompare is exact equality, for all lengths *)
Theorem C13_ct_compare_eq : forall a b, ct_compare a b = true <-> a = b.
Proof. exact ct_compare_eq. Qed.
Print Assumptions C13_ct_compare_eq.

(* the binary is launched iff a hash is configured, the file could be read and
   its digest equals the (non-empty) configured checksum *)
Theorem C13_exec_iff_match : forall cks hash_present f,
  launched (start_secure cks hash_present f) = true <->
  (cks <> [] /\ hash_present = true /\ f = FileDigest cks).
Proof. exact launch_iff. Qed.
Print Assumptions C13_exec_iff_match.

Theorem C13_error_classes : forall cks hp f,
  let r := start_secure cks hp f in
  (cks = [] -> fst r = StErrVerify CkNoChecksum /\ launched r = false) /\
  (cks <> [] -> hp = false -> fst r = StErrVerify CkNoHash /\ launched r = false) /\
  (cks <> [] -> hp = true -> f = FileErr -> fst r = StErrVerify CkIOErr /\ launched r = false) /\
  (forall d, cks <> [] -> hp = true -> f = FileDigest d -> d <> cks ->
     fst r = StErrMismatch /\ launched r = false).
Proof. exact no_launch_classes. Qed.
Print Assumptions C13_error_classes.

Theorem C13_check_before_launch : forall cks hp f,
  match snd (start_secure cks hp f) with
  | [EfCheck] | [EfCheck; EfLaunch] => True
  | _ => False
  end.
Proof. exact check_before_launch. Qed.

Theorem C13_prefix_rejected : forall d p c rest, d = p ++ c :: rest -> p <> [] ->
  launched (start_secure p true (FileDigest d)) = false.
Proof. exact prefix_rejected. Qed.

Theorem C13_extension_rejected : forall d x xs,
  launched (start_secure (d ++ x :: xs) true (FileDigest d)) = false.
Proof. exact extension_rejected. Qed.

Theorem C13_bitflip_rejected : forall d i bit, i < length d ->
  launched (start_secure (flip_bit i bit d) true (FileDigest d)) = false.
Proof. exact bitflip_rejected. Qed.
Print Assumptions C13_bitflip_rejected.

Theorem C13_oracle_accepts_model : forall inp m,
  obs_secure inp = Some m -> oracle_secure inp m = Some true.
Proof. exact oracle_accepts_model. Qed.

(* non-vacuity: a concrete digest launches, its one-bit neighbour does not *)
Example C13_nonvacuous :
  launched (start_secure [1;2;3]%N true (FileDigest [1;2;3]%N)) = true /\
  launched (start_secure [1;2;2]%N true (FileDigest [1;2;3]%N)) = false.
Proof. split; reflexivity. Qed.
