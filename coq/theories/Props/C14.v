(* C14 — Host and plugin configurations interoperate exactly when compatible.
   Statements only; proofs in Proofs/InteropP.v (finite case analysis over the matrix dimensions, checked by the kernel). *)
From Coq Require Import List NArith ZArith Bool String.
From GP Require Import Base.Val Base.Bytes Base.GoStrings Model.Negotiate Model.Handshake Model.Serve Model.Interop Model.Params
  Proofs.InteropP Proofs.ServeP Proofs.RoundTripP Proofs.AgreeP.
From GP Require Model.Env Proofs.EnvP Proofs.ChainP Model.LaunchOpts Proofs.LaunchOptsP.
Import ListNotations.

(* the outcome type of the model has no "hang", "panic" or "silently downgraded" constructor: every
   combination is either Works or one of three error kinds; and it works exactly when compatible *)
Theorem C14_works_iff_compatible : forall h p, interop h p = Works <-> compatible h p = true.
Proof. exact works_iff_compatible. Qed.
Print Assumptions C14_works_iff_compatible.

(* which error: protocol / option conflicts fail at start (multiplexing requested from a plugin that does
   not advertise it with the dedicated error), transport-security mismatches on first use *)
Theorem C14_mismatch_kinds : forall h p,
  match interop h p with
  | Works => compatible h p = true
  | StartErr => h_launch h = LReattach /\ h_mux h = true \/ h_launch h <> LReattach /\ allowed h (p_wire p) = false
  | StartErrMuxUnsupported => h_mux h = true /\ p_wire p = WGrpc /\ p_mux p <> MuxNew /\ allowed h (p_wire p) = true
  | FirstUseErr => transport_ok h p = false
  end.
Proof. exact mismatch_kinds. Qed.

(* and the other way round, where each mismatch surfaces: a protocol outside the allowed list and the Reattach option
   conflict at start; an unanswered multiplexing request at start with the dedicated error; whatever the rest of the
   two configurations *)
Theorem C14_mismatch_surfaces_at_start : forall h p,
  (h_launch h <> LReattach -> allowed h (p_wire p) = false -> interop h p = StartErr) /\
  (h_launch h <> LReattach -> allowed h (p_wire p) = true -> h_mux h = true -> p_wire p = WGrpc -> p_mux p <> MuxNew ->
   interop h p = StartErrMuxUnsupported) /\
  (h_launch h = LReattach -> h_mux h = true -> interop h p = StartErr).
Proof.
  intros h p. unfold interop. repeat split.
  - intros Hl Ha. destruct (h_launch h); try congruence; rewrite Ha; reflexivity.
  - intros Hl Ha Hm Hw Hx. destruct (h_launch h); try congruence; rewrite Ha, Hm, Hw; cbn;
      destruct (p_mux p); try congruence; reflexivity.
  - intros Hl Hm. rewrite Hl, Hm. reflexivity.
Qed.

Theorem C14_protocol_allowed : forall h p, h_launch h <> LReattach -> interop h p = Works -> allowed h (p_wire p) = true.
Proof. exact works_protocol_allowed. Qed.

(* the two ends of a compatible pair, over the real line: whatever a plugin's Serve prints once its cookie gate is open
   (any negotiated version, any bar-free address, a base64 certificate or none, with or without the multiplexing field)
   is accepted by a host whose configuration has the announced version, allows the announced protocol, can resolve the
   address, has a TLS config when a certificate is announced and -- when it asked for multiplexing over gRPC -- told the
   plugin so; and the host ends up with exactly the plugin's version, protocol and address.  Constants and code-shape
   parameters of both ends are the generated ones. *)
Theorem C14_handshake_agreement : forall sc env addr cert hc o v p sset cset,
  gate_ok sc env = true ->
  server_pick (sv_serve sc) (getenv env (bs "PLUGIN_PROTOCOL_VERSIONS")) = (v, p, sset) -> in64 v ->
  no_bar addr = true -> no_bar cert = true -> forallb plain_byte cert = true ->
  mget (client_map (Handshake.h_client hc)) v = Some cset ->
  o_translate_ok o = true -> (bytes_eqb (o_net o) (bs "tcp") || bytes_eqb (o_net o) (bs "unix")) = true -> o_resolves o = true ->
  mem_bytes (proto_bytes p) (Handshake.h_allowed hc) = true ->
  ((hp_cert_len gen_hs_params < List.length cert)%nat -> o_cert_parses o = true /\ Handshake.h_has_tls hc = true) ->
  (Handshake.h_mux hc = true -> p = PGrpc -> getenv env (svp_mux_key gen_sv_params) <> []) ->
  exists line, serve gen_sv_params sc env addr cert = [SvListen; SvPrint line; SvSwapStdio] /\
    fst (process_line gen_hs_params hc o line) =
      OOk {| a_net := o_net o; a_addr := o_canon o; a_resolved := true; a_proto := proto_bytes p; a_version := v; a_set := ps_id cset |}.
Proof.
  apply (handshake_agreement gen_sv_params gen_hs_params); try reflexivity.
  - unfold in64, int_min, int_max. cbn. split; discriminate.
  - cbn. repeat constructor.
Qed.

(* the same through the host's scanner and select: the plugin's stdout carries the line, a newline, then anything; Start's
   only outcome is success with the plugin's values, and the plugin is not killed *)
Theorem C14_start_agreement : forall sc env addr cert hc o v p sset cset,
  gate_ok sc env = true ->
  server_pick (sv_serve sc) (getenv env (bs "PLUGIN_PROTOCOL_VERSIONS")) = (v, p, sset) -> in64 v ->
  no_bar addr = true -> no_nl addr = true -> no_bar cert = true -> forallb plain_byte cert = true ->
  mget (client_map (Handshake.h_client hc)) v = Some cset ->
  o_translate_ok o = true -> (bytes_eqb (o_net o) (bs "tcp") || bytes_eqb (o_net o) (bs "unix")) = true -> o_resolves o = true ->
  mem_bytes (proto_bytes p) (Handshake.h_allowed hc) = true ->
  ((hp_cert_len gen_hs_params < List.length cert)%nat -> o_cert_parses o = true /\ Handshake.h_has_tls hc = true) ->
  (Handshake.h_mux hc = true -> p = PGrpc -> getenv env (svp_mux_key gen_sv_params) <> []) ->
  exists line, serve gen_sv_params sc env addr cert = [SvListen; SvPrint line; SvSwapStdio] /\
    ((blen line < max_token)%N -> forall rest t, exists eff,
       start_after_launch gen_hs_params hc o (line ++ 10%N :: rest) t =
         [(OOk {| a_net := o_net o; a_addr := o_canon o; a_resolved := true; a_proto := proto_bytes p; a_version := v; a_set := ps_id cset |}, eff)]
       /\ has_kill eff = false).
Proof.
  apply (start_agreement gen_sv_params gen_hs_params); try reflexivity.
  - unfold in64, int_min, int_max. cbn. split; discriminate.
  - cbn. repeat constructor.
Qed.

(* FROM CONFIGURATION TO RESULT.  A host whose version sets are [h_client hc] builds the plugin's environment as
   client.go does (Model/Env.v, any Cmd.Env and host environment), the plugin -- same cookie -- reads it (last binding
   wins), negotiates, prints; the host scans and parses.  With a version in common, the protocol registered for it
   allowed, a resolvable address and agreeing transport options, Start succeeds with the highest common version. *)
Theorem C14_launch_to_start : forall c cert_env dir cmd_env host_env sc addr cert hc o,
  EnvP.ctl c -> cert_env <> [] ->
  sv_key sc = Env.e_cookie_key c -> sv_value sc = Env.e_cookie_value c -> Env.e_cookie_key c <> [] -> Env.e_cookie_value c <> [] ->
  Env.e_versions c = mkeys (client_map (Handshake.h_client hc)) -> Handshake.h_mux hc = Env.e_mux c ->
  Forall in64 (mkeys (client_map (Handshake.h_client hc))) -> Forall in64 (mkeys (server_map (sv_serve sc))) ->
  (exists v, In v (mkeys (server_map (sv_serve sc))) /\ In v (mkeys (client_map (Handshake.h_client hc)))) ->
  no_bar addr = true -> no_nl addr = true -> no_bar cert = true -> forallb plain_byte cert = true ->
  o_translate_ok o = true -> (bytes_eqb (o_net o) (bs "tcp") || bytes_eqb (o_net o) (bs "unix")) = true -> o_resolves o = true ->
  let penv := ChainP.to_pairs (Env.build_env gen_env_params c cert_env dir cmd_env host_env) in
  let r := server_pick (sv_serve sc) (getenv penv (bs "PLUGIN_PROTOCOL_VERSIONS")) in
  mem_bytes (proto_bytes (snd (fst r))) (Handshake.h_allowed hc) = true ->
  ((hp_cert_len gen_hs_params < List.length cert)%nat -> o_cert_parses o = true /\ Handshake.h_has_tls hc = true) ->
  exists line cset, serve gen_sv_params sc penv addr cert = [SvListen; SvPrint line; SvSwapStdio] /\
    is_max_common (fst (fst r)) (mkeys (server_map (sv_serve sc))) (mkeys (client_map (Handshake.h_client hc))) /\
    mget (client_map (Handshake.h_client hc)) (fst (fst r)) = Some cset /\
    ((blen line < max_token)%N -> forall rest t, exists eff,
       start_after_launch gen_hs_params hc o (line ++ 10%N :: rest) t =
         [(OOk {| a_net := o_net o; a_addr := o_canon o; a_resolved := true; a_proto := proto_bytes (snd (fst r));
                  a_version := fst (fst r); a_set := ps_id cset |}, eff)]
       /\ has_kill eff = false).
Proof.
  apply ChainP.launch_to_start; [reflexivity|]. unfold in64, int_min, int_max. cbn. split; discriminate.
Qed.
Print Assumptions C14_launch_to_start.

Theorem C14_launch_without_common_version : forall c cert_env dir cmd_env host_env sc addr cert hc o,
  EnvP.ctl c -> cert_env <> [] ->
  sv_key sc = Env.e_cookie_key c -> sv_value sc = Env.e_cookie_value c -> Env.e_cookie_key c <> [] -> Env.e_cookie_value c <> [] ->
  Env.e_versions c = mkeys (client_map (Handshake.h_client hc)) ->
  Forall in64 (mkeys (client_map (Handshake.h_client hc))) -> Forall in64 (mkeys (server_map (sv_serve sc))) ->
  mkeys (server_map (sv_serve sc)) <> [] ->
  disjoint (mkeys (server_map (sv_serve sc))) (mkeys (client_map (Handshake.h_client hc))) ->
  no_bar addr = true -> no_nl addr = true -> no_bar cert = true -> forallb plain_byte cert = true ->
  let penv := ChainP.to_pairs (Env.build_env gen_env_params c cert_env dir cmd_env host_env) in
  exists line, serve gen_sv_params sc penv addr cert = [SvListen; SvPrint line; SvSwapStdio] /\
    ((blen line < max_token)%N -> forall rest t, exists eff,
       start_after_launch gen_hs_params hc o (line ++ 10%N :: rest) t = [(OErr EAppVersion, eff)] /\ has_kill eff = true).
Proof.
  apply ChainP.launch_without_common_version; [reflexivity|]. unfold in64, int_min, int_max. cbn. split; discriminate.
Qed.

(* ... and the mismatches surface at start, with the plugin terminated: the announced version is not one the host has;
   the announced protocol is not allowed; multiplexing was asked for from a plugin that does not advertise it *)
Lemma gen_core_eq : svp_core gen_sv_params = hp_core gen_hs_params. Proof. reflexivity. Qed.
Lemma gen_core64 : in64 (svp_core gen_sv_params). Proof. unfold in64, int_min, int_max. cbn. split; discriminate. Qed.
Lemma gen_min : (hp_min_fields gen_hs_params <= 6)%nat. Proof. cbn. repeat constructor. Qed.

Theorem C14_version_mismatch_at_start : forall sc env addr cert hc o v p sset,
  gate_ok sc env = true ->
  server_pick (sv_serve sc) (getenv env (bs "PLUGIN_PROTOCOL_VERSIONS")) = (v, p, sset) -> in64 v ->
  no_bar addr = true -> no_bar cert = true -> forallb plain_byte cert = true ->
  mget (client_map (Handshake.h_client hc)) v = None ->
  exists line, serve gen_sv_params sc env addr cert = [SvListen; SvPrint line; SvSwapStdio] /\
    fst (process_line gen_hs_params hc o line) = OErr EAppVersion /\ has_kill (snd (process_line gen_hs_params hc o line)) = true.
Proof. exact (version_mismatch_is_start_error gen_sv_params gen_hs_params eq_refl gen_core_eq gen_core64 gen_min). Qed.

Theorem C14_protocol_mismatch_at_start : forall sc env addr cert hc o v p sset cset,
  gate_ok sc env = true ->
  server_pick (sv_serve sc) (getenv env (bs "PLUGIN_PROTOCOL_VERSIONS")) = (v, p, sset) -> in64 v ->
  no_bar addr = true -> no_bar cert = true -> forallb plain_byte cert = true ->
  mget (client_map (Handshake.h_client hc)) v = Some cset ->
  o_translate_ok o = true -> addr_known o = true -> o_resolves o = true ->
  mem_bytes (proto_bytes p) (Handshake.h_allowed hc) = false ->
  exists line, serve gen_sv_params sc env addr cert = [SvListen; SvPrint line; SvSwapStdio] /\
    fst (process_line gen_hs_params hc o line) = OErr EProtocol /\ has_kill (snd (process_line gen_hs_params hc o line)) = true.
Proof. exact (protocol_mismatch_is_start_error gen_sv_params gen_hs_params eq_refl gen_core_eq gen_core64 gen_min). Qed.

Theorem C14_mux_unsupported_at_start : forall sc env addr cert hc o v p sset cset,
  gate_ok sc env = true ->
  server_pick (sv_serve sc) (getenv env (bs "PLUGIN_PROTOCOL_VERSIONS")) = (v, p, sset) -> in64 v ->
  no_bar addr = true -> no_bar cert = true -> forallb plain_byte cert = true ->
  mget (client_map (Handshake.h_client hc)) v = Some cset ->
  o_translate_ok o = true -> addr_known o = true -> o_resolves o = true ->
  mem_bytes (proto_bytes p) (Handshake.h_allowed hc) = true ->
  ((hp_cert_len gen_hs_params < List.length cert)%nat -> o_cert_parses o = true /\ Handshake.h_has_tls hc = true) ->
  Handshake.h_mux hc = true -> p = PGrpc -> getenv env (svp_mux_key gen_sv_params) = [] ->
  exists line, serve gen_sv_params sc env addr cert = [SvListen; SvPrint line; SvSwapStdio] /\
    fst (process_line gen_hs_params hc o line) = OErr EMuxUnsupported /\ has_kill (snd (process_line gen_hs_params hc o line)) = true.
Proof. exact (mux_unsupported_is_start_error gen_sv_params gen_hs_params eq_refl eq_refl gen_core_eq gen_core64 gen_min). Qed.

Example C14_nonvacuous :
  interop {| h_allow_net := false; h_allow_grpc := true; h_tls := HAuto; h_mux := true; h_launch := LRunnerFunc |}
          {| p_wire := WGrpc; p_tls := PNone; p_mux := MuxNew |} = Works /\
  interop {| h_allow_net := false; h_allow_grpc := true; h_tls := HAuto; h_mux := true; h_launch := LCmd |}
          {| p_wire := WGrpc; p_tls := PNone; p_mux := MuxOld |} = StartErrMuxUnsupported /\
  interop {| h_allow_net := true; h_allow_grpc := false; h_tls := HNone; h_mux := false; h_launch := LCmd |}
          {| p_wire := WGrpc; p_tls := PNone; p_mux := MuxNew |} = StartErr /\
  interop {| h_allow_net := true; h_allow_grpc := true; h_tls := HStatic; h_mux := false; h_launch := LReattach |}
          {| p_wire := WNet; p_tls := PNone; p_mux := MuxNew |} = FirstUseErr.
Proof. repeat split; reflexivity. Qed.

(* ---- option conflicts surface at start: the exclusivity checks in front of every launch or attach.  The shape of
   those checks is read from client.go on every run: *)
Lemma facts_launch_option_checks : LaunchOptsP.shape gen_lo_params.
Proof. repeat split; reflexivity. Qed.

(* over all 32 combinations of Cmd / Reattach / RunnerFunc / SecureConfig / GRPCBrokerMultiplex: Start gets past its
   option checks exactly when one launch method is named and no Reattach-specific conflict is present *)
Theorem C14_option_conflicts_rejected : forall c,
  LaunchOpts.option_check gen_lo_params c = 0%Z <-> LaunchOpts.unambiguous c = true.
Proof. intros c. exact (LaunchOptsP.option_check_sound gen_lo_params c facts_launch_option_checks). Qed.
Print Assumptions C14_option_conflicts_rejected.

(* and then the method used is the one that was named: no option the host set is silently dropped *)
Theorem C14_named_method_is_used : forall c, LaunchOpts.option_check gen_lo_params c = 0%Z ->
  match LaunchOpts.method_used c with
  | LaunchOpts.MReattach => LaunchOpts.l_reattach c = true /\ LaunchOpts.l_cmd c = false /\ LaunchOpts.l_runner c = false
  | LaunchOpts.MRunner => LaunchOpts.l_runner c = true /\ LaunchOpts.l_cmd c = false /\ LaunchOpts.l_reattach c = false
  | LaunchOpts.MCmd => LaunchOpts.l_cmd c = true /\ LaunchOpts.l_runner c = false /\ LaunchOpts.l_reattach c = false
  end.
Proof. intros c. exact (LaunchOptsP.passed_means_named_method gen_lo_params c facts_launch_option_checks). Qed.

(* a validation organised around Reattach alone lets Cmd + RunnerFunc through and drops the command *)
Theorem C14_refuted_reattach_only_validation :
  exists c, LaunchOptsP.reattach_only_check c = 0%Z /\ LaunchOpts.unambiguous c = false /\
            LaunchOpts.method_used c = LaunchOpts.MRunner /\ LaunchOpts.l_cmd c = true.
Proof. exact LaunchOptsP.reattach_only_check_unsound. Qed.
