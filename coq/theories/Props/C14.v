(* C14 — Host and plugin configurations interoperate exactly when compatible.
   Statements only; proofs in Proofs/InteropP.v (finite case analysis over the matrix dimensions, checked by the kernel). *)
From Coq Require Import List NArith ZArith Bool.
From GP Require Import Base.Val Model.Interop Proofs.InteropP.
Import ListNotations.

(* the outcome type of the model has no "hang", "panic" or "silently downgraded" constructor: every
   combination is either Works or one of three error kinds; and it works exactly when compatible *)
Theorem C14_works_iff_compatible : forall h p, interop h p = Works <-> compatible h p = true.
Proof. exact works_iff_compatible. Qed.
Print Assumptions C14_works_iff_compatible.

(* which error: protocol / option conflicts fail at start (multiplexing requested from a plugin that does
   not advertise it with the dedicated error), transport-security mismatches on first use *)
Theorem C14_mismatch_kinds : forall h p,
  match interop h p with
  | Works => compatible h p = true
  | StartErr => h_launch h = LReattach /\ h_mux h = true \/ h_launch h <> LReattach /\ allowed h (p_wire p) = false
  | StartErrMuxUnsupported => h_mux h = true /\ p_wire p = WGrpc /\ p_mux p <> MuxNew /\ allowed h (p_wire p) = true
  | FirstUseErr => transport_ok h p = false
  end.
Proof. exact mismatch_kinds. Qed.

Theorem C14_protocol_allowed : forall h p, h_launch h <> LReattach -> interop h p = Works -> allowed h (p_wire p) = true.
Proof. exact works_protocol_allowed. Qed.

Example C14_nonvacuous :
  interop {| h_allow_net := false; h_allow_grpc := true; h_tls := HAuto; h_mux := true; h_launch := LRunnerFunc |}
          {| p_wire := WGrpc; p_tls := PNone; p_mux := MuxNew |} = Works /\
  interop {| h_allow_net := false; h_allow_grpc := true; h_tls := HAuto; h_mux := true; h_launch := LCmd |}
          {| p_wire := WGrpc; p_tls := PNone; p_mux := MuxOld |} = StartErrMuxUnsupported /\
  interop {| h_allow_net := true; h_allow_grpc := false; h_tls := HNone; h_mux := false; h_launch := LCmd |}
          {| p_wire := WGrpc; p_tls := PNone; p_mux := MuxNew |} = StartErr /\
  interop {| h_allow_net := true; h_allow_grpc := true; h_tls := HStatic; h_mux := false; h_launch := LReattach |}
          {| p_wire := WNet; p_tls := PNone; p_mux := MuxNew |} = FirstUseErr.
Proof. repeat split; reflexivity. Qed.
