(* C12 — With AutoMTLS every plugin connection is mutually authenticated.
   Statements only; proofs in Proofs/TlsP.v.  What is proved is the WIRING: on every path go-plugin
   configures an endpoint which, under the stated law of crypto/tls (Model/Tls.v server_accepts /
   client_accepts), serves only the holder of the legitimate one-time key.  The wiring facts are
   re-extracted from client.go, server.go and grpc_broker.go on every run. *)
From Coq Require Import List NArith ZArith Bool.
From GP Require Import Base.Val Model.Tls Model.Params Proofs.TlsP.
Import ListNotations.

Lemma f1 : tp_host_cfg_at_start gen_tls_params = true. Proof. reflexivity. Qed.
Lemma f2 : tp_host_requires_client gen_tls_params = true. Proof. reflexivity. Qed.
Lemma f3 : tp_host_pins_client_cas gen_tls_params = true. Proof. reflexivity. Qed.
Lemma f4 : tp_host_pins_root_cas gen_tls_params = true. Proof. reflexivity. Qed.
Lemma f5 : tp_plugin_requires_client gen_tls_params = true. Proof. reflexivity. Qed.
Lemma f6 : tp_plugin_pins_client_cas gen_tls_params = true. Proof. reflexivity. Qed.
Lemma f7 : tp_broker_serves_with_tls gen_tls_params = true. Proof. reflexivity. Qed.
Lemma f8 : tp_pools_only_pinned gen_tls_params = true. Proof. reflexivity. Qed.
Lemma f9 : tp_standard_verification gen_tls_params = true. Proof. reflexivity. Qed.

(* every path (main listener over net/rpc or gRPC, plugin-side and host-side brokered listeners; with
   multiplexing the same configurations run over the yamux streams) has a TLS server configuration that
   requires a client certificate and pins exactly the legitimate peer's one-time certificate *)
Theorem C12_every_path_mutual : forall announced p,
  exists c, server_cfg gen_tls_params announced p = Some c /\ t_require_client c = true /\
            t_client_cas c = match p with
                             | HostBrokered => match announced with Some k => [k] | None => [] end
                             | _ => [host_key] end.
Proof. exact (every_path_mutual gen_tls_params f1 f2 f3 f5 f6 f7 f8). Qed.

(* a peer that connects in plaintext, presents no certificate, or presents any other certificate is
   refused on every path, whatever certificate the plugin announced (or none): only the legitimate key is served *)
Theorem C12_only_legit_served : forall announced p x,
  server_accepts (server_cfg gen_tls_params announced p) x = true ->
  match p with
  | HostBrokered => exists k, announced = Some k /\ x = TLSCert k
  | _ => x = TLSCert host_key
  end.
Proof. exact (only_legit_served gen_tls_params f1 f2 f3 f5 f6 f7 f8). Qed.
Print Assumptions C12_only_legit_served.

(* the host talks only to a server holding the certificate announced in the handshake line: an impostor that
   announces one certificate and serves another, or announces none, is refused *)
Theorem C12_host_pins_announced : forall announced p s,
  p <> HostBrokered -> client_accepts (client_cfg gen_tls_params announced p) (Some s) = true ->
  exists k, announced = Some k /\ t_own s = Some k.
Proof. exact (host_pins_announced gen_tls_params f1 f2 f3 f4 f8 f9). Qed.

Theorem C12_no_plaintext_fallback : forall p, p <> HostBrokered -> client_accepts (client_cfg gen_tls_params None p) None = false.
Proof. intros p Hp. destruct p; try congruence; reflexivity. Qed.

(* non-vacuity: the legitimate pair is accepted on every path *)
Theorem C12_legit_pair_accepted : forall p,
  let announced := Some plugin_key in
  let legit := match p with HostBrokered => TLSCert plugin_key | _ => TLSCert host_key end in
  server_accepts (server_cfg gen_tls_params announced p) legit = true /\
  client_accepts (client_cfg gen_tls_params announced p) (server_cfg gen_tls_params announced p) = true.
Proof. exact (legit_pair_accepted gen_tls_params f1 f2 f3 f4 f5 f6 f7 f8 f9). Qed.

(* the impostor of the property text: it announces the genuine (public) certificate, holds another key, and sends the
   announced certificate along behind a leaf of its own.  The host refuses it on every path on which the host is the
   TLS client (main connection over net/rpc and gRPC, dials of plugin-side brokered listeners) *)
Theorem C12_impostor_with_announced_cert_refused : forall p,
  p <> HostBrokered -> client_accepts (client_cfg gen_tls_params (Some plugin_key) p) (Some impostor_server) = false.
Proof. intros p Hp. apply (impostor_refused gen_tls_params f1 f2 f3 f4 f8 f9 (Some plugin_key) p Hp). discriminate. Qed.
Print Assumptions C12_impostor_with_announced_cert_refused.

(* and this rests on crypto/tls's own verification being in force: a host configuration that switches it off (whatever
   callback it installs instead is outside the model) lets that impostor in *)
Theorem C12_refuted_verification_off : forall P p,
  tp_host_cfg_at_start P = true -> tp_standard_verification P = false -> p <> HostBrokered ->
  client_accepts (client_cfg P (Some plugin_key) p) (Some impostor_server) = true.
Proof. exact skip_verify_lets_impostor_in. Qed.
