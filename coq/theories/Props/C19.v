(* C19 — A Client launches its plugin at most once and its accessors are idempotent.
   Statements only; proofs in Proofs/ClientOpsP.v.  A schedule is any list of the atomic steps
   (every public method's body runs under the client mutex), so "any sequence or concurrent mix of
   calls" is "any list of labels". *)
From Coq Require Import List NArith ZArith Bool PeanoNat.
From GP Require Import Base.Val Model.ClientOps Proofs.ClientOpsP.
Import ListNotations.

(* all successful Start calls return the same address and all successful Client calls the same
   protocol client: for either launch method, whatever happens to the launch attempts *)
Theorem C19_same_address : forall lk env ls a b,
  In (RAddr a) (snd (cl_run lk env cl_init ls)) -> In (RAddr b) (snd (cl_run lk env cl_init ls)) -> a = b.
Proof. exact same_address. Qed.
Theorem C19_same_client : forall lk env ls a b,
  In (RClient a) (snd (cl_run lk env cl_init ls)) -> In (RClient b) (snd (cl_run lk env cl_init ls)) -> a = b.
Proof. exact same_client. Qed.
Print Assumptions C19_same_client.

(* at most one launch: with a command launch always (exec.Cmd refuses a second start); with a custom
   runner whenever no launched start fails.  Includes every sequence that contains Kill: after Kill no
   step launches (the address, once set, is never cleared). *)
Theorem C19_launch_once_cmd : forall env ls, launches (fst (cl_run ByCmd env cl_init ls)) <= 1.
Proof. exact launch_once_cmd. Qed.
Theorem C19_launch_once_runnerfunc_partial : forall env ls,
  (forall k, env k = AttemptOk) -> launches (fst (cl_run ByRunnerFunc env cl_init ls)) <= 1.
Proof. exact launch_once_runnerfunc. Qed.
Print Assumptions C19_launch_once_runnerfunc_partial.

Theorem C19_address_never_cleared : forall lk env ls s a, address s = Some a -> address (fst (cl_run lk env s ls)) = Some a.
Proof. intros lk env ls s a. apply run_address_stable. Qed.

(* FINDING (recorded in known_findings.json, identified by exactly this history): with a custom runner,
   a first Start that fails after the launch leaves the address unset, and the next Start launches again *)
Theorem C19_refuted_retry :
  launches (fst (cl_run ByRunnerFunc (fun _ => AttemptFailsAfterLaunch) cl_init [LStart; LStart; LStart])) = 3.
Proof. vm_compute. reflexivity. Qed.

Example C19_nonvacuous :
  snd (cl_run ByRunnerFunc (fun _ => AttemptOk) cl_init [LStart; LClientRest; LKillEnd; LStart; LClientRest])
  = [RAddr 0; RClient 0; RNone; RAddr 0; RClient 0].
Proof. vm_compute. reflexivity. Qed.
