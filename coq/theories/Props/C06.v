(* C06 — MuxBroker connects Dial(id) only to Accept(id).
   Statements only; proofs in Proofs/MuxBrokerP.v.  The transition system is Model/MuxBroker.v; a
   state is reachable by ANY finite schedule (any number of ids and threads, any interleaving, timer
   firings anywhere). *)
From Coq Require Import List NArith Bool PeanoNat.
From GP Require Import Model.MuxBroker Model.Params Proofs.MuxBrokerP.
From GP Require Generated Model.Conc Proofs.ConcP.
From Coq Require Import ZArith.
Import ListNotations.

(* routing: an Accept(n) and a Dial(m) that ended up on the same stream have n = m, and that stream
   is one a Dial(n) opened (its header is n) *)
Theorem C06_routing : forall P s ta td n m i,
  reachable P s ->
  tlookup (thr s) ta = Some (Done (AccOk n i)) ->
  tlookup (thr s) td = Some (Done (DialOk m i)) ->
  n = m /\ nth_error (hdrs s) i = Some n.
Proof. exact MuxBrokerP.C06_routing. Qed.
Print Assumptions C06_routing.

(* an accepted stream carries the accepted id, whatever the dialer's fate *)
Theorem C06_accept_gets_own_id : forall P s t n i,
  reachable P s -> tlookup (thr s) t = Some (Done (AccOk n i)) -> nth_error (hdrs s) i = Some n.
Proof. intros P s t n i R H. apply inv_reachable in R. exact (proj1 (I_thr _ R _ _ H)). Qed.

(* a successful Dial(n) was acknowledged with n by whoever accepted its stream *)
Theorem C06_dial_acked : forall P s t n i,
  reachable P s -> tlookup (thr s) t = Some (Done (DialOk n i)) -> nth_error (acks s) i = Some (Some n).
Proof. intros P s t n i R H. apply inv_reachable in R. exact (I_thr _ R _ _ H). Qed.

(* no stream is handed to two Accept calls *)
Theorem C06_accept_unique : forall P s ta tb n m i,
  reachable P s ->
  tlookup (thr s) ta = Some (Done (AccOk n i)) ->
  tlookup (thr s) tb = Some (Done (AccOk m i)) -> ta = tb.
Proof. exact accept_unique. Qed.
Print Assumptions C06_accept_unique.

(* non-vacuity: dial-first and accept-first both end Ok/Ok on the same stream, with 3 ids interleaved *)
Example C06_nonvacuous :
  match run gen_mux_params init
          [Call OpRun; Call (OpDial 7%N); Call (OpAccept 9%N); Call (OpDial 9%N); Call (OpDial 8%N);
           Step 0; Step 0; Step 0; Call (OpAccept 7%N); Call (OpAccept 8%N);
           Step 2; Step 2; Step 8; Step 8; Step 9; Step 9; Step 1; Step 3; Step 4] with
  | Some s => tlookup (thr s) 1 = Some (Done (DialOk 7%N 0)) /\ tlookup (thr s) 8 = Some (Done (AccOk 7%N 0)) /\
              tlookup (thr s) 3 = Some (Done (DialOk 9%N 1)) /\ tlookup (thr s) 2 = Some (Done (AccOk 9%N 1)) /\
              tlookup (thr s) 4 = Some (Done (DialOk 8%N 2)) /\ tlookup (thr s) 9 = Some (Done (AccOk 8%N 2))
  | None => False
  end.
Proof. vm_compute. repeat split; reflexivity. Qed.

(* "Each net/rpc Dispense therefore reaches the server object created for that dispense": for any number of concurrent
   dispenses with distinct ids (distinctness of allocated ids is C20_nextid_distinct), in any interleaving with each
   other and with anything else on the broker, the stream the client of dispense j obtained is the one accepted -- and
   served with that request's implementation -- by the accepting goroutine of dispense j, never that of another dispense *)
Theorem C06_dispense_reaches_own_server : forall P s (ds : list dispense) j k i,
  reachable P s -> NoDup (map d_id ds) -> In j ds -> In k ds ->
  tlookup (thr s) (d_dial j) = Some (Done (DialOk (d_id j) i)) ->
  tlookup (thr s) (d_acc k) = Some (Done (AccOk (d_id k) i)) ->
  j = k.
Proof. exact dispense_reaches_own_server. Qed.
Print Assumptions C06_dispense_reaches_own_server.

(* ... and with the ids taken from the allocator itself (MuxBroker.NextId, an atomic add on a uint32, as read from the
   source): up to 2^32 dispenses, issued from any goroutines in any order *)
Theorem C06_dispenses_with_allocated_ids : forall P s (calls : list nat) (counter : Z) (ds : list dispense) j k i,
  (Z.of_nat (List.length calls) <= 4294967296)%Z ->
  map d_id ds = map Z.to_N (Conc.ids_of counter (List.concat (map (Conc.nextid_events Generated.nextid_atomic) calls))) ->
  reachable P s -> In j ds -> In k ds ->
  tlookup (thr s) (d_dial j) = Some (Done (DialOk (d_id j) i)) ->
  tlookup (thr s) (d_acc k) = Some (Done (AccOk (d_id k) i)) ->
  j = k.
Proof.
  intros P s calls counter ds j k i Hn Hids R Hj Hk Hd Ha.
  apply (dispense_reaches_own_server P s ds j k i R); auto.
  rewrite Hids. exact (ConcP.nextid_calls_distinct_N Generated.nextid_atomic calls counter eq_refl Hn).
Qed.
Print Assumptions C06_dispenses_with_allocated_ids.
