(* C18 — Graceful shutdown leaves no sockets, temp directories or goroutines behind.
   Statements only; proofs in Proofs/ResourcesP.v.  The close graph's facts are re-extracted from the Go source. *)
From Coq Require Import List NArith ZArith Bool.
From GP Require Import Base.Val Model.Resources Model.Params Proofs.ResourcesP.
Import ListNotations.

Lemma g1 : rp_serve_defers_close gen_res_params = true. Proof. reflexivity. Qed.
Lemma g2 : rp_muxer_closes_wrapped gen_res_params = true. Proof. reflexivity. Qed.
Lemma g3 : rp_accept_serve_closes gen_res_params = true. Proof. reflexivity. Qed.
Lemma g4 : rp_kill_removes_dir gen_res_params = true. Proof. reflexivity. Qed.
Lemma g5 : rp_broker_run_nonblocking gen_res_params = true. Proof. reflexivity. Qed.

(* for every session (protocol, multiplexing, launch method, any numbers of brokered listeners on either side and
   of unconsumed announcements): the only resource that can survive a graceful shutdown is a socket of a listener the
   PLUGIN accepted on without multiplexing, and only when the plugin's exit wins the race against its own
   AcceptAndServe goroutines -- the FINDING recorded in known_findings.json *)
Theorem C18_no_leftovers_partial : forall c w r, In r (leftovers gen_res_params c w) ->
  r = PluginBrokeredSocket /\ rp_stop_waits_for_brokered gen_res_params = false /\ w = true /\
  r_grpc c = true /\ r_mux c = false /\ (0 < r_plugin_brokered c)%nat /\ r_custom_runner c = false.
Proof. exact (nothing_left_but_race gen_res_params g1 g2 g3 g4 g5). Qed.
Print Assumptions C18_no_leftovers_partial.

Theorem C18_no_leftovers : forall c w,
  (r_grpc c = false \/ r_mux c = true \/ r_plugin_brokered c = 0%nat \/ r_custom_runner c = true \/ rp_stop_waits_for_brokered gen_res_params = true \/ w = false) ->
  leftovers gen_res_params c w = [].
Proof. exact (nothing_left gen_res_params g1 g2 g3 g4 g5). Qed.

(* FINDING: plugin-side brokered sockets may be left (the race) *)
Theorem C18_refuted_plugin_brokered :
  leftovers gen_res_params {| r_grpc := true; r_mux := false; r_custom_runner := false; r_plugin_brokered := 3; r_host_brokered := 0; r_unmatched_infos := 0 |} true
  = [PluginBrokeredSocket].
Proof. reflexivity. Qed.

(* the defect of the pinned tree: a multiplexer Close that leaves the wrapped listener open *)
Example C18_refuted_on_old_code :
  leftovers {| rp_serve_defers_close := true; rp_muxer_closes_wrapped := false; rp_accept_serve_closes := true; rp_kill_removes_dir := true;
               rp_broker_run_nonblocking := true; rp_stop_waits_for_brokered := false |}
            {| r_grpc := true; r_mux := true; r_custom_runner := false; r_plugin_brokered := 0; r_host_brokered := 0; r_unmatched_infos := 0 |} false
  = [PluginMainSocket].
Proof. reflexivity. Qed.
