(* C11 — Synced stdout/stderr arrive byte-exact, in order, on the right stream.
   Statements only; proofs in Proofs/StdioP.v. *)
From Coq Require Import List NArith ZArith Bool.
From GP Require Import Generated Base.Val Base.Bytes Model.Stdio Proofs.StdioP.
Import ListNotations.

(* facts of the current source: the chunk array has a positive size and both hand-off channels are rendezvous *)
Lemma facts_chunk : (0 < N.to_nat stdio_chunk)%nat. Proof. vm_compute. repeat constructor. Qed.
Lemma facts_rendezvous : stdio_chan_caps = [0; 0]%Z. Proof. reflexivity. Qed.

(* For all byte strings written to the two pipes, all schedules of read sizes on either pipe (any
   write sizes), and all interleavings chosen by the select between the two channels:
   the host's demultiplexer reconstructs exactly (stdout bytes, stderr bytes) -- nothing duplicated,
   dropped, reordered within a stream or crossed between streams. *)
Theorem C11_stdio_exact : forall bsize r1 r2 sched o e, (0 < bsize)%nat ->
  end_to_end (N.to_nat stdio_chunk) bsize r1 r2 sched o e = (o, e).
Proof. intros. apply stdio_exact; [exact facts_chunk|assumption]. Qed.
Print Assumptions C11_stdio_exact.

(* the chunks handed to the stream are non-empty, at most one chunk array long, and concatenate to the input *)
Theorem C11_chunks : forall bsize reads data c, (0 < bsize)%nat ->
  concat (copy_chan (S (length data)) (N.to_nat stdio_chunk) bsize reads data) = data /\
  (In c (copy_chan (S (length data)) (N.to_nat stdio_chunk) bsize reads data) ->
   (length c <= N.to_nat stdio_chunk)%nat /\ c <> []).
Proof.
  intros. split.
  - apply copy_chan_concat; [exact facts_chunk|assumption|apply Nat.lt_succ_diag_r].
  - apply copy_chan_chunks. exact facts_chunk.
Qed.

(* data written before the host attaches is not special: copy_chan has no drop path, it is part of [o]/[e] above.
   messages with an unknown channel tag never reach either writer *)
Theorem C11_unknown_tag_dropped : forall msgs c, client_run ((TUnknown, c) :: msgs) = client_run msgs.
Proof. exact client_run_unknown. Qed.

Example C11_nonvacuous :
  end_to_end 4 8 [3; 1; 8] [2] [true; false; false; true] [1;2;3;4;5;6;7;8;9;10;11]%N [21;22;23;24;25]%N
  = ([1;2;3;4;5;6;7;8;9;10;11]%N, [21;22;23;24;25]%N) /\
  length (copy_chan 20 4 8 [3; 1; 8] [1;2;3;4;5;6;7;8;9;10;11]%N) = 4%nat.
Proof. vm_compute. split; reflexivity. Qed.
