(* C04 — Kill always ends the plugin process in bounded time, gracefully if possible.
   Statements only; proofs in Proofs/KillP.v.  Instantiated at the grace period of Client.Kill and the
   deadline of the gRPC Shutdown request as found in the Go source on this run. *)
From Coq Require Import List NArith ZArith Bool.
From GP Require Import Base.Val Model.Kill Model.Params Proofs.KillP.
Import ListNotations.

Lemma facts_deadline : exists d, kp_rpc_deadline gen_kill_params = Some d /\ (0 <= d)%Z.
Proof. eexists. split; [reflexivity|]. vm_compute. discriminate. Qed.
Lemma facts_grace : (0 <= kp_grace gen_kill_params)%Z. Proof. vm_compute. discriminate. Qed.
Lemma facts_keepalive : (0 <= kp_keepalive gen_kill_params)%Z. Proof. vm_compute. discriminate. Qed.
(* the force kill is handed context.Background(): a runner that honours its context (container runtime, remote agent) carries it out *)
Lemma facts_kill_ctx : kp_kill_ctx_fresh gen_kill_params = true. Proof. reflexivity. Qed.

(* For every protocol and every way the plugin may behave (exits at once / after cleanup inside the
   grace period / ignores the request / frozen / already dead / failed handshake / never started):
   Kill returns; the timers that may have to expire first sum to at most max(keep-alive bound,
   shutdown deadline + grace period); afterwards the process has exited (if one was launched); a plugin
   that exits on its own inside the grace period is not force-killed and ran its cleanup; one that
   ignores the request, is frozen, or never got an address is force-killed. *)
Theorem C04_kill_terminates : forall pr b,
  let r := kill gen_kill_params pr b in
  k_returns r = true /\
  (0 <= k_budget r <= Z.max (kp_keepalive gen_kill_params)
        (match kp_rpc_deadline gen_kill_params with Some d => d | None => 0 end + kp_grace gen_kill_params))%Z /\
  (b <> NeverStarted -> b <> LaunchFailed -> k_exited r = true) /\
  (k_clean_exit r = true -> k_forced r = false) /\
  ((b = ExitsAtOnce \/ b = ExitsAfterDelay) -> k_forced r = false /\ k_clean_exit r = true) /\
  ((b = Ignores \/ b = Frozen \/ b = FailedHandshake) -> k_forced r = true).
Proof. exact (kill_terminates gen_kill_params facts_deadline facts_grace facts_keepalive facts_kill_ctx). Qed.
Print Assumptions C04_kill_terminates.

(* repeated Kill: everything after the first call finds no runner and does nothing *)
Theorem C04_kill_idempotent : forall pr b n r, In r (tl (kill_n gen_kill_params pr b n)) -> r = noop.
Proof. exact (kill_idempotent gen_kill_params). Qed.

(* the defect of the pinned tree: a Shutdown request without a deadline *)
Theorem C04_refuted_on_old_code : forall g ka,
  k_returns (kill {| kp_grace := g; kp_rpc_deadline := None; kp_keepalive := ka; kp_kill_ctx_fresh := true |} KGRPC Frozen) = false.
Proof. exact kill_unbounded_hangs. Qed.

(* a force kill issued with the context of the grace period: the plugin that acknowledged the request and stays survives,
   and Kill waits for ever *)
Theorem C04_refuted_stale_kill_context : forall g d ka pr,
  let r := kill {| kp_grace := g; kp_rpc_deadline := Some d; kp_keepalive := ka; kp_kill_ctx_fresh := false |} pr Ignores in
  k_exited r = false /\ k_returns r = false.
Proof. exact kill_stale_ctx_leaves_process. Qed.

Example C04_nonvacuous :
  k_budget (kill gen_kill_params KGRPC Frozen) = 4%Z /\ k_forced (kill gen_kill_params KGRPC Frozen) = true /\
  k_forced (kill gen_kill_params KNetRPC ExitsAfterDelay) = false.
Proof. vm_compute. repeat split; reflexivity. Qed.
