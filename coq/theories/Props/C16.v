(* C16 — Plugin serves only with the right cookie; announces one well-formed line.
   Statements only; proofs in Proofs/ServeP.v. *)
From Coq Require Import List NArith ZArith Bool String.
From GP Require Import Generated Base.Val Base.Bytes Base.GoStrings Model.Negotiate Model.Serve Model.Params Proofs.ServeP.
Import ListNotations.

Lemma facts_format_fields : svp_fields gen_sv_params = 6%nat. Proof. reflexivity. Qed.

(* For every serve configuration and every process environment: unless the configured cookie key and
   value are both non-empty and the environment's value for the key is byte-for-byte the configured value
   (so: unset, empty, prefix, suffix, case change, anything else fails), the process exits with status 1
   and neither opens a listener nor prints anything. *)
Theorem C16_gate_closed : forall c env addr cert,
  gate_ok c env = false -> serve gen_sv_params c env addr cert = [SvExit 1%Z].
Proof. exact (gate_closed gen_sv_params). Qed.
Print Assumptions C16_gate_closed.

(* Otherwise exactly one line is printed, after the listener exists and before stdout is swapped; when
   the listener address and the certificate contain no '|', it has exactly six fields, seven iff the
   multiplexing variable is non-empty (then the seventh is "true"); field 1 is the core protocol version. *)
Theorem C16_gate_open_line : forall c env addr cert, gate_ok c env = true ->
  exists line, serve gen_sv_params c env addr cert = [SvListen; SvPrint line; SvSwapStdio] /\
    (no_bar addr = true -> no_bar cert = true ->
     exists fs, split 124 line = fs /\
       List.length fs = (if match getenv env (svp_mux_key gen_sv_params) with [] => false | _ => true end then 7 else 6)%nat /\
       nth 0 fs [] = itoa (svp_core gen_sv_params) /\ nth 3 fs [] = addr /\ nth 5 fs [] = cert /\
       (match getenv env (svp_mux_key gen_sv_params) with [] => True | _ => nth 6 fs [] = bs "true" end)).
Proof. exact (gate_open gen_sv_params). Qed.
Print Assumptions C16_gate_open_line.

Definition ex_cfg := {| sv_key := bs "K"; sv_value := bs "V";
  sv_serve := {| s_version := 1; s_plugins := Some {| ps_id := 1; ps_kind := KNet |}; s_versioned := []; s_factory := false |} |}.
Example C16_nonvacuous :
  serve gen_sv_params ex_cfg [(bs "K", bs "V")] (bs "/tmp/p1") [] = [SvListen; SvPrint (bs "1|1|unix|/tmp/p1|netrpc|"); SvSwapStdio] /\
  serve gen_sv_params ex_cfg [(bs "K", bs "V"); (svp_mux_key gen_sv_params, bs "false")] (bs "/tmp/p1") []
    = [SvListen; SvPrint (bs "1|1|unix|/tmp/p1|netrpc||true"); SvSwapStdio] /\
  serve gen_sv_params ex_cfg [(bs "K", bs "V"); (svp_mux_key gen_sv_params, [])] (bs "/tmp/p1") []
    = [SvListen; SvPrint (bs "1|1|unix|/tmp/p1|netrpc|"); SvSwapStdio] /\
  serve gen_sv_params ex_cfg [(bs "K", bs "v")] (bs "/tmp/p1") [] = [SvExit 1%Z] /\
  serve gen_sv_params ex_cfg [(bs "K", bs "V ")] (bs "/tmp/p1") [] = [SvExit 1%Z] /\
  serve gen_sv_params ex_cfg [] (bs "/tmp/p1") [] = [SvExit 1%Z].
Proof. vm_compute. repeat split; reflexivity. Qed.
