(* C07 — GRPCBroker (no multiplexing) connects Dial(id) only to the server accepted on that id.
   Statements only; proofs in Proofs/MuxBrokerP.v.  The gRPC broker's pending-info machinery is the
   pending-slot transition system of Model/MuxBroker.v at the parameters [gen_grpc_params], with the
   roles renamed: the model's "dial" (OpDial n, result Sent n i) is GRPCBroker.Accept(n) -- it opens a
   fresh listener, whose address is message i, and sends ConnInfo{n, address i} --, the model's "accept"
   (OpAccept n, result AccOk n i) is GRPCBroker.Dial(n) taking the info filed under n. *)
From Coq Require Import List NArith Bool PeanoNat.
From GP Require Import Model.MuxBroker Model.Params Proofs.MuxBrokerP.
Import ListNotations.

(* facts of the current source *)
Lemma facts_expiry_only_deletes : expiry_drains gen_grpc_params = false. Proof. reflexivity. Qed.
Lemma facts_dial_timeout_keeps_map : taker_timeout_deletes gen_grpc_params = false. Proof. reflexivity. Qed.

(* routing, for every schedule, any number of ids and calls: the connection info a Dial(n) obtained is a
   message that an Accept(n) sent; message i carries the address of the listener that this very Accept
   opened, so calls on the dialled connection are answered by the server served on id n *)
Theorem C07_routing : forall s t n i,
  reachable gen_grpc_params s -> tlookup (thr s) t = Some (Done (AccOk n i)) -> nth_error (hdrs s) i = Some n.
Proof. intros s t n i R H. apply inv_reachable in R. exact (proj1 (I_thr _ R _ _ H)). Qed.
Print Assumptions C07_routing.

Theorem C07_sender_owns_message : forall s t n i,
  reachable gen_grpc_params s -> tlookup (thr s) t = Some (Done (Sent n i)) -> nth_error (hdrs s) i = Some n.
Proof. intros s t n i R H. apply inv_reachable in R. exact (I_thr _ R _ _ H). Qed.

(* one connection info is handed to at most one Dial *)
Theorem C07_info_unique : forall s ta tb n m i,
  reachable gen_grpc_params s ->
  tlookup (thr s) ta = Some (Done (AccOk n i)) -> tlookup (thr s) tb = Some (Done (AccOk m i)) -> ta = tb.
Proof. exact (accept_unique gen_grpc_params). Qed.

(* C09 for this broker: its expiry handler only deletes, so the broker mutex is never held across a step *)
Theorem C07_never_locked : forall s, reachable gen_grpc_params s -> lock s = None.
Proof. intros s. exact (never_locked gen_grpc_params s facts_expiry_only_deletes). Qed.
Print Assumptions C07_never_locked.

Theorem C07_parked_can_fire : forall s t, reachable gen_grpc_params s ->
  (exists n p, tlookup (thr s) t = Some (AccWait n p)) \/ (exists k p, tlookup (thr s) t = Some (TwWait k p)) ->
  step gen_grpc_params s (Fire t) <> None.
Proof.
  intros s t R H. apply parked_can_fire; [|exact H].
  unfold lock_free. rewrite (C07_never_locked s R). reflexivity.
Qed.

(* non-vacuity: accept-first and dial-first on three ids; every Dial gets the info of its own id *)
Example C07_nonvacuous :
  match run gen_grpc_params init
          [Call OpRun; Call (OpDial 5%N); Call (OpAccept 6%N); Call (OpDial 6%N); Call (OpDial 4%N);
           Step 0; Step 0; Step 0; Call (OpAccept 4%N); Call (OpAccept 5%N); Step 2; Step 8; Step 9] with
  | Some s => tlookup (thr s) 2 = Some (AccAck 6%N 1) /\ tlookup (thr s) 8 = Some (AccAck 4%N 2) /\
              tlookup (thr s) 9 = Some (AccAck 5%N 0) /\ tlookup (thr s) 1 = Some (Done (Sent 5%N 0))
  | None => False
  end.
Proof. vm_compute. repeat split; reflexivity. Qed.
