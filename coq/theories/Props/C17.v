(* C17 — Plugin launch environment and stdin are determined by the client config.
   Statements only; proofs in Proofs/EnvP.v.  The model is instantiated at the environment-variable
   names and the "clears inherited variables" fact regenerated from the Go source. *)
From Coq Require Import List NArith ZArith Bool String.
From GP Require Import Base.Val Base.Bytes Base.GoStrings Model.Negotiate Model.Env Model.Params Proofs.EnvP.
Import ListNotations.

Lemma facts_clears : ep_clears_inherited gen_env_params = true. Proof. reflexivity. Qed.

(* For every client configuration whose cookie key is not itself one of go-plugin's control
   variables, every Cmd.Env and every host environment (including one that already carries
   PLUGIN_* variables, duplicates, values containing '='): the value the child sees (last binding
   wins) for each negotiation variable is the one this client's configuration dictates. *)
Theorem C17_env_determined : forall c cert dir cmd_env host_env,
  ctl c -> cert <> [] ->
  let env := build_env gen_env_params c cert dir cmd_env host_env in
  effective (e_cookie_key c) env = Some (e_cookie_value c) /\
  effective k_versions env = Some (join [44%N] (map itoa (e_versions c))) /\
  effective k_min env = Some (itoa (e_min_port c)) /\
  effective k_max env = Some (itoa (e_max_port c)) /\
  nonempty (effective k_cert env) = e_automtls c /\
  nonempty (effective (ep_mux_key gen_env_params) env) = e_mux c /\
  (e_group c <> [] -> effective (ep_group_key gen_env_params) env = Some (e_group c)) /\
  (e_launch c = LRunnerFunc -> effective (ep_dir_key gen_env_params) env = Some dir).
Proof.
  intros c cert dir cmd_env host_env H Hc env. unfold env.
  repeat split.
  - apply env_effective, own_cookie; [exact facts_clears|exact H].
  - apply env_effective, own_versions; [exact facts_clears|exact H].
  - apply env_effective, own_min; [exact facts_clears|exact H].
  - apply env_effective, own_max; [exact facts_clears|exact H].
  - rewrite (env_effective c cert dir cmd_env host_env k_cert _ (own_cert facts_clears c cert dir H)).
    destruct (e_automtls c); [destruct cert; [congruence|reflexivity]|reflexivity].
  - rewrite (env_effective c cert dir cmd_env host_env _ _ (own_mux facts_clears c cert dir H)).
    destruct (e_mux c); reflexivity.
  - intros Hg. apply env_effective, own_group; [exact facts_clears|exact H|exact Hg|reflexivity].
  - intros Hl. apply env_effective, own_dir; [exact facts_clears|exact H|exact Hl].
Qed.
Print Assumptions C17_env_determined.

(* with SkipHostEnv every entry handed to the child is the command's own or one go-plugin appended *)
Theorem C17_skip_host_env : forall c cert dir cmd_env host_env e,
  e_skip_host_env c = true -> In e (build_env gen_env_params c cert dir cmd_env host_env) ->
  In e cmd_env \/ In e (own gen_env_params c cert dir).
Proof. exact skip_no_host. Qed.

(* the region where the pinned tree misbehaved: without the clearing entries an ambient
   PLUGIN_CLIENT_CERT / PLUGIN_MULTIPLEX_GRPC reaches the child although both features are off *)
Definition old_env_params := {| ep_clears_inherited := false; ep_mux_key := ep_mux_key gen_env_params;
  ep_group_key := ep_group_key gen_env_params; ep_dir_key := ep_dir_key gen_env_params |}.
Definition ex_cfg := {| e_cookie_key := bs "K"; e_cookie_value := bs "V"; e_min_port := 10000; e_max_port := 25000;
  e_versions := [1%Z]; e_mux := false; e_automtls := false; e_group := []; e_launch := LCmd; e_skip_host_env := false |}.
Example C17_refuted_on_old_code :
  let env := build_env old_env_params ex_cfg [] [] [] [bs "PLUGIN_CLIENT_CERT=ambient"; bs "PLUGIN_MULTIPLEX_GRPC=true"] in
  nonempty (effective k_cert env) = true /\ nonempty (effective (ep_mux_key old_env_params) env) = true.
Proof. vm_compute. split; reflexivity. Qed.
Example C17_nonvacuous :
  let env := build_env gen_env_params ex_cfg [] [] [] [bs "PLUGIN_CLIENT_CERT=ambient"; bs "PLUGIN_MULTIPLEX_GRPC=true"; bs "K=other"] in
  nonempty (effective k_cert env) = false /\ nonempty (effective (ep_mux_key gen_env_params) env) = false /\
  effective (bs "K") env = Some (bs "V") /\ effective k_versions env = Some (bs "1").
Proof. vm_compute. repeat split; reflexivity. Qed.
