(* C01 — Handshake line accepted only when well-formed; never crashes the host.
   Statements only.  The theorems are about the model instantiated at the facts gosrc2v
   regenerates from client.go on every run (Model/Params.v): if the error check after the network
   switch or the nil-TLS guard disappears from the code, [facts_addr]/[facts_guard] stop checking. *)
From Coq Require Import List NArith ZArith Bool String.
From GP Require Import Base.Val Base.Bytes Base.GoStrings Model.Negotiate Model.Handshake Model.Params Proofs.HandshakeP.
Import ListNotations.

Lemma facts_addr : hp_checks_addr_err gen_hs_params = true. Proof. reflexivity. Qed.
Lemma facts_guard : hp_guards_nil_tls gen_hs_params = true. Proof. reflexivity. Qed.
Lemma facts_min : (2 <= hp_min_fields gen_hs_params)%nat. Proof. vm_compute. repeat constructor. Qed.

(* For every client configuration, every answer of the address translator / resolver / x509
   parser, every byte string on the plugin's stdout and either way the output may end:
   every outcome Start can produce
     - is not a panic;
     - kills the runner exactly when it is an error;
     - is a success only for a received line that is well formed (wf_line: >= 4 fields, core
       version 1, an offered application version, tcp/unix with a resolvable address, an allowed
       protocol, a parseable certificate only together with a TLS config, a true mux flag when
       multiplexing is requested over gRPC), and then protocol, version, plugin set and address
       reported are exactly the line's;
     - and when no complete line arrives and the plugin stays alive, is the start-timeout error. *)
Theorem C01_handshake_sound : forall c o out t r,
  In r (start_after_launch gen_hs_params c o out t) ->
  fst r <> OPanic /\
  (match fst r with OOk _ => has_kill (snd r) = false | _ => has_kill (snd r) = true end) /\
  (forall a, fst r = OOk a -> exists l, scan_first out t = SLine l /\ wf_line gen_hs_params c o l a = true) /\
  (scan_first out t = SNone -> r = fail ETimeout []).
Proof. exact (start_outcomes gen_hs_params facts_addr facts_guard facts_min). Qed.
Print Assumptions C01_handshake_sound.

(* completeness: every well-formed line is accepted, with exactly the line's values *)
Theorem C01_complete : forall c o out t l a,
  scan_first out t = SLine l -> wf_line gen_hs_params c o l a = true ->
  exists eff, start_after_launch gen_hs_params c o out t = [(OOk a, eff)].
Proof. exact (wf_line_accepted gen_hs_params facts_addr facts_guard). Qed.
Print Assumptions C01_complete.

Theorem C01_line_ok_iff_wf : forall c o line a,
  fst (process_line gen_hs_params c o line) = OOk a <-> wf_line gen_hs_params c o line a = true.
Proof. exact (process_line_ok_iff_wf gen_hs_params facts_addr facts_guard). Qed.

Theorem C01_oracle_accepts_model : forall c o out t,
  forallb (oracle_obs gen_hs_params c o out t) (map enc_outcome (start_after_launch gen_hs_params c o out t)) = true.
Proof. exact (oracle_accepts_model gen_hs_params facts_addr facts_guard facts_min). Qed.

(* the two regions where the pinned tree misbehaved, on the model with the corresponding fact off:
   an unknown network is accepted with an unresolved address; a certificate with no TLS config panics *)
Definition ex_cfg : hs_cfg :=
  {| h_client := {| c_version := 1; c_plugins := Some {| ps_id := 1; ps_kind := KNet |}; c_versioned := [] |};
     h_allowed := [netrpc]; h_has_tls := false; h_mux := false |}.
Definition ex_orc (n a : string) (res : bool) : hs_oracle :=
  {| o_translate_ok := true; o_net := bs n; o_addr := bs a; o_resolves := res; o_canon := bs a; o_cert_parses := true |}.
Definition old_params := {| hp_core := 1; hp_min_fields := 4; hp_cert_len := 50; hp_checks_addr_err := false; hp_guards_nil_tls := false |}.

Example C01_refuted_on_old_code_addr :
  exists a, fst (process_line old_params ex_cfg (ex_orc "bogus" "x" false) (bs "1|1|bogus|x|netrpc|")) = OOk a /\ a_resolved a = false.
Proof. eexists. split; vm_compute; reflexivity. Qed.
Example C01_refuted_on_old_code_panic :
  fst (process_line old_params ex_cfg (ex_orc "tcp" "127.0.0.1:1234" true)
         (bs "1|1|tcp|127.0.0.1:1234|netrpc|AAAAAAAAAAAAAAAAAAAAAAAAAAAAAAAAAAAAAAAAAAAAAAAAAAAAAAAAAAAA")) = OPanic.
Proof. vm_compute. reflexivity. Qed.

(* non-vacuity: a concrete well-formed line is accepted with its own values *)
Example C01_nonvacuous :
  fst (process_line gen_hs_params ex_cfg (ex_orc "tcp" "127.0.0.1:1234" true) (bs " 1|1|tcp|127.0.0.1:1234|netrpc| ")) =
  OOk {| a_net := bs "tcp"; a_addr := bs "127.0.0.1:1234"; a_resolved := true; a_proto := netrpc; a_version := 1; a_set := 1 |}.
Proof. vm_compute. reflexivity. Qed.
