(* C02 — Version negotiation settles both sides on the highest common version.
   Statements only; proofs are in Proofs/NegotiateP.v. *)
From Coq Require Import List NArith ZArith Bool Permutation String.
From GP Require Import Base.Val Base.Bytes Base.GoStrings Model.Negotiate Proofs.NegotiateP Proofs.RoundTripP.
Import ListNotations.
Open Scope Z_scope.

(* Server side, for every serve configuration, every order in which Go's map iteration yields
   the version keys, and every PLUGIN_PROTOCOL_VERSIONS byte string (any order, duplicates,
   invalid items):  common version exists -> the greatest common one is announced with the set
   registered under it; none (and something is served) -> the least served version, which the
   client did not offer; nothing served -> the legacy fields as they are. *)
Theorem C02_highest_common : forall c keys env,
  Permutation keys (mkeys (server_map c)) ->
  let C := parse_versions env in
  let S := mkeys (server_map c) in
  let r := server_pick_keys c keys env in
  ((exists v, In v S /\ In v C) ->
     is_max_common (fst (fst r)) S C /\ snd r = mget (server_map c) (fst (fst r))) /\
  (S <> [] -> disjoint S C ->
     is_min (fst (fst r)) S /\ ~ In (fst (fst r)) C /\ snd r = mget (server_map c) (fst (fst r))) /\
  (S = [] -> r = (s_version c, PNet, s_plugins c)).
Proof. exact server_pick_highest_common. Qed.
Print Assumptions C02_highest_common.

(* the wire protocol announced is that of the chosen set (non-empty, homogeneous) when a gRPC
   server factory is configured, and net/rpc without one *)
Theorem C02_protocol_of_chosen_set : forall c keys env,
  Permutation keys (mkeys (server_map c)) -> mkeys (server_map c) <> [] ->
  let r := server_pick_keys c keys env in
  (s_factory c = false -> snd (fst r) = PNet) /\
  (s_factory c = true -> forall p, snd r = Some p ->
     (ps_kind p = KGrpc -> snd (fst r) = PGrpc) /\ (ps_kind p = KNet -> snd (fst r) = PNet)).
Proof. exact server_pick_proto. Qed.

(* Client side: the announced version is accepted iff it parses and is one the client offers;
   the set swapped in is the one registered under it. *)
Theorem C02_client_accepts : forall c field v p,
  client_accept c field = Some (v, p) <-> atoi field = Some v /\ mget (client_map c) v = Some p.
Proof. exact client_accept_spec. Qed.

Theorem C02_client_rejects : forall c field,
  client_accept c field = None <->
  (atoi field = None \/ exists v, atoi field = Some v /\ ~ In v (mkeys (client_map c))).
Proof. exact client_reject_spec. Qed.

Theorem C02_client_version_set : forall c v,
  In v (mkeys (client_map c)) <->
  In v (mkeys (c_versioned c)) \/ (v = c_version c /\ c_plugins c <> None).
Proof. exact client_map_keys. Qed.

(* Both sides together: if the list the plugin parses has the members of the client's version set
   and the announced field parses back to the announced version, then either the client accepts,
   and then the version is the highest common one and both sides hold the sets registered under
   that same number; or it rejects, and then the sets were disjoint and the lowest served version
   was offered. *)
Theorem C02_same_version : forall sc cc keys env field,
  Permutation keys (mkeys (server_map sc)) ->
  (forall v, In v (parse_versions env) <-> In v (mkeys (client_map cc))) ->
  let r := server_pick_keys sc keys env in
  atoi field = Some (fst (fst r)) ->
  mkeys (server_map sc) <> [] ->
  match client_accept cc field with
  | Some (v, pc) =>
      v = fst (fst r) /\ mget (client_map cc) v = Some pc /\ snd r = mget (server_map sc) v /\
      is_max_common v (mkeys (server_map sc)) (mkeys (client_map cc))
  | None => disjoint (mkeys (server_map sc)) (mkeys (client_map cc)) /\ is_min (fst (fst r)) (mkeys (server_map sc))
  end.
Proof. exact negotiation_agrees. Qed.
Print Assumptions C02_same_version.

(* the specification the correspondence oracle uses is what the model computes *)
Theorem C02_oracle_version : forall c env,
  fst (fst (server_pick c env)) = expected_version c env.
Proof. exact expected_version_is_pick. Qed.

(* non-vacuity: two common versions (2 and 3) -> 3; no common -> lowest (2); no list -> lowest *)
Definition ex_cfg := {| s_version := 0; s_plugins := None;
  s_versioned := [(2, {| ps_id := 12; ps_kind := KGrpc |}); (3, {| ps_id := 13; ps_kind := KGrpc |}); (4, {| ps_id := 14; ps_kind := KNet |})];
  s_factory := true |}.
(* the encodings on the wire: Atoi(Itoa(z)) = z for every int64; the version list the client writes into
   PLUGIN_PROTOCOL_VERSIONS is the list the plugin reads *)
Theorem C02_decimal_roundtrip : forall z, int_min <= z <= int_max -> atoi (itoa z) = Some z.
Proof. exact atoi_itoa. Qed.

Theorem C02_version_list_roundtrip : forall ks, Forall in64 ks -> parse_versions (env_of_keys ks) = ks.
Proof. exact versions_roundtrip. Qed.

(* both ends over those encodings, with no assumption left about what was parsed: the client writes its versions,
   the plugin picks and prints a decimal field, the client parses it *)
Theorem C02_negotiation_over_the_wire : forall sc cc,
  Forall in64 (mkeys (client_map cc)) -> Forall in64 (mkeys (server_map sc)) -> mkeys (server_map sc) <> [] ->
  let r := server_pick sc (env_of_keys (mkeys (client_map cc))) in
  match client_accept cc (itoa (fst (fst r))) with
  | Some (v, pc) =>
      v = fst (fst r) /\ mget (client_map cc) v = Some pc /\ snd r = mget (server_map sc) v /\
      is_max_common v (mkeys (server_map sc)) (mkeys (client_map cc))
  | None => disjoint (mkeys (server_map sc)) (mkeys (client_map cc)) /\ is_min (fst (fst r)) (mkeys (server_map sc))
  end.
Proof. exact negotiation_over_the_wire. Qed.

Example C02_nonvacuous :
  server_pick ex_cfg (bs "1,2,3,5"%string) = (3, PGrpc, Some {| ps_id := 13; ps_kind := KGrpc |}) /\
  server_pick ex_cfg (bs "5,3,x,2,1"%string) = (3, PGrpc, Some {| ps_id := 13; ps_kind := KGrpc |}) /\
  fst (fst (server_pick ex_cfg (bs "7,8"%string))) = 2 /\
  fst (fst (server_pick ex_cfg [])) = 2.
Proof. vm_compute. repeat split; reflexivity. Qed.
