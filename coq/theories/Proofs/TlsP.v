From Coq Require Import List NArith ZArith Bool.
From GP Require Import Base.Val Model.Tls.
Import ListNotations.

Section P.
Variable P : tparams.
Hypothesis H1 : tp_host_cfg_at_start P = true.
Hypothesis H2 : tp_host_requires_client P = true.
Hypothesis H3 : tp_host_pins_client_cas P = true.
Hypothesis H4 : tp_host_pins_root_cas P = true.
Hypothesis H5 : tp_plugin_requires_client P = true.
Hypothesis H6 : tp_plugin_pins_client_cas P = true.
Hypothesis H7 : tp_broker_serves_with_tls P = true.
Hypothesis H8 : tp_pools_only_pinned P = true.
Hypothesis H9 : tp_standard_verification P = true.

(* on every path the serving side has a TLS config that requires a client certificate and pins exactly the
   legitimate peer's one-time certificate *)
Theorem every_path_mutual (announced : option key) (p : path) :
  exists c, server_cfg P announced p = Some c /\ t_require_client c = true /\
            t_client_cas c = match p with
                             | HostBrokered => match announced with Some k => [k] | None => [] end
                             | _ => [host_key] end.
Proof.
  unfold server_cfg, host_cfg, plugin_cfg, pool. rewrite H1, H2, H3, H5, H6, H7, H8.
  destruct p; eexists; repeat split; try reflexivity; destruct announced; reflexivity.
Qed.

(* only the holder of the legitimate peer's key is ever served: plaintext, no certificate, and any other
   certificate (fresh, or with the right names but another key) are refused before any request *)
Theorem only_legit_served announced p x :
  server_accepts (server_cfg P announced p) x = true ->
  match p with
  | HostBrokered => exists k, announced = Some k /\ x = TLSCert k
  | _ => x = TLSCert host_key
  end.
Proof.
  unfold server_cfg, host_cfg, plugin_cfg, pool. rewrite H1, H2, H3, H5, H6, H7, H8.
  destruct p; destruct x as [| |k]; simpl; try discriminate;
    try (destruct (Nat.eqb_spec k host_key); [intros _; subst; reflexivity|discriminate]).
  destruct announced as [a|]; simpl; [|discriminate].
  destruct (Nat.eqb_spec k a); [intros _; subst; eauto|discriminate].
Qed.

(* the host talks only to the plugin whose certificate came back in the handshake line *)
Theorem host_pins_announced announced p s :
  p <> HostBrokered -> client_accepts (client_cfg P announced p) (Some s) = true ->
  exists k, announced = Some k /\ t_own s = Some k.
Proof.
  intros Hp. unfold client_cfg, host_cfg, pool. rewrite H1, H2, H3, H4, H8, H9.
  destruct p; try congruence; simpl; destruct (t_own s) as [k|]; try discriminate;
    destruct announced as [a|]; simpl; try discriminate;
    (destruct (Nat.eqb_spec k a); [intros _; subst; eauto|discriminate]).
Qed.

(* the legitimate pair is accepted on every path (non-vacuity) *)
Theorem legit_pair_accepted p :
  let announced := Some plugin_key in
  let legit := match p with HostBrokered => TLSCert plugin_key | _ => TLSCert host_key end in
  server_accepts (server_cfg P announced p) legit = true /\
  client_accepts (client_cfg P announced p) (server_cfg P announced p) = true.
Proof.
  unfold server_cfg, client_cfg, host_cfg, plugin_cfg, pool. rewrite H1, H2, H3, H4, H5, H6, H7, H8, H9.
  destruct p; split; reflexivity.
Qed.

(* in particular the impostor that sends the announced certificate behind a leaf of its own is refused *)
Theorem impostor_refused announced p :
  p <> HostBrokered -> announced <> Some 8 -> client_accepts (client_cfg P announced p) (Some impostor_server) = false.
Proof.
  intros Hp Ha. destruct (client_accepts (client_cfg P announced p) (Some impostor_server)) eqn:E; [|reflexivity].
  destruct (host_pins_announced announced p impostor_server Hp E) as (k & Hk & Ho).
  cbn in Ho. injection Ho as <-. contradiction.
Qed.

End P.

(* with the standard verification switched off the same host configuration lets the impostor in *)
Lemma skip_verify_lets_impostor_in P p :
  tp_host_cfg_at_start P = true -> tp_standard_verification P = false -> p <> HostBrokered ->
  client_accepts (client_cfg P (Some plugin_key) p) (Some impostor_server) = true.
Proof.
  intros H1 H9 Hp. unfold client_cfg, host_cfg. rewrite H1, H9. destruct p; try congruence; reflexivity.
Qed.
