From Coq Require Import List NArith ZArith Bool Lia.
From GP Require Import Base.Val Model.StartFail.
Import ListNotations.

(* the shape of Start and Kill the theorems rest on (each conjunct a fact read from client.go) *)
Definition shape (P : sf_params) : Prop :=
  sf_records_first P = true /\ sf_kill_forces P = true /\ sf_kill_removes_dir P = true /\ sf_kill_forgets P = true /\
  sf_start_kill_ctx_fresh P = true.

Lemma sf_kill_done P s : sc_runner s = false -> sf_kill P s = s.
Proof. intros H. unfold sf_kill. rewrite H. reflexivity. Qed.

Lemma sf_kills_done P n s : sc_runner s = false -> sf_kills P n s = s.
Proof.
  revert s. induction n as [|n IH]; intros s H; cbn [sf_kills]; [reflexivity|].
  rewrite (sf_kill_done P s H). apply IH. exact H.
Qed.

Lemma sf_kills_idle P n s : sc_runner s && sc_named s = false -> sf_kills P n s = s.
Proof.
  revert s. induction n as [|n IH]; intros s H; cbn [sf_kills]; [reflexivity|].
  unfold sf_kill at 1. rewrite H. apply IH. exact H.
Qed.

(* after a failed runner.Start, one Kill or many: the workload is ended by exactly one runner.Kill and the
   directory is removed -- provided the runner was recorded first and names its workload *)
Theorem kill_after_failed_runner_start P l launched n :
  shape P -> (1 <= n)%nat ->
  let s := sf_kills P n (failed_runner_start P l launched true) in
  sc_workload s = false /\ sc_dir s = false /\ sc_kills s = 1%nat /\ sc_runner s = false.
Proof.
  intros (HP & Hf & Hd & Hg & _) Hn. destruct P as [a b c d e]. cbn in HP, Hf, Hd, Hg. subst a b c d.
  destruct n as [|n]; [lia|]. cbn [sf_kills].
  unfold failed_runner_start, sf_kill at 1. cbn [sc_runner sc_named sc_dir sc_workload sc_kills sf_records_first
    sf_kill_forces sf_kill_removes_dir sf_kill_forgets andb negb].
  rewrite !sf_kills_done by reflexivity. cbn. rewrite !andb_false_r. repeat split.
Qed.

(* a runner that names nothing launched nothing that Kill could reach; nothing changes and nothing is counted *)
Lemma kill_unnamed P l n :
  sf_kills P n (failed_runner_start P l false false) = failed_runner_start P l false false.
Proof. apply sf_kills_idle. cbn. apply andb_false_r. Qed.

(* the runner is never killed twice *)
Lemma kills_at_most_once P l la nm n : sf_kill_forgets P = true ->
  (sc_kills (sf_kills P n (failed_runner_start P l la nm)) <= 1)%nat.
Proof.
  intros Hg. destruct n as [|n]; cbn [sf_kills]; [cbn; lia|].
  unfold sf_kill at 1. cbn [failed_runner_start sc_runner sc_named sc_kills sc_dir sc_workload].
  destruct (sf_records_first P && nm) eqn:E.
  - rewrite Hg. rewrite sf_kills_done by reflexivity. cbn. destruct (sf_kill_forces P); lia.
  - rewrite sf_kills_idle by exact E. cbn. lia.
Qed.

(* when the runner is recorded only after runner.Start succeeded, Kill finds nothing: the workload survives *)
Theorem late_record_leaves_workload P n : sf_records_first P = false ->
  let s := sf_kills P n (failed_runner_start P SfRunner true true) in
  sc_workload s = true /\ sc_dir s = true /\ sc_kills s = 0%nat.
Proof.
  intros HP. cbn zeta. rewrite sf_kills_done by (cbn; exact HP). cbn. repeat split.
Qed.

(* and a Kill whose deferred part does not remove the directory leaves it, however often it is called *)
Theorem no_removal_leaves_dir P n : sf_kill_removes_dir P = false ->
  sc_dir (sf_kills P n (failed_runner_start P SfRunner true true)) = true.
Proof.
  intros Hd.
  assert (H : forall m s, sc_dir s = true -> sc_dir (sf_kills P m s) = true).
  { induction m as [|m IH]; intros s Hs; cbn [sf_kills]; [exact Hs|]. apply IH.
    unfold sf_kill. destruct (sc_runner s && sc_named s); [|exact Hs]. cbn. rewrite Hs, Hd. reflexivity. }
  apply H. reflexivity.
Qed.

(* the oracle accepts the model whenever the shape holds *)
Lemma model_meets_oracle P inp obs :
  shape P -> v_decoded (check_startfail P inp obs) = true ->
  v_oracle_model (check_startfail P inp obs) = true.
Proof.
  intros HP. unfold check_startfail.
  destruct inp as [| |[|[l| |] [|la [|nm [|[k| |] [|]]]]]]; try discriminate.
  destruct obs as [| |[|failed [|kret [|gone [|dgone [|]]]]]]; try discriminate.
  destruct (dbool la) as [la'|]; [|discriminate].
  destruct (dbool nm) as [nm'|]; [|discriminate].
  destruct (dbool failed); [|discriminate]. destruct (dbool kret); [|discriminate].
  destruct (dbool gone); [|discriminate]. destruct (dbool dgone); [|discriminate].
  intros _. cbn [v_oracle_model].
  destruct (Z.ltb 0 k) eqn:Hk; [|reflexivity]. destruct nm'; [|reflexivity]. cbn [andb].
  assert (Hn : (1 <= Z.to_nat k)%nat) by (apply Z.ltb_lt in Hk; lia).
  destruct (kill_after_failed_runner_start P (if Z.eqb l 0 then SfCmd else SfRunner) la' (Z.to_nat k) HP Hn) as (W & D & _).
  rewrite W, D. reflexivity.
Qed.
