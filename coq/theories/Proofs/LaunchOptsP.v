From Coq Require Import List NArith ZArith Bool.
From GP Require Import Base.Val Model.LaunchOpts.
Import ListNotations.

Definition shape (P : lo_params) : Prop :=
  lo_counted P = [0; 1; 2]%Z /\ lo_exactly_one P = true /\ lo_secure_reattach P = true /\ lo_mux_reattach P = true.

(* the checks pass exactly on the unambiguous configurations (all 32 of them decided by computation) *)
Theorem option_check_sound P c : shape P -> (option_check P c = 0%Z <-> unambiguous c = true).
Proof.
  intros (Hc & He & Hs & Hm). unfold option_check. rewrite Hc, He, Hs, Hm.
  destruct c as [a b r s m]; destruct a, b, r, s, m; vm_compute; split; congruence.
Qed.

(* which error: the count is judged first, then the two Reattach-specific conflicts in that order *)
Theorem option_check_class P c : shape P ->
  option_check P c =
    (if negb (Nat.eqb (b2n (l_cmd c) + b2n (l_reattach c) + b2n (l_runner c)) 1) then 1
     else if l_secure c && l_reattach c then 2 else if l_mux c && l_reattach c then 3 else 0)%Z.
Proof.
  intros (Hc & He & Hs & Hm). unfold option_check. rewrite Hc, He, Hs, Hm.
  destruct c as [a b r s m]; destruct a, b, r, s, m; reflexivity.
Qed.

(* when the checks pass, the method Start goes on to use is the one option that was set: nothing named is dropped *)
Theorem passed_means_named_method P c : shape P -> option_check P c = 0%Z ->
  match method_used c with
  | MReattach => l_reattach c = true /\ l_cmd c = false /\ l_runner c = false
  | MRunner => l_runner c = true /\ l_cmd c = false /\ l_reattach c = false
  | MCmd => l_cmd c = true /\ l_runner c = false /\ l_reattach c = false
  end.
Proof.
  intros (Hc & He & Hs & Hm). unfold option_check, method_used. rewrite Hc, He, Hs, Hm.
  destruct c as [a b r s m]; destruct a, b, r, s, m; vm_compute; intros H; try discriminate H; repeat split.
Qed.

(* a Start whose validation only looks at Reattach accepts Cmd together with RunnerFunc, and the command is dropped *)
Definition reattach_only_check (c : lo_cfg) : Z :=
  if l_reattach c then
    (if l_cmd c || l_runner c then 1 else if l_secure c then 2 else if l_mux c then 3 else 0)%Z
  else if negb (l_cmd c) && negb (l_runner c) then 1%Z else 0%Z.
Lemma reattach_only_check_unsound :
  exists c, reattach_only_check c = 0%Z /\ unambiguous c = false /\ method_used c = MRunner /\ l_cmd c = true.
Proof. exists {| l_cmd := true; l_reattach := false; l_runner := true; l_secure := false; l_mux := false |}. repeat split. Qed.

Lemma model_meets_oracle P inp obs : shape P ->
  v_decoded (check_conflict P inp obs) = true -> v_oracle_model (check_conflict P inp obs) = true.
Proof.
  intros HP. unfold check_conflict.
  destruct inp as [| |[|a [|b [|c [|d [|e [|]]]]]]]; try discriminate.
  destruct obs as [| |[|[cls| |] [|tch [|]]]]; try discriminate.
  destruct (dbool a) as [a'|]; [|discriminate]. destruct (dbool b) as [b'|]; [|discriminate].
  destruct (dbool c) as [c'|]; [|discriminate]. destruct (dbool d) as [d'|]; [|discriminate].
  destruct (dbool e) as [e'|]; [|discriminate]. destruct (dbool tch); [|discriminate].
  intros _. cbn [v_oracle_model].
  set (cfg := {| l_cmd := a'; l_reattach := b'; l_runner := c'; l_secure := d'; l_mux := e' |}).
  pose proof (option_check_sound P cfg HP) as [H1 H2].
  destruct (unambiguous cfg) eqn:U.
  - rewrite (H2 eq_refl). reflexivity.
  - destruct (Z.eqb (option_check P cfg) 0) eqn:E; [|reflexivity].
    apply Z.eqb_eq in E. specialize (H1 E). discriminate.
Qed.
