(* Round trips through the textual encodings go-plugin uses between host and plugin: decimal integers
   (strconv.Itoa / Atoi), the comma-separated version list of PLUGIN_PROTOCOL_VERSIONS, and their use by the two
   ends of the version negotiation. *)
From Coq Require Import List NArith ZArith Bool Lia Permutation.
From GP Require Import Base.Val Base.Bytes Base.GoStrings Model.Negotiate Proofs.NegotiateP Proofs.StderrP.
Import ListNotations.
Local Open Scope Z_scope.
Lemma is_digit_of d : 0 <= d < 10 -> is_digit (Z.to_N d + 48) = true.
Proof. intros H. unfold is_digit. apply andb_true_iff. split; apply N.leb_le; lia. Qed.

Lemma digit_val d : 0 <= d < 10 -> Z.of_N (Z.to_N d + 48 - 48) = d.
Proof. intros H. rewrite N.add_sub. lia. Qed.

(* the digits of n, most significant first, in front of acc: reading them continues the accumulator *)
Lemma pos_digits_spec fuel : forall n acc, 0 <= n < 10 ^ Z.of_nat fuel -> (0 < fuel)%nat ->
  exists ds, pos_digits_fuel fuel n acc = ds ++ acc /\ ds <> [] /\
    (forall rest a, digits_val (ds ++ rest) a = digits_val rest (a * 10 ^ Z.of_nat (List.length ds) + n)) /\
    (exists c r, ds = c :: r /\ is_digit c = true).
Proof.
  induction fuel as [|f IH]; intros n acc Hn Hf; [lia|].
  cbn [pos_digits_fuel]. destruct (Z.ltb_spec n 10) as [L|L].
  - exists [Z.to_N n + 48]%N. split; [reflexivity|]. split; [discriminate|]. split.
    + intros rest a. cbn [app digits_val List.length]. rewrite is_digit_of by lia. rewrite digit_val by lia.
      replace (a * 10 ^ Z.of_nat 1 + n) with (a * 10 + n); [reflexivity|]. change (Z.of_nat 1) with 1. lia.
    + eexists _, _. split; [reflexivity|]. apply is_digit_of. lia.
  - assert (Hf' : (0 < f)%nat).
    { destruct f; [|lia]. change (10 ^ Z.of_nat 1) with 10 in Hn. lia. }
    assert (Hq : 0 <= n / 10 < 10 ^ Z.of_nat f).
    { split; [apply Z.div_pos; lia|]. apply Z.div_lt_upper_bound; [lia|].
      rewrite Nat2Z.inj_succ, Z.pow_succ_r in Hn by lia. lia. }
    destruct (IH (n / 10) ((Z.to_N (n mod 10) + 48)%N :: acc) Hq Hf') as (ds & E & Hne & Hval & Hhd).
    exists (ds ++ [(Z.to_N (n mod 10) + 48)%N]). split; [rewrite E, <- app_assoc; reflexivity|].
    split; [destruct ds; discriminate|]. split.
    + intros rest a. rewrite <- app_assoc. cbn [app]. rewrite Hval. cbn [digits_val].
      assert (Hm : 0 <= n mod 10 < 10) by (apply Z.mod_pos_bound; lia).
      rewrite is_digit_of by lia. rewrite digit_val by lia. f_equal.
      rewrite app_length. cbn [List.length]. rewrite Nat2Z.inj_add. change (Z.of_nat 1) with 1.
      rewrite Z.pow_add_r by lia. change (10 ^ 1) with 10.
      pose proof (Z.div_mod n 10 ltac:(lia)). lia.
    + destruct Hhd as (c & r & -> & Hc). eexists _, _. split; [reflexivity|exact Hc].
Qed.

Lemma int64_lt_pow70 n : 0 <= n <= 9223372036854775808 -> 0 <= n < 10 ^ Z.of_nat 70.
Proof. intros H. split; [lia|]. assert (9223372036854775808 < 10 ^ Z.of_nat 70) by (vm_compute; reflexivity). lia. Qed.

Lemma digit_not_sign c : is_digit c = true -> c <> 43%N /\ c <> 45%N.
Proof. unfold is_digit. intros H. apply andb_true_iff in H. destruct H as [A B]. apply N.leb_le in A. lia. Qed.

Lemma atoi_unsigned c r : is_digit c = true ->
  atoi (c :: r) = match digits_val (c :: r) 0 with
                  | None => None
                  | Some v => if (Z.leb int_min v && Z.leb v int_max)%bool then Some v else None
                  end.
Proof.
  intros H. unfold is_digit in H. apply andb_true_iff in H. destruct H as [A B]. apply N.leb_le in A, B.
  assert (E : (c = 48 \/ c = 49 \/ c = 50 \/ c = 51 \/ c = 52 \/ c = 53 \/ c = 54 \/ c = 55 \/ c = 56 \/ c = 57)%N) by lia.
  destruct E as [E|[E|[E|[E|[E|[E|[E|[E|[E|E]]]]]]]]]; subst c; reflexivity.
Qed.

(* strconv.Atoi(strconv.Itoa(z)) = z for every int64 *)
Theorem atoi_itoa z : int_min <= z <= int_max -> atoi (itoa z) = Some z.
Proof.
  unfold int_min, int_max. intros Hz. unfold itoa. destruct (Z.ltb_spec z 0) as [N|N].
  - destruct (pos_digits_spec 70 (- z) [] (int64_lt_pow70 (- z) ltac:(lia)) ltac:(lia)) as (ds & E & Hne & Hval & _).
    rewrite E, app_nil_r. unfold atoi.
    destruct ds as [|c r]; [congruence|].
    specialize (Hval [] 0). rewrite app_nil_r in Hval. rewrite Hval. cbn [digits_val].
    replace (0 * 10 ^ Z.of_nat (List.length (c :: r)) + - z) with (- z) by lia.
    replace (- - z) with z by lia.
    unfold int_min, int_max.
    destruct (Z.leb_spec (-9223372036854775808) z); [|lia]. destruct (Z.leb_spec z 9223372036854775807); [|lia]. reflexivity.
  - destruct (pos_digits_spec 70 z [] (int64_lt_pow70 z ltac:(lia)) ltac:(lia)) as (ds & E & Hne & Hval & (c & r & -> & Hc)).
    rewrite E, app_nil_r. rewrite (atoi_unsigned c r Hc).
    specialize (Hval [] 0). rewrite app_nil_r in Hval. rewrite Hval. cbn [digits_val].
    replace (0 * 10 ^ Z.of_nat (List.length (c :: r)) + z) with z by lia.
    unfold int_min, int_max.
    destruct (Z.leb_spec (-9223372036854775808) z); [|lia]. destruct (Z.leb_spec z 9223372036854775807); [|lia]. reflexivity.
Qed.

(* ---- split / join for any one-byte separator *)
Definition no_sep (sep : N) (b : bytes) : bool := forallb (fun c => negb (N.eqb c sep)) b.

Lemma split_acc_nosep sep f : forall acc, no_sep sep f = true -> split_acc sep f acc = [frev acc ++ f].
Proof.
  induction f as [|c f IH]; intros acc H; cbn [split_acc].
  - rewrite app_nil_r. reflexivity.
  - cbn [no_sep forallb] in H. apply andb_true_iff in H. destruct H as [Hc Hf].
    destruct (N.eqb c sep); [discriminate|]. rewrite IH by exact Hf. rewrite frev_cons, <- app_assoc. reflexivity.
Qed.

Lemma split_acc_sep sep f rest : forall acc, no_sep sep f = true ->
  split_acc sep (f ++ sep :: rest) acc = (frev acc ++ f) :: split_acc sep rest [].
Proof.
  induction f as [|c f IH]; intros acc H; cbn [app split_acc].
  - rewrite N.eqb_refl, app_nil_r. reflexivity.
  - cbn [no_sep forallb] in H. apply andb_true_iff in H. destruct H as [Hc Hf].
    destruct (N.eqb c sep); [discriminate|]. rewrite IH by exact Hf. rewrite frev_cons, <- app_assoc. reflexivity.
Qed.

Theorem split_join_sep sep fs : fs <> [] -> forallb (no_sep sep) fs = true -> split sep (join [sep] fs) = fs.
Proof.
  unfold split. induction fs as [|f fs IH]; intros Hne H; [congruence|].
  cbn [forallb] in H. apply andb_true_iff in H. destruct H as [Hf Hr].
  destruct fs as [|g fs'].
  - cbn [join]. rewrite split_acc_nosep by exact Hf. reflexivity.
  - change (join [sep] (f :: g :: fs')) with (f ++ [sep] ++ join [sep] (g :: fs')).
    cbn [app]. rewrite split_acc_sep by exact Hf. cbn [frev rev_append app]. f_equal. apply IH; [discriminate|exact Hr].
Qed.

(* decimal output: digits and possibly a leading minus *)
Definition dec_char (c : N) : bool := is_digit c || N.eqb c 45.

Lemma pos_digits_chars fuel : forall n acc, 0 <= n -> forallb dec_char acc = true -> forallb dec_char (pos_digits_fuel fuel n acc) = true.
Proof.
  induction fuel as [|f IH]; intros n acc Hn Ha; cbn [pos_digits_fuel]; [exact Ha|].
  destruct (Z.ltb_spec n 10).
  - cbn [forallb]. rewrite Ha, andb_true_r. unfold dec_char. rewrite is_digit_of by lia. reflexivity.
  - apply IH; [apply Z.div_pos; lia|]. cbn [forallb]. rewrite Ha, andb_true_r.
    unfold dec_char. rewrite is_digit_of; [reflexivity|]. apply Z.mod_pos_bound. lia.
Qed.

Lemma itoa_chars z : forallb dec_char (itoa z) = true.
Proof.
  unfold itoa. destruct (Z.ltb_spec z 0).
  - cbn [forallb]. rewrite pos_digits_chars; [reflexivity|lia|reflexivity].
  - apply pos_digits_chars; [lia|reflexivity].
Qed.

Lemma itoa_no_sep sep z : (sep < 45 \/ 57 < sep \/ (45 < sep < 48))%N -> no_sep sep (itoa z) = true.
Proof.
  intros Hs. pose proof (itoa_chars z) as H. unfold no_sep. rewrite forallb_forall in *.
  intros c Hc. specialize (H c Hc). unfold dec_char, is_digit in H. apply negb_true_iff, N.eqb_neq.
  apply orb_true_iff in H. destruct H as [H|H].
  - apply andb_true_iff in H. destruct H as [A B]. apply N.leb_le in A, B. lia.
  - apply N.eqb_eq in H. lia.
Qed.

Lemma pos_digits_nonempty fuel n acc : (0 < fuel)%nat -> pos_digits_fuel fuel n acc <> [].
Proof.
  revert n acc. induction fuel as [|f IH]; intros n acc Hf; [lia|]. cbn [pos_digits_fuel].
  destruct (n <? 10); [discriminate|]. destruct f; [cbn; discriminate|]. apply IH. lia.
Qed.

Lemma itoa_nonempty z : itoa z <> [].
Proof. unfold itoa. destruct (z <? 0); [discriminate|]. apply pos_digits_nonempty. lia. Qed.

Definition in64 (z : Z) : Prop := int_min <= z <= int_max.

Lemma keep_some_atoi_itoa ks : Forall in64 ks -> keep_some (map atoi (map itoa ks)) = ks.
Proof.
  induction 1 as [|k ks Hk _ IH]; [reflexivity|]. cbn [map keep_some]. rewrite atoi_itoa by exact Hk. cbn [keep_some]. rewrite IH. reflexivity.
Qed.

(* what the client writes into PLUGIN_PROTOCOL_VERSIONS is read back by the plugin as the same list *)
Theorem versions_roundtrip ks : Forall in64 ks -> parse_versions (env_of_keys ks) = ks.
Proof.
  intros H. unfold parse_versions, env_of_keys. destruct ks as [|k ks]; [reflexivity|].
  assert (Hne : join [44%N] (map itoa (k :: ks)) <> []).
  { cbn [map]. destruct (map itoa ks); cbn [join].
    - apply itoa_nonempty.
    - intros E. apply app_eq_nil in E. destruct E as [E _]. exact (itoa_nonempty k E). }
  destruct (join [44%N] (map itoa (k :: ks))) eqn:EJ; [congruence|]. rewrite <- EJ.
  rewrite split_join_sep.
  - apply keep_some_atoi_itoa. exact H.
  - discriminate.
  - rewrite forallb_forall. intros fld Hb. apply in_map_iff in Hb. destruct Hb as (z & <- & _). apply itoa_no_sep. lia.
Qed.

(* ---- both ends over the real encodings: the client's version list travels through the environment variable, the
        plugin's choice travels back as the decimal second field of the handshake line *)
Theorem negotiation_over_the_wire sc cc :
  Forall in64 (mkeys (client_map cc)) -> Forall in64 (mkeys (server_map sc)) -> mkeys (server_map sc) <> [] ->
  let r := server_pick sc (env_of_keys (mkeys (client_map cc))) in
  match client_accept cc (itoa (fst (fst r))) with
  | Some (v, pc) =>
      v = fst (fst r) /\ mget (client_map cc) v = Some pc /\ snd r = mget (server_map sc) v /\
      is_max_common v (mkeys (server_map sc)) (mkeys (client_map cc))
  | None => disjoint (mkeys (server_map sc)) (mkeys (client_map cc)) /\ is_min (fst (fst r)) (mkeys (server_map sc))
  end.
Proof.
  intros Hc Hs Hne r.
  assert (Henv : parse_versions (env_of_keys (mkeys (client_map cc))) = mkeys (client_map cc)) by (apply versions_roundtrip; exact Hc).
  assert (Hin : In (fst (fst r)) (mkeys (server_map sc))).
  { destruct (server_pick_highest_common sc (mkeys (server_map sc)) (env_of_keys (mkeys (client_map cc))) (Permutation_refl _)) as (HA & HB & _).
    fold (server_pick sc (env_of_keys (mkeys (client_map cc)))) in HA, HB. fold r in HA, HB.
    destruct (common_or_disjoint (mkeys (server_map sc)) (parse_versions (env_of_keys (mkeys (client_map cc))))) as [Hex|Hd].
    - destruct (HA Hex) as [(A & _) _]. exact A.
    - destruct (HB Hne Hd) as (M & _). destruct M as [M _]. exact M. }
  apply (negotiation_agrees sc cc (mkeys (server_map sc)) (env_of_keys (mkeys (client_map cc))) (itoa (fst (fst r)))); auto.
  - rewrite Henv. tauto.
  - apply atoi_itoa. rewrite Forall_forall in Hs. apply Hs. exact Hin.
Qed.
