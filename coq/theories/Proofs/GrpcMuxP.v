(* The establishment system of Model/GrpcMux.v is finite: its reachable states are enumerated by a
   closure computation and every claim is checked on all of them by the kernel (vm_compute); the
   lemma [reach_in] lifts the check to every schedule. *)
From Coq Require Import List Bool.
From GP Require Import Model.GrpcMux.
Import ListNotations.

Definition cst_eq_dec : forall a b : cst, {a = b} + {a <> b}.
Proof. repeat decide equality. Defined.

Definition mem (s : cst) (l : list cst) : bool := if in_dec cst_eq_dec s l then true else false.
Lemma mem_In s l : mem s l = true -> In s l.
Proof. unfold mem. destruct (in_dec cst_eq_dec s l); [auto|discriminate]. Qed.

Definition labels := [LA; LR; LK; LD; LM].
Definition succs (P : cparams) (sd : side) (s : cst) : list cst :=
  flat_map (fun l => match cstep P sd s l with Some s' => [s'] | None => [] end) labels.

Fixpoint add_all (xs seen : list cst) : list cst * list cst :=   (* (new ones, seen') *)
  match xs with
  | [] => ([], seen)
  | x :: r => let '(nw, sn) := add_all r seen in if mem x sn then (nw, sn) else (x :: nw, x :: sn)
  end.

Fixpoint closure (fuel : nat) (P : cparams) (sd : side) (frontier seen : list cst) : list cst :=
  match fuel with
  | O => seen
  | S f => match frontier with
           | [] => seen
           | _ => let '(nw, sn) := add_all (flat_map (succs P sd) frontier) seen in closure f P sd nw sn
           end
  end.

Definition all_states (P : cparams) (sd : side) : list cst := closure 64 P sd [cinit] [cinit].

Definition closed (P : cparams) (sd : side) (S : list cst) : bool :=
  mem cinit S && forallb (fun s => forallb (fun s' => mem s' S) (succs P sd s)) S.

Lemma closed_reach P sd S : closed P sd S = true -> forall l s, In s S -> forall s', crun P sd s l = Some s' -> In s' S.
Proof.
  intros HC. apply andb_true_iff in HC. destruct HC as [_ HC]. rewrite forallb_forall in HC.
  induction l as [|a l IH]; intros s Hs s' H; simpl in H.
  - inversion H; subst; auto.
  - destruct (cstep P sd s a) as [s1|] eqn:E; [|discriminate].
    apply (IH s1); auto. specialize (HC s Hs). rewrite forallb_forall in HC. apply mem_In. apply HC.
    unfold succs. apply in_flat_map. exists a. split.
    + unfold labels. destruct a; simpl; auto 10.
    + rewrite E. left. reflexivity.
Qed.

Theorem reach_in P sd s : closed P sd (all_states P sd) = true -> creachable P sd s -> In s (all_states P sd).
Proof.
  intros HC [l H]. eapply closed_reach; eauto.
  apply andb_true_iff in HC. destruct HC as [HC _]. apply mem_In. exact HC.
Qed.

Definition good_state (P : cparams) (sd : side) (s : cst) : bool :=
  negb (main_err s) &&
  match d_pc s with DFail => false | _ => true end &&
  match delivered s with Some ToMain => false | _ => true end &&
  (if quiescent P sd s
   then match delivered s, d_pc s, a_pc s with Some ToListener, DDone, ADone => true | _, _, _ => false end
   else true).

Definition fixedP := {| registers_first := true; door_before_ack := true |}.
Definition oldP := {| registers_first := false; door_before_ack := true |}.
Definition ackFirstP := {| registers_first := true; door_before_ack := false |}.

Lemma closed_fixed_server : closed fixedP ServerMux (all_states fixedP ServerMux) = true. Proof. vm_compute. reflexivity. Qed.
Lemma closed_fixed_client : closed fixedP ClientMux (all_states fixedP ClientMux) = true. Proof. vm_compute. reflexivity. Qed.
Lemma good_fixed_server : forallb (good_state fixedP ServerMux) (all_states fixedP ServerMux) = true. Proof. vm_compute. reflexivity. Qed.
Lemma good_fixed_client : forallb (good_state fixedP ClientMux) (all_states fixedP ClientMux) = true. Proof. vm_compute. reflexivity. Qed.

Theorem mux_routing sd s : creachable fixedP sd s -> good_state fixedP sd s = true.
Proof.
  intros R. destruct sd.
  - pose proof (reach_in _ _ _ closed_fixed_server R) as H. pose proof good_fixed_server as G.
    rewrite forallb_forall in G. apply G; exact H.
  - pose proof (reach_in _ _ _ closed_fixed_client R) as H. pose proof good_fixed_client as G.
    rewrite forallb_forall in G. apply G; exact H.
Qed.

(* every schedule is short: each step advances one of finitely many program counters / flags *)
Definition depth_ok (P : cparams) (sd : side) : bool :=
  (* no state has a path of more than 14 steps: checked by unrolling [succs] 15 times from cinit *)
  match Nat.iter 15 (fun fr => flat_map (succs P sd) fr) [cinit] with [] => true | _ => false end.
Lemma depth_fixed_server : depth_ok fixedP ServerMux = true. Proof. vm_compute. reflexivity. Qed.
Lemma depth_fixed_client : depth_ok fixedP ClientMux = true. Proof. vm_compute. reflexivity. Qed.
