From Coq Require Import List NArith ZArith Bool.
From GP Require Import Base.Val Model.Resources.
Import ListNotations.

Section P.
Variable P : rparams.
Hypothesis H1 : rp_serve_defers_close P = true.
Hypothesis H2 : rp_muxer_closes_wrapped P = true.
Hypothesis H3 : rp_accept_serve_closes P = true.
Hypothesis H4 : rp_kill_removes_dir P = true.
Hypothesis H5 : rp_broker_run_nonblocking P = true.

(* with the close graph as wired, nothing is left -- except possibly sockets of listeners the plugin itself
   accepted on without multiplexing, whose closing is not ordered before the plugin's exit *)
Lemma leftovers_only_race c w :
  leftovers P c w =
  if negb (r_custom_runner c) && (r_grpc c && negb (r_mux c) && Nat.ltb 0 (r_plugin_brokered c) && (negb (rp_stop_waits_for_brokered P) && w))
  then [PluginBrokeredSocket] else [].
Proof.
  unfold leftovers, socket_leftovers. rewrite H1, H2, H3, H4, H5. cbn [negb].
  rewrite orb_true_r, !andb_false_r, orb_false_l. cbn [andb app].
  destruct (r_custom_runner c); cbn [negb andb app]; rewrite ?app_nil_r; try reflexivity.
Qed.

Theorem nothing_left_but_race c w r : In r (leftovers P c w) ->
  r = PluginBrokeredSocket /\ rp_stop_waits_for_brokered P = false /\ w = true /\
  r_grpc c = true /\ r_mux c = false /\ (0 < r_plugin_brokered c)%nat /\ r_custom_runner c = false.
Proof.
  rewrite leftovers_only_race.
  destruct (r_custom_runner c), (r_grpc c), (r_mux c), (Nat.ltb_spec 0 (r_plugin_brokered c)), (rp_stop_waits_for_brokered P), w;
    cbn [negb andb]; intros HH; try contradiction; destruct HH as [<-|[]]; repeat split; auto.
Qed.

Corollary nothing_left c w :
  (r_grpc c = false \/ r_mux c = true \/ r_plugin_brokered c = 0%nat \/ r_custom_runner c = true \/ rp_stop_waits_for_brokered P = true \/ w = false) ->
  leftovers P c w = [].
Proof.
  intros Hc. destruct (leftovers P c w) as [|r l] eqn:E; auto.
  assert (Hin : In r (leftovers P c w)) by (rewrite E; left; auto).
  destruct (nothing_left_but_race c w r Hin) as (_ & A & B & C & D & F & G).
  destruct Hc as [Hc|[Hc|[Hc|[Hc|[Hc|Hc]]]]]; try congruence. rewrite Hc in F. inversion F.
Qed.

End P.
