(* From the host's configuration to the result of Start, through every encoding in between: the environment the client
   builds (Model/Env.v) is what the plugin's Serve reads (Model/Serve.v); the version list survives the environment
   variable; the plugin's choice survives the handshake line; the line survives the scanner and the parser
   (Model/Handshake.v).  Each arrow is one of the earlier theorems; this file composes them. *)
From Coq Require Import List NArith ZArith Bool Lia String Permutation.
From GP Require Import Base.Val Base.Bytes Base.GoStrings Model.Negotiate Model.Handshake Model.Serve Model.Env Model.Params
  Proofs.SecureP Proofs.StderrP Proofs.NegotiateP Proofs.HandshakeP Proofs.ServeP Proofs.EnvP Proofs.RoundTripP Proofs.AgreeP.
Import ListNotations.

(* the child's view of its environment: os/exec passes the last binding of every key; os.Getenv of an unset key is "" *)
Fixpoint to_pairs (env : list entry) : list (bytes * bytes) :=
  match env with
  | [] => []
  | e :: r => match split_eq e [] with
              | Some (k, v) => match effective k r with Some _ => to_pairs r | None => (k, v) :: to_pairs r end
              | None => to_pairs r
              end
  end.

Lemma bytes_eqb_sym a b : bytes_eqb a b = bytes_eqb b a.
Proof.
  destruct (bytes_eqb a b) eqn:E1, (bytes_eqb b a) eqn:E2; auto.
  - apply bytes_eqb_eq in E1. subst. rewrite bytes_eqb_refl in E2. discriminate.
  - apply bytes_eqb_eq in E2. subst. rewrite bytes_eqb_refl in E1. discriminate.
Qed.

Lemma getenv_to_pairs env k : getenv (to_pairs env) k = match effective k env with Some v => v | None => [] end.
Proof.
  induction env as [|e r IH]; [reflexivity|]. cbn [to_pairs effective].
  destruct (split_eq e []) as [[k' v']|] eqn:ES.
  - destruct (effective k' r) as [w|] eqn:EK.
    + rewrite IH. destruct (effective k r) as [v|] eqn:EV; [reflexivity|].
      destruct (bytes_eqb k k') eqn:EB; [|reflexivity]. apply bytes_eqb_eq in EB. subst. congruence.
    + unfold getenv. cbn [find fst snd]. rewrite (bytes_eqb_sym k' k).
      destruct (bytes_eqb k k') eqn:EB.
      * apply bytes_eqb_eq in EB. subst. rewrite EK. reflexivity.
      * fold (getenv (to_pairs r) k). rewrite IH. destruct (effective k r); reflexivity.
  - rewrite IH. destruct (effective k r); reflexivity.
Qed.

Section Chain.
Hypothesis clears : ep_clears_inherited gen_env_params = true.

(* the plugin launched by a client opens its cookie gate, reads the client's version list and sees the multiplexing
   request exactly when the client made it *)
Theorem launched_plugin_sees c cert dir cmd_env host_env sc :
  ctl c -> cert <> [] ->
  sv_key sc = e_cookie_key c -> sv_value sc = e_cookie_value c -> e_cookie_key c <> [] -> e_cookie_value c <> [] ->
  let penv := to_pairs (build_env gen_env_params c cert dir cmd_env host_env) in
  gate_ok sc penv = true /\
  getenv penv (bs "PLUGIN_PROTOCOL_VERSIONS") = env_of_keys (e_versions c) /\
  (getenv penv (ep_mux_key gen_env_params) <> [] <-> e_mux c = true).
Proof.
  intros Hctl Hcert Hk Hv Hkn Hvn penv. unfold penv.
  assert (Ec : effective (e_cookie_key c) (build_env gen_env_params c cert dir cmd_env host_env) = Some (e_cookie_value c)).
  { apply env_effective, own_cookie; [exact clears|exact Hctl]. }
  assert (Ev : effective k_versions (build_env gen_env_params c cert dir cmd_env host_env) = Some (join [44%N] (map itoa (e_versions c)))).
  { apply env_effective, own_versions; [exact clears|exact Hctl]. }
  pose proof (env_effective c cert dir cmd_env host_env _ _ (own_mux clears c cert dir Hctl)) as Em.
  repeat split.
  - unfold gate_ok. rewrite Hk, Hv. destruct (e_cookie_key c); [congruence|]. destruct (e_cookie_value c) eqn:EV; [congruence|].
    cbn [negb andb]. rewrite getenv_to_pairs, Ec. apply bytes_eqb_refl.
  - rewrite getenv_to_pairs. change (bs "PLUGIN_PROTOCOL_VERSIONS") with k_versions. rewrite Ev. reflexivity.
  - rewrite getenv_to_pairs, Em. destruct (e_mux c); [reflexivity|]. intros H. exfalso. apply H. reflexivity.
  - rewrite getenv_to_pairs, Em. intros ->. discriminate.
Qed.

(* CAPSTONE.  A host configured with version sets [cc] (and the matching environment configuration [c]) launches a
   plugin configured with [sc] and the same cookie.  If the two have a version in common, the plugin's protocol for it
   is one the host allows, the address the plugin listens on can be resolved, and the transport options agree, then
   Start -- reading the plugin's real stdout bytes -- succeeds with the HIGHEST common version, the plugin's protocol and
   address, and does not kill the plugin. *)
Variable Hcore64 : in64 (svp_core gen_sv_params).

Theorem launch_to_start c cert_env dir cmd_env host_env sc addr cert hc o :
  ctl c -> cert_env <> [] ->
  sv_key sc = e_cookie_key c -> sv_value sc = e_cookie_value c -> e_cookie_key c <> [] -> e_cookie_value c <> [] ->
  e_versions c = mkeys (client_map (h_client hc)) -> h_mux hc = e_mux c ->
  Forall in64 (mkeys (client_map (h_client hc))) -> Forall in64 (mkeys (server_map (sv_serve sc))) ->
  (exists v, In v (mkeys (server_map (sv_serve sc))) /\ In v (mkeys (client_map (h_client hc)))) ->
  no_bar addr = true -> no_nl addr = true -> no_bar cert = true -> forallb plain_byte cert = true ->
  o_translate_ok o = true -> (bytes_eqb (o_net o) (bs "tcp") || bytes_eqb (o_net o) (bs "unix")) = true -> o_resolves o = true ->
  let penv := to_pairs (build_env gen_env_params c cert_env dir cmd_env host_env) in
  let r := server_pick (sv_serve sc) (getenv penv (bs "PLUGIN_PROTOCOL_VERSIONS")) in
  mem_bytes (proto_bytes (snd (fst r))) (h_allowed hc) = true ->
  ((hp_cert_len gen_hs_params < List.length cert)%nat -> o_cert_parses o = true /\ h_has_tls hc = true) ->
  exists line cset, serve gen_sv_params sc penv addr cert = [SvListen; SvPrint line; SvSwapStdio] /\
    is_max_common (fst (fst r)) (mkeys (server_map (sv_serve sc))) (mkeys (client_map (h_client hc))) /\
    mget (client_map (h_client hc)) (fst (fst r)) = Some cset /\
    ((blen line < max_token)%N -> forall rest t, exists eff,
       start_after_launch gen_hs_params hc o (line ++ 10%N :: rest) t =
         [(OOk {| a_net := o_net o; a_addr := o_canon o; a_resolved := true; a_proto := proto_bytes (snd (fst r));
                  a_version := fst (fst r); a_set := ps_id cset |}, eff)]
       /\ has_kill eff = false).
Proof.
  intros Hctl Hce Hk Hv Hkn Hvn Hvers Hmux Hc64 Hs64 (v0 & Hv0s & Hv0c) Hab Han Hcb Hcp Htr Hnet Hres penv r Hallow Hcert.
  destruct (launched_plugin_sees c cert_env dir cmd_env host_env sc Hctl Hce Hk Hv Hkn Hvn) as (Hgate & Henv & Hmx).
  fold penv in Hgate, Henv, Hmx.
  assert (Hne : mkeys (server_map (sv_serve sc)) <> []) by (intros E; rewrite E in Hv0s; destruct Hv0s).
  (* both ends over the wire *)
  pose proof (negotiation_over_the_wire (sv_serve sc) (h_client hc) Hc64 Hs64 Hne) as Hneg. cbv zeta in Hneg.
  assert (Er : server_pick (sv_serve sc) (env_of_keys (mkeys (client_map (h_client hc)))) = r).
  { unfold r. rewrite Henv, Hvers. reflexivity. }
  rewrite Er in Hneg.
  destruct (client_accept (h_client hc) (itoa (fst (fst r)))) as [[v pc]|] eqn:EA.
  2:{ destruct Hneg as [Hdis _]. exfalso. exact (Hdis v0 Hv0s Hv0c). }
  destruct Hneg as (Ev & Hcl & _ & Hmax). subst v.
  assert (Hv64 : in64 (fst (fst r))).
  { destruct Hmax as (Hin & _). rewrite Forall_forall in Hs64. apply Hs64. exact Hin. }
  destruct r as [[v p] sset] eqn:ER. cbn [fst snd] in *.
  destruct (start_agreement gen_sv_params gen_hs_params eq_refl eq_refl eq_refl Hcore64 ltac:(cbn; repeat constructor)
              sc penv addr cert hc o v p sset pc Hgate) as (line & Hs & Hstart); auto.
  - intros Hm Hp. apply Hmx. rewrite <- Hmux. exact Hm.
  - exists line, pc. split; [exact Hs|]. split; [exact Hmax|]. split; [exact Hcl|]. exact Hstart.
Qed.

(* ... and when the two configurations have NO version in common, Start fails with the version error and kills the plugin
   (which announced the lowest version it serves) *)
Theorem launch_without_common_version c cert_env dir cmd_env host_env sc addr cert hc o :
  ctl c -> cert_env <> [] ->
  sv_key sc = e_cookie_key c -> sv_value sc = e_cookie_value c -> e_cookie_key c <> [] -> e_cookie_value c <> [] ->
  e_versions c = mkeys (client_map (h_client hc)) ->
  Forall in64 (mkeys (client_map (h_client hc))) -> Forall in64 (mkeys (server_map (sv_serve sc))) ->
  mkeys (server_map (sv_serve sc)) <> [] ->
  disjoint (mkeys (server_map (sv_serve sc))) (mkeys (client_map (h_client hc))) ->
  no_bar addr = true -> no_nl addr = true -> no_bar cert = true -> forallb plain_byte cert = true ->
  let penv := to_pairs (build_env gen_env_params c cert_env dir cmd_env host_env) in
  exists line, serve gen_sv_params sc penv addr cert = [SvListen; SvPrint line; SvSwapStdio] /\
    ((blen line < max_token)%N -> forall rest t, exists eff,
       start_after_launch gen_hs_params hc o (line ++ 10%N :: rest) t = [(OErr EAppVersion, eff)] /\ has_kill eff = true).
Proof.
  intros Hctl Hce Hk Hv Hkn Hvn Hvers Hc64 Hs64 Hne Hdis Hab Han Hcb Hcp penv.
  destruct (launched_plugin_sees c cert_env dir cmd_env host_env sc Hctl Hce Hk Hv Hkn Hvn) as (Hgate & Henv & _).
  fold penv in Hgate, Henv.
  destruct (server_pick (sv_serve sc) (getenv penv (bs "PLUGIN_PROTOCOL_VERSIONS"))) as [[v p] sset] eqn:ER.
  (* the announced version is the least served one, which the client does not have *)
  destruct (server_pick_highest_common (sv_serve sc) (mkeys (server_map (sv_serve sc))) (getenv penv (bs "PLUGIN_PROTOCOL_VERSIONS")) (Permutation_refl _)) as (_ & HB & _).
  fold (server_pick (sv_serve sc) (getenv penv (bs "PLUGIN_PROTOCOL_VERSIONS"))) in HB. rewrite ER in HB. cbn [fst snd] in HB.
  assert (Hparse : parse_versions (getenv penv (bs "PLUGIN_PROTOCOL_VERSIONS")) = mkeys (client_map (h_client hc))).
  { rewrite Henv, Hvers. apply versions_roundtrip. exact Hc64. }
  rewrite Hparse in HB. destruct (HB Hne Hdis) as ((Hin & _) & Hnot & _).
  assert (Hv64 : in64 v) by (rewrite Forall_forall in Hs64; apply Hs64; exact Hin).
  assert (Hnone : mget (client_map (h_client hc)) v = None).
  { destruct (mget (client_map (h_client hc)) v) eqn:E; [|reflexivity]. exfalso. apply Hnot. apply mget_In_keys. congruence. }
  destruct (version_mismatch_is_start_error gen_sv_params gen_hs_params eq_refl eq_refl Hcore64 ltac:(cbn; repeat constructor)
              sc penv addr cert hc o v p sset Hgate ER Hv64 Hab Hcb Hcp Hnone) as (line & Hs & He & Hkill).
  exists line. split; [exact Hs|]. intros Hlen rest t.
  destruct (serve_line_scanned gen_sv_params gen_hs_params ltac:(cbn; repeat constructor) sc penv addr cert v p sset rest t Hgate ER Han Hcp) as (line' & Hs' & Hscan).
  rewrite Hs in Hs'. inversion Hs'; subst line'. specialize (Hscan Hlen).
  unfold start_after_launch. rewrite Hscan.
  destruct (process_line gen_hs_params hc o line) as [oc eff]. cbn [fst snd] in *. subst oc.
  exists eff. split; [reflexivity|exact Hkill].
Qed.

End Chain.
