From Coq Require Import List NArith ZArith Bool PeanoNat Lia.
From GP Require Import Base.Val Model.Reattach.
Import ListNotations.

Lemma nth_app_last {A} (l : list A) x : nth_error (l ++ [x]) (length l) = Some x.
Proof. rewrite nth_error_app2 by lia. rewrite Nat.sub_diag. reflexivity. Qed.

(* reattaching to a live instance yields a client of that same instance, with the recorded mode *)
Theorem reattach_same_instance net w c x h :
  nth_error (cls w) c = Some x -> c_conn x = true -> inst_alive w (c_inst x) = true ->
  let '(w', r) := rstep net w (RReattach c) h in
  r = 1%Z /\ insts w' = insts w /\
  nth_error (cls w') (length (cls w)) = Some {| c_inst := c_inst x; c_test := c_test x; c_live := true; c_conn := true |}.
Proof. intros H C A. simpl. rewrite H, C, A. simpl. repeat split; auto. apply nth_app_last. Qed.

(* reattaching when nothing is alive at the address: process-not-found, and nothing is launched *)
Theorem reattach_dead_not_found net w c x h :
  nth_error (cls w) c = Some x -> c_conn x = true -> inst_alive w (c_inst x) = false ->
  let '(w', r) := rstep net w (RReattach c) h in r = 0%Z /\ insts w' = insts w.
Proof. intros H C A. simpl. rewrite H, C, A. simpl. auto. Qed.

(* ... and in no case does a reattach launch or change an instance *)
Theorem reattach_never_touches_instances net w c h : insts (fst (rstep net w (RReattach c) h)) = insts w.
Proof. simpl. destruct (nth_error (cls w) c) as [x|]; [|reflexivity]. destruct (c_conn x); cbn [negb]; [|reflexivity]. destruct (inst_alive w (c_inst x)); reflexivity. Qed.

Lemma nth_updl_same {A} (l : list A) : forall i z, i < length l -> nth_error (updl l i z) i = Some z.
Proof. induction l as [|h t IH]; intros [|i] z Hl; simpl in *; try lia; auto. apply IH. lia. Qed.

Lemma rset_stores net w c x y v h :
  nth_error (cls w) c = Some x -> c_live x = true -> nth_error (insts w) (c_inst x) = Some y -> i_conn y = CUp ->
  snd (rstep net w (RSet c v) h) = 1%Z /\ cls (fst (rstep net w (RSet c v) h)) = cls w /\
  nth_error (insts (fst (rstep net w (RSet c v) h))) (c_inst x) = Some {| i_alive := i_alive y; i_conn := CUp; i_test := i_test y; i_store := v |}.
Proof.
  intros H L EI A. assert (Li : c_inst x < length (insts w)) by (apply nth_error_Some; congruence).
  simpl. rewrite H, L. unfold inst_conn. rewrite EI, A. cbn [works andb fst snd insts cls].
  repeat split; auto. rewrite nth_updl_same by exact Li. reflexivity.
Qed.

Lemma rget_reads net w c x y h :
  nth_error (cls w) c = Some x -> c_live x = true -> nth_error (insts w) (c_inst x) = Some y -> i_conn y = CUp ->
  snd (rstep net w (RGet c) h) = i_store y.
Proof. intros H L EI A. simpl. rewrite H, L. unfold inst_conn. rewrite EI, A. reflexivity. Qed.

(* what is written through one client of an instance is read through any other live client of it *)
Theorem set_then_get net w c1 c2 x1 x2 y v h1 h2 :
  nth_error (cls w) c1 = Some x1 -> nth_error (cls w) c2 = Some x2 -> c_inst x1 = c_inst x2 ->
  c_live x1 = true -> c_live x2 = true -> nth_error (insts w) (c_inst x1) = Some y -> i_conn y = CUp ->
  snd (rstep net (fst (rstep net w (RSet c1 v) h1)) (RGet c2) h2) = v.
Proof.
  intros H1 H2 E L1 L2 EI A.
  destruct (rset_stores net w c1 x1 y v h1 H1 L1 EI A) as (_ & HC & HI).
  rewrite (rget_reads net _ c2 x2 {| i_alive := i_alive y; i_conn := CUp; i_test := i_test y; i_store := v |}); auto.
  - rewrite HC. exact H2.
  - rewrite <- E. exact HI.
Qed.

(* Kill through a test-mode client leaves the serving instance untouched; only cancelling its context stops it *)
Theorem test_mode_kill_keeps_server net w c x h :
  nth_error (cls w) c = Some x -> c_test x = true -> fst (rstep net w (RKill c) h) = w.
Proof. intros H T. simpl. rewrite H, T. reflexivity. Qed.

Theorem kill_ends_instance net w c x h :
  nth_error (cls w) c = Some x -> c_test x = false -> c_live x = true -> c_inst x < length (insts w) ->
  inst_alive (fst (rstep net w (RKill c) h)) (c_inst x) = false /\ inst_conn (fst (rstep net w (RKill c) h)) (c_inst x) = CDown.
Proof.
  intros H T L Li. simpl. rewrite H, T, L. cbn [fst]. unfold inst_alive, inst_conn, set_state. cbn [insts].
  destruct (nth_error (insts w) (c_inst x)) as [y|] eqn:E; [|apply nth_error_None in E; lia].
  cbn [insts].
  rewrite nth_updl_same by exact Li. split; reflexivity.
Qed.

(* a client whose attach failed stays unattached however often Start is called again, and nothing else changes *)
Theorem failed_attach_stays_failed net w c x h :
  nth_error (cls w) c = Some x -> c_conn x = false -> rstep net w (RAgain c) h = (w, 0%Z).
Proof. intros Hc Hx. cbn. rewrite Hc, Hx. reflexivity. Qed.
