From Coq Require Import List NArith ZArith Bool Lia String.
From GP Require Import Base.Val Base.Bytes Base.GoStrings Model.Negotiate Model.Serve Proofs.SecureP Proofs.StderrP.
Import ListNotations.

(* ---- split / join round trip for bar-free fields *)
Lemma split_acc_nobar f : forall acc, no_bar f = true -> split_acc 124 f acc = [frev acc ++ f].
Proof.
  induction f as [|c f IH]; intros acc H; cbn [split_acc].
  - rewrite app_nil_r. reflexivity.
  - cbn [no_bar forallb] in H. apply andb_true_iff in H. destruct H as [Hc Hf].
    destruct (N.eqb c 124); [discriminate|]. rewrite IH by exact Hf. rewrite frev_cons, <- app_assoc. reflexivity.
Qed.

Lemma split_acc_bar f rest : forall acc, no_bar f = true ->
  split_acc 124 (f ++ 124%N :: rest) acc = (frev acc ++ f) :: split_acc 124 rest [].
Proof.
  induction f as [|c f IH]; intros acc H; cbn [app split_acc].
  - rewrite app_nil_r. reflexivity.
  - cbn [no_bar forallb] in H. apply andb_true_iff in H. destruct H as [Hc Hf].
    destruct (N.eqb c 124); [discriminate|]. rewrite IH by exact Hf. rewrite frev_cons, <- app_assoc. reflexivity.
Qed.

Theorem split_join fs : fs <> [] -> forallb no_bar fs = true -> split 124 (join [124%N] fs) = fs.
Proof.
  unfold split. induction fs as [|f fs IH]; intros Hne H; [congruence|].
  cbn [forallb] in H. apply andb_true_iff in H. destruct H as [Hf Hr].
  destruct fs as [|g fs'].
  - cbn [join]. rewrite split_acc_nobar by exact Hf. reflexivity.
  - change (join [124%N] (f :: g :: fs')) with (f ++ [124%N] ++ join [124%N] (g :: fs')).
    cbn [app]. rewrite split_acc_bar by exact Hf. cbn [frev rev_append app]. f_equal. apply IH; [discriminate|exact Hr].
Qed.

(* decimal output contains no '|' *)
Lemma no_bar_cons c l : no_bar (c :: l) = negb (N.eqb c 124) && no_bar l.
Proof. reflexivity. Qed.
Lemma pos_digits_nobar fuel : forall n acc, (0 <= n)%Z -> no_bar acc = true -> no_bar (pos_digits_fuel fuel n acc) = true.
Proof.
  induction fuel as [|f IH]; intros n acc Hn Ha; cbn [pos_digits_fuel]; [exact Ha|].
  destruct (Z.ltb_spec n 10).
  - rewrite no_bar_cons, Ha, andb_true_r. apply negb_true_iff, N.eqb_neq. lia.
  - apply IH; [apply Z.div_pos; lia|]. rewrite no_bar_cons, Ha, andb_true_r.
    apply negb_true_iff, N.eqb_neq. pose proof (Z.mod_pos_bound n 10). lia.
Qed.
Lemma itoa_nobar z : no_bar (itoa z) = true.
Proof.
  unfold itoa. destruct (Z.ltb_spec z 0).
  - rewrite no_bar_cons, pos_digits_nobar; [reflexivity|lia|reflexivity].
  - apply pos_digits_nobar; [lia|reflexivity].
Qed.

Section WithP.
Variable P : sv_params.

Definition gate_ok (c : sv_cfg) (env : list (bytes * bytes)) : bool :=
  negb (match sv_key c with [] => true | _ => false end) && negb (match sv_value c with [] => true | _ => false end)
  && bytes_eqb (getenv env (sv_key c)) (sv_value c).

(* the cookie gate: anything but an exact match of a non-empty configured key/value exits 1 and does nothing else *)
Theorem gate_closed c env addr cert : gate_ok c env = false -> serve P c env addr cert = [SvExit 1%Z].
Proof.
  unfold gate_ok, serve. destruct (sv_key c); cbn [negb andb orb]; [reflexivity|].
  destruct (sv_value c); cbn [negb andb orb]; [reflexivity|].
  intros H. rewrite H. reflexivity.
Qed.

Theorem gate_open c env addr cert : gate_ok c env = true ->
  exists line, serve P c env addr cert = [SvListen; SvPrint line; SvSwapStdio] /\
    (no_bar addr = true -> no_bar cert = true ->
     exists fs, split 124 line = fs /\
       List.length fs = (if match getenv env (svp_mux_key P) with [] => false | _ => true end then 7 else 6)%nat /\
       nth 0 fs [] = itoa (svp_core P) /\ nth 3 fs [] = addr /\ nth 5 fs [] = cert /\
       (match getenv env (svp_mux_key P) with [] => True | _ => nth 6 fs [] = bs "true" end)).
Proof.
  unfold gate_ok, serve. destruct (sv_key c); cbn [negb andb orb]; [discriminate|].
  destruct (sv_value c); cbn [negb andb orb]; [discriminate|].
  intros H. rewrite H. cbn [negb].
  destruct (server_pick (sv_serve c) (getenv env (bs "PLUGIN_PROTOCOL_VERSIONS"))) as [[v p] set].
  eexists. split; [reflexivity|]. intros Ha Hc.
  eexists. split; [reflexivity|].
  assert (PB : no_bar (match p with PNet => bs "netrpc" | PGrpc => bs "grpc" end) = true) by (destruct p; reflexivity).
  destruct (getenv env (svp_mux_key P)) as [|m0 m].
  - rewrite app_nil_r. rewrite split_join; [repeat split; reflexivity|discriminate|].
    cbn [forallb]. rewrite !itoa_nobar, Ha, Hc, PB. reflexivity.
  - cbn [app]. rewrite split_join; [repeat split; reflexivity|discriminate|].
    cbn [forallb]. rewrite !itoa_nobar, Ha, Hc, PB. reflexivity.
Qed.

End WithP.
