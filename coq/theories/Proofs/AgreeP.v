(* The two ends of the handshake together: the line a plugin's Serve prints (Model/Serve.v) is accepted by the host's
   Start (Model/Handshake.v), and the host ends up with the version the plugin chose, the plugin's protocol and the
   address it listens on. *)
From Coq Require Import List NArith ZArith Bool Lia String.
From GP Require Import Base.Val Base.Bytes Base.GoStrings Model.Negotiate Model.Handshake Model.Serve
  Proofs.SecureP Proofs.StderrP Proofs.NegotiateP Proofs.HandshakeP Proofs.ServeP Proofs.RoundTripP.
Import ListNotations.

(* ---- TrimSpace leaves a string alone when it neither starts nor ends with white space *)
Definition plain_byte (c : N) : bool := N.ltb c 128 && negb (ascii_space c).

Lemma prefix0 c r : plain_byte c = true -> space_prefix_len (c :: r) = 0%nat.
Proof.
  unfold plain_byte. intros H. apply andb_true_iff in H. destruct H as [A B]. apply N.ltb_lt in A. apply negb_true_iff in B.
  unfold space_prefix_len. cbv zeta. rewrite B.
  destruct (N.eqb_spec c 194); [lia|]. destruct (N.eqb_spec c 225); [lia|].
  destruct (N.eqb_spec c 226); [lia|]. destruct (N.eqb_spec c 227); [lia|]. reflexivity.
Qed.

Lemma suffix0 c r : plain_byte c = true -> space_suffix_len_rev (c :: r) = 0%nat.
Proof.
  unfold plain_byte. intros H. apply andb_true_iff in H. destruct H as [A B]. apply N.ltb_lt in A. apply negb_true_iff in B.
  unfold space_suffix_len_rev. cbv zeta. rewrite B.
  destruct (N.eqb_spec c 133); [lia|]. destruct (N.eqb_spec c 160); [lia|].
  destruct (N.eqb_spec c 128); [lia|]. destruct (N.eqb_spec c 159); [lia|]. cbn [orb andb].
  assert (U : uni_space_third c = false).
  { unfold uni_space_third. destruct (N.leb_spec 128 c); [lia|]. cbn [andb orb].
    destruct (N.eqb_spec c 168); [lia|]. destruct (N.eqb_spec c 169); [lia|]. destruct (N.eqb_spec c 175); [lia|]. reflexivity. }
  rewrite U. reflexivity.
Qed.

Lemma frev_frev {A} (l : list A) : frev (frev l) = l.
Proof. rewrite !frev_rev. apply rev_involutive. Qed.

Lemma trim_space_id s : space_prefix_len s = 0%nat -> space_suffix_len_rev (frev s) = 0%nat -> trim_space s = s.
Proof.
  intros Hp Hs. unfold trim_space.
  assert (L : trim_left s = s).
  { unfold trim_left. destruct (List.length s); cbn [trim_left_fuel]; [reflexivity|]. rewrite Hp. reflexivity. }
  rewrite L. unfold trim_right. destruct (List.length s); cbn [trim_right_rev_fuel]; [apply frev_frev|].
  rewrite Hs. apply frev_frev.
Qed.

(* first and last byte of a bar-joined list *)
Lemma join_cons_cons (sep : bytes) (f g : bytes) (r : list bytes) : join sep (f :: g :: r) = f ++ sep ++ join sep (g :: r).
Proof. reflexivity. Qed.

Lemma join_head (c : N) (f' : bytes) (fs : list bytes) : exists rest, join [124%N] ((c :: f') :: fs) = c :: rest.
Proof. destruct fs as [|g r]; [exists f'; reflexivity|]. rewrite join_cons_cons. eexists. reflexivity. Qed.

Lemma join_cons_ne (sep : bytes) (f : bytes) (rest : list bytes) : rest <> [] -> join sep (f :: rest) = f ++ sep ++ join sep rest.
Proof. destruct rest; [congruence|reflexivity]. Qed.

Lemma prefix_of_join (f : bytes) (fs : list bytes) : (exists c f', f = c :: f' /\ plain_byte c = true) ->
  space_prefix_len (join [124%N] (f :: fs)) = 0%nat.
Proof. intros (c & f' & -> & Hc). destruct fs as [|g r]; cbn [join app]; apply prefix0; exact Hc. Qed.

(* the byte a joined list ends with: the last byte of the last field, or the separator when that field is empty *)
Lemma join_last (fs : list bytes) (t : bytes) : fs <> [] -> exists pre, join [124%N] (fs ++ [t]) = pre ++ 124%N :: t.
Proof.
  induction fs as [|f fs IH]; intros Hne; [congruence|].
  destruct fs as [|g r].
  - exists f. reflexivity.
  - destruct (IH ltac:(discriminate)) as (pre & E). exists (f ++ 124%N :: pre).
    change ((f :: g :: r) ++ [t]) with (f :: ((g :: r) ++ [t])).
    rewrite join_cons_ne by (destruct r; discriminate). rewrite E. rewrite <- app_assoc. reflexivity.
Qed.

Lemma suffix_of_join (fs : list bytes) (t : bytes) : fs <> [] -> forallb plain_byte t = true ->
  space_suffix_len_rev (frev (join [124%N] (fs ++ [t]))) = 0%nat.
Proof.
  intros Hne Ht. destruct (join_last fs t Hne) as (pre & ->). rewrite frev_rev, rev_app_distr. cbn [rev].
  destruct (rev t) as [|c r] eqn:ER.
  - cbn [app]. apply suffix0. reflexivity.
  - rewrite <- app_assoc. cbn [app]. apply suffix0. rewrite forallb_forall in Ht. apply Ht. apply in_rev. rewrite ER. left. reflexivity.
Qed.

Lemma dec_char_plain c : dec_char c = true -> plain_byte c = true.
Proof.
  unfold dec_char, is_digit, plain_byte, ascii_space. intros H. apply orb_true_iff in H. destruct H as [H|H].
  - apply andb_true_iff in H. destruct H as [A B]. apply N.leb_le in A, B.
    apply andb_true_iff. split; [apply N.ltb_lt; lia|]. apply negb_true_iff.
    destruct (N.leb_spec 9 c), (N.leb_spec c 13), (N.eqb_spec c 32); cbn; try reflexivity; lia.
  - apply N.eqb_eq in H. subst. reflexivity.
Qed.

Section Agree.
Variable Ps : sv_params.
Variable Ph : hs_params.
Hypothesis Haddr : hp_checks_addr_err Ph = true.
Hypothesis Hguard : hp_guards_nil_tls Ph = true.
Hypothesis Hcore : svp_core Ps = hp_core Ph.
Hypothesis Hcore64 : in64 (svp_core Ps).
Hypothesis Hmin : (hp_min_fields Ph <= 6)%nat.

Definition proto_bytes (p : proto) : bytes := match p with PNet => bs "netrpc" | PGrpc => bs "grpc" end.

Definition line_fields (env : list (bytes * bytes)) (addr cert : bytes) (v : Z) (p : proto) : list bytes :=
  [itoa (svp_core Ps); itoa v; bs "unix"; addr; proto_bytes p; cert] ++
  match getenv env (svp_mux_key Ps) with [] => [] | _ => [bs "true"] end.

(* what Serve prints, and what the host's Split(TrimSpace(line), "|") makes of it *)
Lemma serve_line_fields sc env addr cert v p sset :
  gate_ok sc env = true ->
  server_pick (sv_serve sc) (getenv env (bs "PLUGIN_PROTOCOL_VERSIONS")) = (v, p, sset) ->
  no_bar addr = true -> no_bar cert = true -> forallb plain_byte cert = true ->
  exists line, serve Ps sc env addr cert = [SvListen; SvPrint line; SvSwapStdio] /\
               split 124 (trim_space line) = line_fields env addr cert v p.
Proof.
  intros Hgate Hpick Hab Hcb Hcp.
  unfold gate_ok in Hgate. unfold serve.
  destruct (sv_key sc) as [|k0 k]; cbn [negb andb orb] in *; [discriminate|].
  destruct (sv_value sc) as [|v0 vv]; cbn [negb andb orb] in *; [discriminate|].
  rewrite Hgate. cbn [negb]. rewrite Hpick.
  fold (proto_bytes p). fold (line_fields env addr cert v p).
  set (fs := line_fields env addr cert v p).
  eexists. split; [reflexivity|].
  assert (PB : no_bar (proto_bytes p) = true) by (destruct p; reflexivity).
  assert (Hfs_nobar : forallb no_bar fs = true).
  { unfold fs, line_fields. destruct (getenv env (svp_mux_key Ps)); cbn [app forallb]; rewrite !itoa_nobar, Hab, Hcb, PB; reflexivity. }
  assert (Htrim : trim_space (join [124%N] fs) = join [124%N] fs).
  { apply trim_space_id.
    - unfold fs, line_fields. cbn [app]. apply prefix_of_join.
      pose proof (itoa_chars (svp_core Ps)) as HC. pose proof (itoa_nonempty (svp_core Ps)) as HN.
      destruct (itoa (svp_core Ps)) as [|c f']; [congruence|]. exists c, f'. split; [reflexivity|].
      apply dec_char_plain. cbn [forallb] in HC. apply andb_true_iff in HC. tauto.
    - unfold fs, line_fields. destruct (getenv env (svp_mux_key Ps)).
      + rewrite app_nil_r.
        change [itoa (svp_core Ps); itoa v; bs "unix"; addr; proto_bytes p; cert] with ([itoa (svp_core Ps); itoa v; bs "unix"; addr; proto_bytes p] ++ [cert]).
        apply suffix_of_join; [discriminate|exact Hcp].
      + apply suffix_of_join; [discriminate|reflexivity]. }
  rewrite Htrim. apply split_join; [unfold fs, line_fields; discriminate|exact Hfs_nobar].
Qed.

Lemma line_fields_nth env addr cert v p :
  let fs := line_fields env addr cert v p in
  (6 <= List.length fs)%nat /\ nthb fs 0 = itoa (svp_core Ps) /\ nthb fs 1 = itoa v /\ nthb fs 4 = proto_bytes p /\ nthb fs 5 = cert /\
  (getenv env (svp_mux_key Ps) <> [] -> (7 <= List.length fs)%nat /\ nthb fs 6 = bs "true") /\
  (getenv env (svp_mux_key Ps) = [] -> List.length fs = 6%nat).
Proof.
  unfold line_fields. cbv zeta. destruct (getenv env (svp_mux_key Ps)); cbn [app List.length nthb nth];
    repeat split; try lia; try reflexivity; try congruence; intros; congruence.
Qed.

Theorem handshake_agreement sc env addr cert hc o v p sset cset :
  gate_ok sc env = true ->
  server_pick (sv_serve sc) (getenv env (bs "PLUGIN_PROTOCOL_VERSIONS")) = (v, p, sset) -> in64 v ->
  no_bar addr = true -> no_bar cert = true -> forallb plain_byte cert = true ->
  mget (client_map (h_client hc)) v = Some cset ->
  o_translate_ok o = true -> (bytes_eqb (o_net o) (bs "tcp") || bytes_eqb (o_net o) (bs "unix")) = true -> o_resolves o = true ->
  mem_bytes (proto_bytes p) (h_allowed hc) = true ->
  ((hp_cert_len Ph < List.length cert)%nat -> o_cert_parses o = true /\ h_has_tls hc = true) ->
  (h_mux hc = true -> p = PGrpc -> getenv env (svp_mux_key Ps) <> []) ->
  exists line, serve Ps sc env addr cert = [SvListen; SvPrint line; SvSwapStdio] /\
    fst (process_line Ph hc o line) =
      OOk {| a_net := o_net o; a_addr := o_canon o; a_resolved := true; a_proto := proto_bytes p; a_version := v; a_set := ps_id cset |}.
Proof.
  intros Hgate Hpick Hv64 Hab Hcb Hcp Hcl Htr Hnet Hres Hallow Hcert Hmux.
  destruct (serve_line_fields sc env addr cert v p sset Hgate Hpick Hab Hcb Hcp) as (line & Hs & Hf).
  exists line. split; [exact Hs|].
  apply (process_line_ok_iff_wf Ph Haddr Hguard).
  unfold wf_line. cbv zeta. rewrite Hf.
  destruct (line_fields_nth env addr cert v p) as (Hlen & N0 & N1 & N4 & N5 & Hm7 & _).
  set (fs := line_fields env addr cert v p) in *.
  rewrite N0, N1, N4, N5. rewrite !atoi_itoa by assumption. rewrite Hcore, Z.eqb_refl. rewrite Hcl.
  cbn [a_version a_set a_net a_addr a_resolved a_proto]. rewrite !Z.eqb_refl.
  assert (R : forall x, bytes_eqb x x = true) by (intros x; apply bytes_eqb_eq; reflexivity).
  destruct (Nat.leb_spec (hp_min_fields Ph) (List.length fs)); [|lia].
  destruct (Nat.leb_spec 5 (List.length fs)); [|lia].
  destruct (Nat.leb_spec 6 (List.length fs)); [|lia].
  rewrite Htr, Hnet, Hres, (R (o_net o)), (R (o_canon o)), (R (proto_bytes p)), Hallow. cbn [andb].
  assert (C1 : (if Nat.ltb (hp_cert_len Ph) (List.length cert) then o_cert_parses o && h_has_tls hc else true) = true).
  { destruct (Nat.ltb_spec (hp_cert_len Ph) (List.length cert)) as [L|L]; [|reflexivity]. destruct (Hcert L) as [A B]. rewrite A, B. reflexivity. }
  rewrite C1. cbn [andb].
  destruct (h_mux hc) eqn:EMx; cbn [andb]; [|reflexivity].
  destruct (bytes_eqb (proto_bytes p) grpc) eqn:EG; [|reflexivity].
  assert (Hp : p = PGrpc) by (destruct p; [discriminate|reflexivity]).
  destruct (Hm7 (Hmux eq_refl Hp)) as [L7 N6]. rewrite N6.
  destruct (Nat.leb_spec 7 (List.length fs)); [|lia]. reflexivity.
Qed.

(* ---- the mismatches: each surfaces as the matching error at start, and the plugin is killed *)
Lemma process_serve_line_prefix sc env addr cert hc o v p sset line :
  gate_ok sc env = true ->
  server_pick (sv_serve sc) (getenv env (bs "PLUGIN_PROTOCOL_VERSIONS")) = (v, p, sset) -> in64 v ->
  no_bar addr = true -> no_bar cert = true -> forallb plain_byte cert = true ->
  serve Ps sc env addr cert = [SvListen; SvPrint line; SvSwapStdio] ->
  split 124 (trim_space line) = line_fields env addr cert v p ->
  process_line Ph hc o line =
    match client_accept (h_client hc) (itoa v) with
    | None => fail EAppVersion []
    | Some (v', set) =>
      let e1 := [EfSetPlugins v'] in
      if negb (o_translate_ok o) then fail ETranslate e1 else
      let addr_ok := addr_known o && o_resolves o in
      if negb addr_ok then fail EAddr e1 else
      let e2 := e1 ++ [EfSetProto (proto_bytes p)] in
      if negb (mem_bytes (proto_bytes p) (h_allowed hc)) then fail EProtocol e2 else
      let parts := line_fields env addr cert v p in
      let has_cert := has_cert_field Ph parts in
      match cert_check Ph hc o has_cert with
      | None => (OPanic, e2 ++ [EfLoadCert; EfKill])
      | Some (Some e) => fail e (e2 ++ [EfLoadCert])
      | Some None =>
        let e3 := if has_cert then e2 ++ [EfLoadCert] else e2 in
        match mux_check hc (proto_bytes p) parts with
        | Some e => fail e e3
        | None => (OOk {| a_net := o_net o; a_addr := o_canon o; a_resolved := addr_ok; a_proto := proto_bytes p;
                          a_version := v'; a_set := ps_id set |}, e3)
        end
      end
    end.
Proof.
  intros Hgate Hpick Hv64 Hab Hcb Hcp Hs Hf.
  unfold process_line. cbv zeta. rewrite Hf.
  destruct (line_fields_nth env addr cert v p) as (Hlen & N0 & N1 & N4 & N5 & _).
  set (fs := line_fields env addr cert v p) in *.
  destruct (Nat.ltb_spec (List.length fs) (hp_min_fields Ph)); [lia|].
  rewrite N0, N1. rewrite atoi_itoa by assumption. rewrite Hcore, Z.eqb_refl. cbn [negb].
  destruct (client_accept (h_client hc) (itoa v)) as [[v' set]|]; [|reflexivity].
  rewrite Haddr. cbn [andb].
  unfold proto_of_parts. destruct (Nat.leb_spec 5 (List.length fs)); [|lia]. rewrite N4. reflexivity.
Qed.

Theorem version_mismatch_is_start_error sc env addr cert hc o v p sset :
  gate_ok sc env = true ->
  server_pick (sv_serve sc) (getenv env (bs "PLUGIN_PROTOCOL_VERSIONS")) = (v, p, sset) -> in64 v ->
  no_bar addr = true -> no_bar cert = true -> forallb plain_byte cert = true ->
  mget (client_map (h_client hc)) v = None ->
  exists line, serve Ps sc env addr cert = [SvListen; SvPrint line; SvSwapStdio] /\
    fst (process_line Ph hc o line) = OErr EAppVersion /\ has_kill (snd (process_line Ph hc o line)) = true.
Proof.
  intros Hgate Hpick Hv64 Hab Hcb Hcp Hnone.
  destruct (serve_line_fields sc env addr cert v p sset Hgate Hpick Hab Hcb Hcp) as (line & Hs & Hf).
  exists line. split; [exact Hs|].
  rewrite (process_serve_line_prefix sc env addr cert hc o v p sset line) by assumption.
  unfold client_accept. rewrite atoi_itoa by assumption. rewrite Hnone. split; reflexivity.
Qed.

Theorem protocol_mismatch_is_start_error sc env addr cert hc o v p sset cset :
  gate_ok sc env = true ->
  server_pick (sv_serve sc) (getenv env (bs "PLUGIN_PROTOCOL_VERSIONS")) = (v, p, sset) -> in64 v ->
  no_bar addr = true -> no_bar cert = true -> forallb plain_byte cert = true ->
  mget (client_map (h_client hc)) v = Some cset ->
  o_translate_ok o = true -> addr_known o = true -> o_resolves o = true ->
  mem_bytes (proto_bytes p) (h_allowed hc) = false ->
  exists line, serve Ps sc env addr cert = [SvListen; SvPrint line; SvSwapStdio] /\
    fst (process_line Ph hc o line) = OErr EProtocol /\ has_kill (snd (process_line Ph hc o line)) = true.
Proof.
  intros Hgate Hpick Hv64 Hab Hcb Hcp Hcl Htr Hnet Hres Hallow.
  destruct (serve_line_fields sc env addr cert v p sset Hgate Hpick Hab Hcb Hcp) as (line & Hs & Hf).
  exists line. split; [exact Hs|].
  rewrite (process_serve_line_prefix sc env addr cert hc o v p sset line) by assumption.
  unfold client_accept. rewrite atoi_itoa by assumption. rewrite Hcl. cbv zeta.
  rewrite Htr, Hnet, Hres, Hallow. cbn [negb andb]. split; [reflexivity|].
  unfold fail. cbn [snd]. unfold has_kill. rewrite existsb_app. cbn. rewrite ?orb_true_r. reflexivity.
Qed.

(* a host that asks for multiplexing over gRPC from a plugin that does not advertise it (a build that predates the
   seventh field, or a host that did not set the variable) gets the dedicated error at start *)
Theorem mux_unsupported_is_start_error sc env addr cert hc o v p sset cset :
  gate_ok sc env = true ->
  server_pick (sv_serve sc) (getenv env (bs "PLUGIN_PROTOCOL_VERSIONS")) = (v, p, sset) -> in64 v ->
  no_bar addr = true -> no_bar cert = true -> forallb plain_byte cert = true ->
  mget (client_map (h_client hc)) v = Some cset ->
  o_translate_ok o = true -> addr_known o = true -> o_resolves o = true ->
  mem_bytes (proto_bytes p) (h_allowed hc) = true ->
  ((hp_cert_len Ph < List.length cert)%nat -> o_cert_parses o = true /\ h_has_tls hc = true) ->
  h_mux hc = true -> p = PGrpc -> getenv env (svp_mux_key Ps) = [] ->
  exists line, serve Ps sc env addr cert = [SvListen; SvPrint line; SvSwapStdio] /\
    fst (process_line Ph hc o line) = OErr EMuxUnsupported /\ has_kill (snd (process_line Ph hc o line)) = true.
Proof.
  intros Hgate Hpick Hv64 Hab Hcb Hcp Hcl Htr Hnet Hres Hallow Hcert Hmx Hp Hno. subst p.
  destruct (serve_line_fields sc env addr cert v PGrpc sset Hgate Hpick Hab Hcb Hcp) as (line & Hs & Hf).
  exists line. split; [exact Hs|].
  rewrite (process_serve_line_prefix sc env addr cert hc o v PGrpc sset line) by assumption.
  unfold client_accept. rewrite atoi_itoa by assumption. rewrite Hcl. cbv zeta.
  rewrite Htr, Hnet, Hres, Hallow. cbn [negb andb].
  destruct (line_fields_nth env addr cert v PGrpc) as (Hlen & N0 & N1 & N4 & N5 & _ & H6).
  specialize (H6 Hno).
  assert (CC : cert_check Ph hc o (has_cert_field Ph (line_fields env addr cert v PGrpc)) = Some None).
  { unfold cert_check, has_cert_field. rewrite N5.
    destruct (Nat.leb_spec 6 (List.length (line_fields env addr cert v PGrpc))); [|lia]. cbn [andb].
    destruct (Nat.ltb_spec (hp_cert_len Ph) (List.length cert)) as [L|L]; cbn [negb]; [|reflexivity].
    destruct (Hcert L) as [A B]. rewrite Hguard, A, B. reflexivity. }
  rewrite CC.
  assert (MC : mux_check hc (proto_bytes PGrpc) (line_fields env addr cert v PGrpc) = Some EMuxUnsupported).
  { unfold mux_check. rewrite Hmx. cbn [andb proto_bytes]. change (bytes_eqb (bs "grpc") grpc) with true. cbn iota.
    rewrite H6. reflexivity. }
  rewrite MC. split; [reflexivity|].
  unfold fail. cbn [snd]. unfold has_kill. rewrite existsb_app. cbn. rewrite ?orb_true_r. reflexivity.
Qed.

(* ---- from the bytes on stdout to the line: what the host's scanner hands to the parser *)
Definition no_nl (b : bytes) : bool := forallb (fun c => negb (N.eqb c 10)) b.

Lemma take_line_app (l : bytes) rest : forall acc, no_nl l = true -> take_line (l ++ 10%N :: rest) acc = Some (frev acc ++ l).
Proof.
  induction l as [|c l IH]; intros acc H; cbn [app take_line].
  - rewrite app_nil_r. reflexivity.
  - cbn [no_nl forallb] in H. apply andb_true_iff in H. destruct H as [Hc Hl].
    destruct (N.eqb c 10); [discriminate|]. rewrite IH by exact Hl. rewrite frev_cons, <- app_assoc. reflexivity.
Qed.

Lemma match13 {A} (c : N) (x y : A) : c <> 13%N -> match c with 13%N => x | _ => y end = y.
Proof.
  intros H. destruct c as [|p]; [reflexivity|].
  destruct p as [p|p|]; try reflexivity. destruct p as [p|p|]; try reflexivity.
  destruct p as [p|p|]; try reflexivity. destruct p as [p|p|]; try reflexivity.
  exfalso. apply H. reflexivity.
Qed.

Lemma scan_first_line (l : bytes) rest t :
  no_nl l = true -> (match frev l with 13%N :: _ => False | _ => True end) -> (blen l < max_token)%N ->
  scan_first (l ++ 10%N :: rest) t = SLine l.
Proof.
  intros Hn Hcr Hlen. unfold scan_first. rewrite take_line_app by exact Hn. cbn [frev rev_append app].
  destruct (N.ltb_spec (blen l) max_token); [|lia]. unfold drop_cr.
  destruct (frev l) as [|c r]; [reflexivity|].
  destruct (N.eq_dec c 13) as [->|Hc]; [contradiction|]. f_equal. apply match13. exact Hc.
Qed.

Lemma no_nl_app a b : no_nl (a ++ b) = no_nl a && no_nl b.
Proof. apply forallb_app. Qed.

Lemma no_nl_join (fs : list bytes) : forallb no_nl fs = true -> no_nl (join [124%N] fs) = true.
Proof.
  induction fs as [|f fs IH]; intros H; [reflexivity|]. cbn [forallb] in H. apply andb_true_iff in H. destruct H as [Hf Hr].
  destruct fs as [|g r]; [exact Hf|]. rewrite join_cons_cons, !no_nl_app, Hf, IH by exact Hr. reflexivity.
Qed.

Lemma dec_chars_no_nl b : forallb dec_char b = true -> no_nl b = true.
Proof.
  intros H. unfold no_nl. rewrite forallb_forall in *. intros c Hc. specialize (H c Hc).
  apply dec_char_plain in H. unfold plain_byte, ascii_space in H. apply negb_true_iff, N.eqb_neq. intros ->. discriminate.
Qed.

Lemma plain_no_nl b : forallb plain_byte b = true -> no_nl b = true.
Proof.
  intros H. unfold no_nl. rewrite forallb_forall in *. intros c Hc. specialize (H c Hc).
  unfold plain_byte, ascii_space in H. apply negb_true_iff, N.eqb_neq. intros ->. discriminate.
Qed.

Lemma no_cr_at_end (fs : list bytes) (t : bytes) : fs <> [] -> forallb plain_byte t = true ->
  match frev (join [124%N] (fs ++ [t])) with 13%N :: _ => False | _ => True end.
Proof.
  intros Hne Ht. destruct (join_last fs t Hne) as (pre & ->). rewrite frev_rev, rev_app_distr. cbn [rev].
  destruct (rev t) as [|c r] eqn:ER; [cbn [app]; exact I|].
  rewrite <- app_assoc. cbn [app].
  assert (Hc : plain_byte c = true).
  { rewrite forallb_forall in Ht. apply Ht. apply in_rev. rewrite ER. left. reflexivity. }
  assert (N13 : c <> 13%N) by (intros ->; discriminate Hc).
  rewrite (match13 c False True N13). exact I.
Qed.

(* the host reads exactly the printed line back from the plugin's stdout (Printf adds the newline; anything may follow) *)
Lemma serve_line_scanned sc env addr cert v p sset rest t :
  gate_ok sc env = true ->
  server_pick (sv_serve sc) (getenv env (bs "PLUGIN_PROTOCOL_VERSIONS")) = (v, p, sset) ->
  no_nl addr = true -> forallb plain_byte cert = true ->
  exists line, serve Ps sc env addr cert = [SvListen; SvPrint line; SvSwapStdio] /\
    ((blen line < max_token)%N -> scan_first (line ++ 10%N :: rest) t = SLine line).
Proof.
  intros Hgate Hpick Han Hcp.
  unfold gate_ok in Hgate. unfold serve.
  destruct (sv_key sc) as [|k0 k]; cbn [negb andb orb] in *; [discriminate|].
  destruct (sv_value sc) as [|v0 vv]; cbn [negb andb orb] in *; [discriminate|].
  rewrite Hgate. cbn [negb]. rewrite Hpick.
  fold (proto_bytes p). fold (line_fields env addr cert v p).
  eexists. split; [reflexivity|]. intros Hlen. apply scan_first_line; [| |exact Hlen].
  - apply no_nl_join. unfold line_fields.
    assert (PN : no_nl (proto_bytes p) = true) by (destruct p; reflexivity).
    destruct (getenv env (svp_mux_key Ps)); cbn [app forallb];
      rewrite !(dec_chars_no_nl _ (itoa_chars _)), Han, PN, (plain_no_nl _ Hcp); reflexivity.
  - (* the last byte is the last byte of the last field, or the separator: never a carriage return *)
    unfold line_fields. destruct (getenv env (svp_mux_key Ps)).
    + rewrite app_nil_r.
      change [itoa (svp_core Ps); itoa v; bs "unix"; addr; proto_bytes p; cert] with ([itoa (svp_core Ps); itoa v; bs "unix"; addr; proto_bytes p] ++ [cert]).
      apply no_cr_at_end; [discriminate|exact Hcp].
    + apply no_cr_at_end; [discriminate|reflexivity].
Qed.

(* END TO END: the bytes a conforming plugin writes to stdout, as the host's Start sees them through its scanner *)
Theorem start_agreement sc env addr cert hc o v p sset cset :
  gate_ok sc env = true ->
  server_pick (sv_serve sc) (getenv env (bs "PLUGIN_PROTOCOL_VERSIONS")) = (v, p, sset) -> in64 v ->
  no_bar addr = true -> no_nl addr = true -> no_bar cert = true -> forallb plain_byte cert = true ->
  mget (client_map (h_client hc)) v = Some cset ->
  o_translate_ok o = true -> (bytes_eqb (o_net o) (bs "tcp") || bytes_eqb (o_net o) (bs "unix")) = true -> o_resolves o = true ->
  mem_bytes (proto_bytes p) (h_allowed hc) = true ->
  ((hp_cert_len Ph < List.length cert)%nat -> o_cert_parses o = true /\ h_has_tls hc = true) ->
  (h_mux hc = true -> p = PGrpc -> getenv env (svp_mux_key Ps) <> []) ->
  exists line, serve Ps sc env addr cert = [SvListen; SvPrint line; SvSwapStdio] /\
    ((blen line < max_token)%N -> forall rest t, exists eff,
       start_after_launch Ph hc o (line ++ 10%N :: rest) t =
         [(OOk {| a_net := o_net o; a_addr := o_canon o; a_resolved := true; a_proto := proto_bytes p; a_version := v; a_set := ps_id cset |}, eff)]
       /\ has_kill eff = false).
Proof.
  intros Hgate Hpick Hv64 Hab Han Hcb Hcp Hcl Htr Hnet Hres Hallow Hcert Hmux.
  destruct (handshake_agreement sc env addr cert hc o v p sset cset Hgate Hpick Hv64 Hab Hcb Hcp Hcl Htr Hnet Hres Hallow Hcert Hmux) as (line & Hs & Hok).
  exists line. split; [exact Hs|]. intros Hlen rest t.
  destruct (serve_line_scanned sc env addr cert v p sset rest t Hgate Hpick Han Hcp) as (line' & Hs' & Hscan).
  rewrite Hs in Hs'. inversion Hs'; subst line'. specialize (Hscan Hlen).
  unfold start_after_launch. rewrite Hscan.
  pose proof (process_line_kill Ph Hguard hc o line) as HK.
  destruct (process_line Ph hc o line) as [oc eff]. cbn [fst snd] in *. subst oc.
  exists eff. split; [reflexivity|exact HK].
Qed.

End Agree.
