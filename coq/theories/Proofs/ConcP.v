From Coq Require Import List NArith ZArith Bool String Lia.
From GP Require Import Base.Val Generated Model.Conc.
Import ListNotations.
Local Open Scope Z_scope.

(* ================================================================== 1. ids *)
Lemma ids_atomic_char : forall sched s0 acc loc,
  forallb is_inc sched = true ->
  i_out (fold_left id_step sched {| i_shared := s0; i_local := loc; i_out := acc |}) =
  acc ++ map (fun k => wrap32 (s0 + Z.of_nat k)) (seq 1 (List.length sched)).
Proof.
  intros sched. induction sched as [|e sched IH]; intros s0 acc loc Hs; cbn [fold_left List.length seq map].
  - rewrite app_nil_r. auto.
  - cbn [forallb] in Hs. apply andb_true_iff in Hs. destruct Hs as [He Hs].
    destruct e; try discriminate. cbn [id_step i_shared i_local i_out].
    rewrite (IH (wrap32 (s0 + 1)) (acc ++ [wrap32 (s0 + 1)]) loc Hs).
    rewrite <- app_assoc. cbn [app]. f_equal. f_equal.
    rewrite <- (seq_shift (List.length sched) 1), map_map. apply map_ext. intros k. unfold wrap32.
    rewrite Nat2Z.inj_succ. rewrite Zplus_mod_idemp_l. f_equal. lia.
Qed.

Lemma ids_atomic_exact sched s0 : forallb is_inc sched = true ->
  ids_of s0 sched = map (fun k => wrap32 (s0 + Z.of_nat k)) (seq 1 (List.length sched)).
Proof. intros H. unfold ids_of. apply (ids_atomic_char sched s0 [] [] H). Qed.

Lemma wrap32_inj_window a i j : 0 <= i - j < 4294967296 -> wrap32 (a + i) = wrap32 (a + j) -> i = j.
Proof.
  unfold wrap32. intros Hr E.
  assert (H : (i - j) mod 4294967296 = 0).
  { replace (i - j) with ((a + i) - (a + j)) by lia. rewrite Zminus_mod, E, Z.sub_diag. reflexivity. }
  rewrite Z.mod_small in H by lia. lia.
Qed.

Lemma NoDup_map_inj_in {A B} (f : A -> B) l :
  (forall x y, In x l -> In y l -> f x = f y -> x = y) -> NoDup l -> NoDup (map f l).
Proof.
  induction l as [|a l IH]; intros Hinj Hnd; cbn [map]; [constructor|].
  inversion Hnd as [|? ? Hna Hnd']; subst. constructor.
  - intros Hin. apply in_map_iff in Hin. destruct Hin as (y & Hy & Hyl).
    assert (y = a) by (apply Hinj; [right; auto | left; auto | auto]). subst. contradiction.
  - apply IH; auto. intros x y Hx Hy. apply Hinj; right; auto.
Qed.

(* any number of concurrent NextId calls up to 2^32 return pairwise distinct ids, whatever the schedule *)
Theorem nextid_distinct sched s0 :
  forallb is_inc sched = true -> Z.of_nat (List.length sched) <= 4294967296 -> NoDup (ids_of s0 sched).
Proof.
  intros H Hn. rewrite ids_atomic_exact by exact H.
  set (n := List.length sched) in *. clearbody n.
  apply NoDup_map_inj_in.
  - intros x y Hx Hy E. apply in_seq in Hx. apply in_seq in Hy.
    destruct (Z.le_ge_cases (Z.of_nat y) (Z.of_nat x)) as [L|L].
    + apply Nat2Z.inj. apply (wrap32_inj_window s0); [lia|exact E].
    + symmetry. apply Nat2Z.inj. apply (wrap32_inj_window s0); [lia|symmetry; exact E].
  - apply seq_NoDup.
Qed.

(* ================================================================== 2. close once *)
Definition cl_inv (s : clst) : Prop :=
  c_panics s = 0%nat /\ c_closed s = c_done s /\ c_closes s = (if c_done s then 1%nat else 0%nat).

Lemma cl_step_inv s t : cl_inv s -> cl_inv (cl_step s (CDo t)) /\ c_done (cl_step s (CDo t)) = true.
Proof.
  intros (Hp & Hc & Hn). unfold cl_inv. cbn [cl_step]. destruct (c_done s) eqn:D.
  - rewrite D. auto.
  - rewrite Hc. cbn [c_panics c_closed c_done c_closes]. rewrite Hn. auto.
Qed.

Lemma cl_run_inv sched : forall s, forallb is_do sched = true -> cl_inv s -> cl_inv (fold_left cl_step sched s).
Proof.
  induction sched as [|e sched IH]; intros s Hs Hi; cbn [fold_left]; auto.
  cbn [forallb] in Hs. apply andb_true_iff in Hs. destruct Hs as [He Hs]. destruct e; try discriminate.
  apply IH; auto. apply cl_step_inv; auto.
Qed.

Lemma cl_run_done sched : forall s, forallb is_do sched = true -> c_done s = true -> c_done (fold_left cl_step sched s) = true.
Proof.
  induction sched as [|e sched IH]; intros s Hs Hd; cbn [fold_left]; auto.
  cbn [forallb] in Hs. apply andb_true_iff in Hs. destruct Hs as [He Hs]. destruct e; try discriminate.
  apply IH; auto. cbn [cl_step]. rewrite Hd. exact Hd.
Qed.

(* any number of goroutines, any order: a once-guarded close never panics and closes exactly once *)
Theorem close_once sched : forallb is_do sched = true ->
  c_panics (cl_run sched) = 0%nat /\ c_closes (cl_run sched) = (match sched with [] => 0%nat | _ => 1%nat end).
Proof.
  intros H. unfold cl_run.
  assert (I0 : cl_inv cl_init) by (unfold cl_inv; cbn; auto).
  destruct (cl_run_inv sched cl_init H I0) as (A & B & C). split; auto.
  destruct sched as [|e r]; [reflexivity|].
  rewrite C. cbn [fold_left]. cbn [forallb] in H. apply andb_true_iff in H. destruct H as [He Hr]. destruct e; try discriminate.
  rewrite (cl_run_done r _ Hr); [reflexivity|]. apply cl_step_inv. exact I0.
Qed.

(* ================================================================== 2b. reply channel *)
Lemma rq_inv sched : forall s, q_panic s = false -> (q_closed s = true -> q_replied s = true) ->
  q_panic (fold_left (rq_step true) sched s) = false.
Proof.
  induction sched as [|e sched IH]; intros s Hp Hc; cbn [fold_left]; auto.
  apply IH; destruct e; cbn [rq_step orb]; auto.
  - destruct (q_taken s && negb (q_replied s)) eqn:E; auto.
    apply andb_true_iff in E. destruct E as [_ E]. apply negb_true_iff in E.
    destruct (q_closed s) eqn:C; [rewrite (Hc eq_refl) in E; discriminate|exact Hp].
  - destruct (q_taken s && negb (q_replied s)); auto. destruct (q_closed s); reflexivity.
Qed.

(* a Send that returns only by receiving the reply never makes the stream goroutine send on a closed channel,
   whatever the schedule (and however often Close is attempted meanwhile) *)
Theorem reply_channel_safe sched : q_panic (rq_run true sched) = false.
Proof. unfold rq_run. apply rq_inv; [reflexivity|discriminate]. Qed.

(* ================================================================== 3. mutex discipline *)
Lemma wf_app a b : wf (a ++ b) -> wf b.
Proof. induction a as [|e a IH]; cbn [app]; auto. destruct e; cbn [wf]; intros H; apply IH; tauto. Qed.

(* the thread-local view is sound: who has locked (by its own account) is the holder *)
Lemma lheld_holder t l tr : wf tr -> lheld t l tr = true -> holder l tr = Some t.
Proof.
  induction tr as [|e tr IH]; cbn [wf lheld holder]; intros W H; [discriminate|].
  destruct e as [t' l'|t' l'|t' f w].
  - destruct W as [Hn W]. destruct (String.eqb_spec l' l) as [->|Nl].
    + destruct (Nat.eqb_spec t' t) as [->|Nt]; cbn [andb] in H; auto.
      rewrite (IH W H) in Hn. discriminate.
    + rewrite andb_false_r in H. auto.
  - destruct W as [Hh W]. destruct (String.eqb_spec l' l) as [->|Nl].
    + destruct (Nat.eqb_spec t' t) as [->|Nt]; cbn [andb] in H; [discriminate|].
      rewrite (IH W H) in Hh. congruence.
    + rewrite andb_false_r in H. auto.
  - auto.
Qed.

Lemma lheld_proj t l tr : lheld t l (proj t tr) = lheld t l tr.
Proof.
  induction tr as [|e tr IH]; [reflexivity|]. unfold proj in *. cbn [filter].
  destruct (Nat.eqb_spec (ev_thread e) t) as [E|N].
  - destruct e; cbn [lheld]; rewrite IH; reflexivity.
  - destruct e as [t' l'|t' l'|t' f w]; cbn [lheld ev_thread] in *; rewrite IH;
      try (destruct (Nat.eqb_spec t' t); [congruence|]; reflexivity); reflexivity.
Qed.

Lemma proj_app t a b : proj t (a ++ b) = proj t a ++ proj t b.
Proof. apply filter_app. Qed.

(* per-thread bracketing gives global bracketing *)
Lemma bracketed_of_threads lk tr : (forall t, bracketed lk (proj t tr) = true) -> bracketed lk tr = true.
Proof.
  induction tr as [|e tr IH]; intros H; [reflexivity|].
  assert (Hrest : forall t, bracketed lk (proj t tr) = true).
  { intros t. specialize (H t). unfold proj in *. cbn [filter] in H.
    destruct (Nat.eqb (ev_thread e) t); auto. destruct e; cbn [bracketed] in H; auto.
    apply andb_true_iff in H. tauto. }
  destruct e as [t' l'|t' l'|t' f w]; cbn [bracketed]; auto.
  specialize (H t'). unfold proj in H. cbn [filter ev_thread] in H. rewrite Nat.eqb_refl in H. cbn [bracketed] in H.
  apply andb_true_iff in H. destruct H as [H1 H2]. apply andb_true_iff. split; auto.
  destruct (lk f) as [l|]; [|discriminate]. fold (proj t' tr) in H1. rewrite lheld_proj in H1. exact H1.
Qed.

Lemma bracketed_split lk a t f w b : bracketed lk (a ++ Acc t f w :: b) = true ->
  exists l, lk f = Some l /\ lheld t l b = true.
Proof.
  induction a as [|e a IH]; cbn [app bracketed].
  - intros H. apply andb_true_iff in H. destruct H as [H _]. destruct (lk f) as [l|]; [|discriminate]. eauto.
  - destruct e; cbn [bracketed]; auto. intros H. apply andb_true_iff in H. tauto.
Qed.

Lemma opt_nat_dec (a b : option nat) : {a = b} + {a <> b}.
Proof. decide equality. apply Nat.eq_dec. Qed.

(* once a thread holds l, the holder changes only through its release *)
Lemma holder_changes l t1 mid : forall base, wf (mid ++ base) -> holder l base = Some t1 -> holder l (mid ++ base) <> Some t1 ->
  exists m2 m1, mid = m2 ++ Rel t1 l :: m1.
Proof.
  induction mid as [|e mid IH]; intros base W Hb Hn; cbn [app] in *; [congruence|].
  destruct (opt_nat_dec (holder l (mid ++ base)) (Some t1)) as [Heq|Hneq].
  - (* the newest event changed it *)
    destruct e as [t' l'|t' l'|t' f w]; cbn [holder wf] in *.
    + destruct W as [Hfree W]. destruct (String.eqb_spec l' l) as [->|Nl]; [congruence|]. congruence.
    + destruct W as [Hh W]. destruct (String.eqb_spec l' l) as [->|Nl].
      * assert (t' = t1) by congruence. subst. exists [], mid. reflexivity.
      * congruence.
    + congruence.
  - assert (W' : wf (mid ++ base)) by (destruct e; cbn [wf] in W; tauto).
    destruct (IH base W' Hb Hneq) as (m2 & m1 & ->). exists (e :: m2), m1. reflexivity.
Qed.

(* ... and another thread comes to hold it only by acquiring after that release *)
Lemma handover l t1 t2 mid : forall base, t1 <> t2 -> wf (mid ++ base) -> holder l base = Some t1 -> holder l (mid ++ base) = Some t2 ->
  exists m3 m2 m1, mid = m3 ++ Acq t2 l :: m2 ++ Rel t1 l :: m1.
Proof.
  induction mid as [|e mid IH]; intros base Ht W Hb He; cbn [app] in *; [congruence|].
  assert (W' : wf (mid ++ base)) by (destruct e; cbn [wf] in W; tauto).
  destruct (opt_nat_dec (holder l (mid ++ base)) (Some t2)) as [Heq|Hneq].
  - destruct (IH base Ht W' Hb Heq) as (m3 & m2 & m1 & ->). exists (e :: m3), m2, m1. reflexivity.
  - destruct e as [t' l'|t' l'|t' f w]; cbn [holder wf] in *.
    + destruct W as [Hfree _]. destruct (String.eqb_spec l' l) as [->|Nl]; [|congruence].
      assert (t' = t2) by congruence. subst t'.
      destruct (holder_changes l t1 mid base W' Hb) as (m2 & m1 & ->); [congruence|].
      exists [], m2, m1. reflexivity.
    + destruct (String.eqb_spec l' l); congruence.
    + congruence.
Qed.

(* THE ORDERING THEOREM: in a trace that obeys lock semantics and in which every access is made with its field's
   lock held, two accesses of one field by different threads are separated by a release of that lock by the earlier
   thread followed by an acquire by the later one (so they are ordered by happens-before: no data race) *)
Theorem accesses_ordered lk tr post mid pre t1 t2 f w1 w2 :
  wf tr -> bracketed lk tr = true ->
  tr = post ++ Acc t2 f w2 :: mid ++ Acc t1 f w1 :: pre -> t1 <> t2 ->
  exists l m3 m2 m1, lk f = Some l /\ mid = m3 ++ Acq t2 l :: m2 ++ Rel t1 l :: m1.
Proof.
  intros W B -> Ht.
  destruct (bracketed_split lk post t2 f w2 _ B) as (l & Hl & H2).
  assert (B1 : bracketed lk ((post ++ Acc t2 f w2 :: mid) ++ Acc t1 f w1 :: pre) = true).
  { rewrite <- app_assoc. cbn [app]. exact B. }
  destruct (bracketed_split lk _ t1 f w1 _ B1) as (l' & Hl' & H1). rewrite Hl in Hl'. inversion Hl'; subst l'.
  apply wf_app in W. cbn [wf] in W.
  assert (Hh2 := lheld_holder t2 l _ W H2).
  assert (Wp : wf pre). { apply wf_app in W. exact W. }
  assert (Hh1 := lheld_holder t1 l _ Wp H1).
  assert (Wm : wf (mid ++ Acc t1 f w1 :: pre)) by exact W.
  destruct (handover l t1 t2 mid (Acc t1 f w1 :: pre) Ht Wm) as (m3 & m2 & m1 & E); auto.
  exists l, m3, m2, m1. auto.
Qed.

(* ---- from the extracted table to bracketing *)
Lemma bracketed_app_held lk a b : bracketed lk a = true -> bracketed lk b = true ->
  (forall x t f w y, a = x ++ Acc t f w :: y -> exists l, lk f = Some l /\ lheld t l y = true) ->
  bracketed lk (a ++ b) = true.
Proof.
  induction a as [|e a IH]; intros Ha Hb Hx; cbn [app]; auto.
  destruct e as [t' l'|t' l'|t' f w]; cbn [bracketed] in *.
  - apply IH; auto. intros x t f w y ->. apply (Hx (Acq t' l' :: x) t f w y). reflexivity.
  - apply IH; auto. intros x t f w y ->. apply (Hx (Rel t' l' :: x) t f w y). reflexivity.
  - apply andb_true_iff in Ha. destruct Ha as [_ Ha]. apply andb_true_iff. split.
    + destruct (Hx [] t' f w a eq_refl) as (l & -> & Hl).
      clear -Hl. induction a as [|e a IH]; cbn [lheld app] in *; [discriminate|].
      destruct e as [t l'|t l'|t f w]; auto; destruct (Nat.eqb t t' && String.eqb l' l)%bool; auto.
    + apply IH; auto. intros x t f0 w0 y ->. apply (Hx (Acc t' f w :: x) t f0 w0 y). reflexivity.
Qed.

(* a self-contained segment: bracketed, and every access inside it has its lock acquired inside it *)
Definition closed_seg (lk : string -> option string) (a : list ev) : Prop :=
  bracketed lk a = true /\ forall x t f w y, a = x ++ Acc t f w :: y -> exists l, lk f = Some l /\ lheld t l y = true.

Lemma closed_nil lk : closed_seg lk [].
Proof. split; auto. intros [|? ?] ? ? ? ? H; discriminate. Qed.

Lemma lheld_app_true t l y b : lheld t l y = true -> lheld t l (y ++ b) = true.
Proof.
  induction y as [|e y IH]; cbn [lheld app]; [discriminate|].
  destruct e as [t' l'|t' l'|t' f w]; auto; destruct (Nat.eqb t' t && String.eqb l' l)%bool; auto.
Qed.

Lemma closed_app lk a b : closed_seg lk a -> closed_seg lk b -> closed_seg lk (a ++ b).
Proof.
  intros [Ha Hax] [Hb Hbx]. split.
  - apply bracketed_app_held; auto.
  - intros x t f w y E.
    (* the access is in a or in b *)
    revert x E. induction a as [|e a IH] in Ha, Hax |- *; intros x E; cbn [app] in E.
    + apply (Hbx x t f w y E).
    + destruct x as [|e' x]; cbn [app] in E.
      * inversion E; subst. destruct (Hax [] t f w a eq_refl) as (l & Hl & Hh). exists l. split; auto. apply lheld_app_true; auto.
      * inversion E; subst e'. 
        assert (Ha' : bracketed lk a = true).
        { destruct e; cbn [bracketed] in Ha; auto. apply andb_true_iff in Ha. tauto. }
        apply (IH Ha') with (x := x); auto.
        intros x0 t0 f0 w0 y0 ->. apply (Hax (e :: x0) t0 f0 w0 y0). reflexivity.
Qed.

Lemma closed_concat lk (segs : list (list ev)) : (forall s, In s segs -> closed_seg lk s) -> closed_seg lk (List.concat segs).
Proof.
  induction segs as [|s segs IH]; intros H; cbn [List.concat]; [apply closed_nil|].
  apply closed_app; [apply H; left; auto | apply IH; intros s' Hs; apply H; right; auto].
Qed.

Lemma row_events_closed tbl t r : In r tbl -> table_ok tbl = true -> closed_seg (lock_of tbl) (row_events t r).
Proof.
  intros Hin Hok. unfold table_ok in Hok. rewrite forallb_forall in Hok. specialize (Hok r Hin).
  unfold row_events. destruct (row_guard r) as [l| | | |] eqn:G; try apply closed_nil.
  assert (Hl : lock_of tbl (row_field r) = Some l).
  { destruct (lock_of tbl (row_field r)) as [l0|]; cbn [opt_str_eqb] in Hok; [|discriminate].
    apply String.eqb_eq in Hok. congruence. }
  split.
  - cbn [bracketed lheld]. rewrite Hl. rewrite Nat.eqb_refl, String.eqb_refl. reflexivity.
  - intros x t0 f w y E.
    destruct x as [|e1 x]; cbn [app] in E; [discriminate|]. inversion E as [[E1 E2]]. clear E.
    destruct x as [|e2 x]; cbn [app] in E2.
    + inversion E2; subst. exists l. split; auto. cbn [lheld]. rewrite Nat.eqb_refl, String.eqb_refl. reflexivity.
    + inversion E2 as [[E3 E4]]. destruct x as [|e3 x]; cbn [app] in E4; [discriminate|].
      inversion E4 as [[E5 E6]]. destruct x; discriminate.
Qed.

Lemma thread_trace_closed tbl t calls : table_ok tbl = true -> closed_seg (lock_of tbl) (thread_trace tbl t calls).
Proof.
  intros Hok. unfold thread_trace. apply closed_concat. intros s Hs. apply in_map_iff in Hs. destruct Hs as (fn & <- & _).
  unfold call_events. apply closed_concat. intros s Hs. apply in_map_iff in Hs. destruct Hs as (r & <- & Hr).
  apply filter_In in Hr. apply row_events_closed; tauto.
Qed.

(* THE DISCIPLINE THEOREM: threads that only ever do what the extracted table says their calls do (acquire - access -
   release for every mutex-ordered access), interleaved in ANY way the locks allow, never make two accesses of one
   field that are not ordered by a release/acquire pair of that field's lock *)
Theorem table_discipline_no_race tbl (calls : nat -> list string) tr :
  table_ok tbl = true ->
  (forall t, proj t tr = thread_trace tbl t (calls t)) ->
  wf tr ->
  forall post mid pre t1 t2 f w1 w2,
    tr = post ++ Acc t2 f w2 :: mid ++ Acc t1 f w1 :: pre -> t1 <> t2 ->
    exists l m3 m2 m1, lock_of tbl f = Some l /\ mid = m3 ++ Acq t2 l :: m2 ++ Rel t1 l :: m1.
Proof.
  intros Hok Hproj W post mid pre t1 t2 f w1 w2 E Ht.
  apply (accesses_ordered (lock_of tbl) tr post mid pre t1 t2 f w1 w2); auto.
  apply bracketed_of_threads. intros t. rewrite Hproj. apply (thread_trace_closed tbl t (calls t) Hok).
Qed.

(* ---- schedules made of whole calls *)
Lemma atomic_calls_are_incs threads : List.concat (map (nextid_events true) threads) = map IInc threads.
Proof. induction threads as [|t r IH]; cbn [map List.concat nextid_events app]; [reflexivity|]. rewrite IH. reflexivity. Qed.

Theorem nextid_calls_distinct (atomic : bool) threads s0 : atomic = true ->
  Z.of_nat (List.length threads) <= 4294967296 ->
  NoDup (ids_of s0 (List.concat (map (nextid_events atomic) threads))).
Proof.
  intros -> Hn. rewrite atomic_calls_are_incs. apply nextid_distinct.
  - clear Hn. induction threads as [|t r IH]; cbn [map forallb is_inc andb]; auto.
  - rewrite map_length. exact Hn.
Qed.

Lemma guarded_calls_are_dos threads : List.concat (map (close_events true) threads) = map CDo threads.
Proof. induction threads as [|t r IH]; cbn [map List.concat close_events app]; [reflexivity|]. rewrite IH. reflexivity. Qed.

Theorem close_calls_once (guarded : bool) threads : guarded = true ->
  let s := cl_run (List.concat (map (close_events guarded) threads)) in
  c_panics s = 0%nat /\ c_closes s = (match threads with [] => 0%nat | _ => 1%nat end).
Proof.
  intros ->. cbn zeta. rewrite guarded_calls_are_dos.
  destruct (close_once (map CDo threads)) as [A B].
  - induction threads as [|t r IH]; cbn [map forallb is_do andb]; auto.
  - split; auto. rewrite B. destruct threads; reflexivity.
Qed.

(* ================================================================== 4. lock order *)
(* the code's discipline, as extracted: a goroutine that waits for w while holding h does so along an edge *)
Definition follows (edges : list (string * string)) (st : wstate) : Prop :=
  forall t h w, In h (w_holds st t) -> w_waits st t = Some w -> edge_in edges h w = true.

(* a chain: each thread waits for a lock the next one holds *)
Fixpoint chained (st : wstate) (c : list (nat * string)) : Prop :=
  match c with
  | [] => True
  | [(t, l)] => w_waits st t = Some l
  | (t, l) :: (((t', l') :: _) as rest) => w_waits st t = Some l /\ In l (w_holds st t') /\ chained st rest
  end.

(* a deadlock: a non-empty chain whose last lock is held by the first thread *)
Definition deadlock (st : wstate) (c : list (nat * string)) : Prop :=
  match c with
  | [] => False
  | (t0, _) :: _ => chained st c /\ In (snd (last c (0%nat, EmptyString))) (w_holds st t0)
  end.

Section Order.
Variable edges : list (string * string).
Variable ranks : list (string * nat).
Hypothesis Hok : ranks_ok edges ranks = true.

Lemma edge_rank h w : edge_in edges h w = true -> exists a b, rank_of ranks h = Some a /\ rank_of ranks w = Some b /\ (a < b)%nat.
Proof.
  unfold edge_in. intros H. apply existsb_exists in H. destruct H as ([h' w'] & Hin & E). cbn [fst snd] in E.
  apply andb_true_iff in E. destruct E as [E1 E2]. apply String.eqb_eq in E1, E2. subst.
  unfold ranks_ok in Hok. rewrite forallb_forall in Hok. specialize (Hok _ Hin). cbn [fst snd] in Hok.
  destruct (rank_of ranks h) as [a|]; [|discriminate]. destruct (rank_of ranks w) as [b|]; [|discriminate].
  apply Nat.ltb_lt in Hok. eauto.
Qed.

(* along a chain the ranks of the awaited locks increase *)
Lemma chain_ranks st : follows edges st -> forall c t l, chained st ((t, l) :: c) ->
  forall rl, rank_of ranks l = Some rl ->
  exists rz, rank_of ranks (snd (last ((t, l) :: c) (0%nat, EmptyString))) = Some rz /\ (rl <= rz)%nat.
Proof.
  intros Hf c. induction c as [|[t' l'] c IH]; intros t l Hc rl Hr.
  - cbn [last snd]. exists rl. split; auto.
  - cbn [chained] in Hc. destruct Hc as (Hw & Hin & Hrest).
    assert (Hw' : w_waits st t' = Some l').
    { destruct c as [|[t2 l2] c2]; cbn [chained] in Hrest; [exact Hrest|tauto]. }
    destruct (edge_rank l l' (Hf t' l l' Hin Hw')) as (a & b & Ea & Eb & Hlt).
    rewrite Hr in Ea. inversion Ea; subst a.
    destruct (IH t' l' Hrest b Eb) as (rz & Ez & Hle).
    exists rz. split; [|lia].
    change (last ((t, l) :: (t', l') :: c) (0%nat, EmptyString)) with (last ((t', l') :: c) (0%nat, EmptyString)). exact Ez.
Qed.

(* DEADLOCK FREEDOM w.r.t. the mutexes: if every wait-while-holding follows an edge and the edges allow the numbering,
   no set of goroutines waits for each other's mutexes in a cycle (a cycle of length one is a double lock) *)
Theorem no_lock_cycle st c : follows edges st -> ~ deadlock st c.
Proof.
  intros Hf Hd. destruct c as [|[t0 l0] c]; [exact Hd|]. destruct Hd as [Hc Hlast].
  assert (Hw0 : w_waits st t0 = Some l0).
  { destruct c as [|[t2 l2] c2]; cbn [chained] in Hc; [exact Hc|tauto]. }
  set (lz := snd (last ((t0, l0) :: c) (0%nat, EmptyString))) in *.
  destruct (edge_rank lz l0 (Hf t0 lz l0 Hlast Hw0)) as (a & b & Ea & Eb & Hlt).
  destruct (chain_ranks st Hf c t0 l0 Hc b Eb) as (rz & Ez & Hle).
  fold lz in Ez. rewrite Ea in Ez. inversion Ez; subst. lia.
Qed.
End Order.

(* ---- the allocated ids as broker ids (N): every id is a uint32 value, so the passage to N keeps them distinct *)
Lemma id_step_out_range s e :
  Forall (fun v => 0 <= v) (i_out s) -> Forall (fun v => 0 <= v) (i_out (id_step s e)).
Proof.
  intros H. destruct e as [t|t|t]; cbn [id_step i_out]; auto.
  - apply Forall_app. split; [exact H|]. constructor; [|constructor]. unfold wrap32. apply Z.mod_pos_bound. lia.
  - destruct (lookup_nat t (i_local s)); cbn [i_out]; auto.
    apply Forall_app. split; [exact H|]. constructor; [|constructor]. unfold wrap32. apply Z.mod_pos_bound. lia.
Qed.

Lemma ids_of_nonneg s0 sched : Forall (fun v => 0 <= v) (ids_of s0 sched).
Proof.
  unfold ids_of.
  assert (G : forall sch s, Forall (fun v => 0 <= v) (i_out s) -> Forall (fun v => 0 <= v) (i_out (fold_left id_step sch s))).
  { induction sch as [|e sch IH]; intros s H; cbn [fold_left]; [exact H|]. apply IH. apply id_step_out_range. exact H. }
  apply G. constructor.
Qed.

Lemma nodup_map_on {A B} (f : A -> B) (l : list A) :
  NoDup l -> (forall x y, In x l -> In y l -> f x = f y -> x = y) -> NoDup (map f l).
Proof.
  induction l as [|a l IH]; intros Hnd Hinj; cbn; [constructor|].
  inversion Hnd as [|? ? Hna Hnd']; subst. constructor.
  - intros Hin. apply in_map_iff in Hin. destruct Hin as (x & Hfx & Hx).
    apply Hna. rewrite (Hinj a x (or_introl eq_refl) (or_intror Hx) (eq_sym Hfx)). exact Hx.
  - apply IH; [exact Hnd'|]. intros x y Hx Hy. apply Hinj; right; assumption.
Qed.

Theorem nextid_calls_distinct_N atomic (calls : list nat) (counter : Z) :
  atomic = true -> (Z.of_nat (List.length calls) <= 4294967296)%Z ->
  NoDup (map Z.to_N (ids_of counter (List.concat (map (nextid_events atomic) calls)))).
Proof.
  intros Ha Hn. apply nodup_map_on.
  - exact (nextid_calls_distinct atomic calls counter Ha Hn).
  - pose proof (ids_of_nonneg counter (List.concat (map (nextid_events atomic) calls))) as Hpos.
    rewrite Forall_forall in Hpos. intros x y Hx Hy E.
    apply Hpos in Hx. apply Hpos in Hy. apply (f_equal Z.of_N) in E. rewrite !Z2N.id in E by assumption. exact E.
Qed.
