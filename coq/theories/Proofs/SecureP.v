From Coq Require Import List NArith ZArith Bool Lia.
From GP Require Import Base.Val Base.Bytes Model.Secure.
Import ListNotations.

Lemma bytes_eqb_eq a b : bytes_eqb a b = true <-> a = b.
Proof.
  revert b; induction a as [|x a IH]; intros [|y b]; simpl; try (split; congruence).
  rewrite andb_true_iff, N.eqb_eq, IH. split; [intros [-> ->]; reflexivity | intros H; inversion H; auto].
Qed.

Lemma xor_fold_zero a : forall b acc, length a = length b ->
  (xor_fold a b acc = 0%N <-> acc = 0%N /\ a = b).
Proof.
  induction a as [|x a IH]; intros [|y b] acc Hl; simpl in *; try discriminate.
  - split; [auto | tauto].
  - rewrite IH by lia. rewrite N.lor_eq_0_iff. split.
    + intros [[Ha Hx] ->]. apply N.lxor_eq in Hx. subst. auto.
    + intros [Ha H]. inversion H; subst. rewrite N.lxor_nilpotent. auto.
Qed.

Theorem ct_compare_eq a b : ct_compare a b = true <-> a = b.
Proof.
  unfold ct_compare. destruct (Nat.eqb_spec (length a) (length b)) as [Hl|Hl].
  - rewrite N.eqb_eq, xor_fold_zero by exact Hl. tauto.
  - split; [discriminate | intros ->; contradiction].
Qed.

Lemma ct_compare_false a b : ct_compare a b = false <-> a <> b.
Proof. rewrite <- ct_compare_eq. destruct (ct_compare a b); split; congruence. Qed.

(* the launch happens iff the digest equals the non-empty checksum *)
Theorem launch_iff cks hp f :
  launched (start_secure cks hp f) = true <->
  (cks <> [] /\ hp = true /\ f = FileDigest cks).
Proof.
  unfold start_secure, check, launched. destruct cks as [|c cks]; simpl.
  - split; [discriminate | intros [H _]; congruence].
  - destruct hp; simpl; [|split; [discriminate|intros (_ & H & _); discriminate]].
    destruct f as [|d]; simpl; [split; [discriminate|intros (_ & _ & H); discriminate]|].
    destruct (ct_compare d (c :: cks)) eqn:E; simpl.
    + apply ct_compare_eq in E. subst. split; auto. intros _. split; [discriminate|auto].
    + apply ct_compare_false in E. split; [discriminate|]. intros (_ & _ & H). inversion H; subst. contradiction.
Qed.

(* classes in every other case, and no launch effect *)
Theorem no_launch_classes cks hp f :
  let r := start_secure cks hp f in
  (cks = [] -> fst r = StErrVerify CkNoChecksum /\ launched r = false) /\
  (cks <> [] -> hp = false -> fst r = StErrVerify CkNoHash /\ launched r = false) /\
  (cks <> [] -> hp = true -> f = FileErr -> fst r = StErrVerify CkIOErr /\ launched r = false) /\
  (forall d, cks <> [] -> hp = true -> f = FileDigest d -> d <> cks ->
     fst r = StErrMismatch /\ launched r = false).
Proof.
  unfold start_secure, check, launched; simpl. repeat split; intros; subst; simpl; auto;
    try (destruct cks; [contradiction|]; simpl; auto).
  - match goal with H : _ <> _ |- _ => apply ct_compare_false in H; rewrite H end. reflexivity.
  - match goal with H : _ <> _ |- _ => apply ct_compare_false in H; rewrite H end. reflexivity.
Qed.

(* The check effect always precedes the launch effect (check before runner creation). *)
Theorem check_before_launch cks hp f :
  match snd (start_secure cks hp f) with
  | [EfCheck] | [EfCheck; EfLaunch] => True
  | _ => False
  end.
Proof. unfold start_secure. destruct (check cks hp f); simpl; exact I. Qed.

(* corollaries for the families named in the property's quantifier *)
Corollary prefix_rejected d p c rest : d = p ++ c :: rest -> p <> [] ->
  launched (start_secure p true (FileDigest d)) = false.
Proof.
  intros -> Hp. destruct (launched _) eqn:E; auto. apply launch_iff in E.
  destruct E as (_ & _ & H). inversion H as [H1].
  assert (length (p ++ c :: rest) = length p) by (rewrite H1; reflexivity).
  rewrite app_length in *. simpl in *. lia.
Qed.

Corollary extension_rejected d x xs :
  launched (start_secure (d ++ x :: xs) true (FileDigest d)) = false.
Proof.
  destruct (launched _) eqn:E; auto. apply launch_iff in E.
  destruct E as (_ & _ & H). inversion H as [H1].
  assert (length d = length (d ++ x :: xs)) by (rewrite <- H1; reflexivity).
  rewrite app_length in *. simpl in *. lia.
Qed.

Fixpoint flip_mask (i : nat) (m : N) (l : bytes) : bytes :=
  match l, i with
  | [], _ => []
  | x :: r, O => N.lxor x m :: r
  | x :: r, S j => x :: flip_mask j m r
  end.
Definition flip_bit (i : nat) (bit : N) (l : bytes) : bytes := flip_mask i (N.shiftl 1 bit) l.

Lemma flip_mask_neq l : forall i m, m <> 0%N -> i < length l -> flip_mask i m l <> l.
Proof.
  induction l as [|x r IH]; intros [|i] m Hm Hi; cbn [flip_mask length] in *; try lia.
  - intros H. inversion H as [H1].
    assert (E : N.lxor (N.lxor x m) x = 0%N) by (rewrite H1; apply N.lxor_nilpotent).
    rewrite N.lxor_comm, <- N.lxor_assoc, N.lxor_nilpotent, N.lxor_0_l in E. contradiction.
  - intros H. inversion H as [H1]. apply (IH i m); [auto|lia|auto].
Qed.

Corollary bitflip_rejected d i bit : i < length d ->
  launched (start_secure (flip_bit i bit d) true (FileDigest d)) = false.
Proof.
  intros Hi. destruct (launched _) eqn:E; auto. apply launch_iff in E.
  destruct E as (_ & _ & H). inversion H as [H1]. symmetry in H1.
  exfalso. revert H1. apply flip_mask_neq; [|exact Hi].
  intros H0. apply N.shiftl_eq_0_iff in H0. discriminate.
Qed.

(* the oracle used by the correspondence check accepts every model observation *)
Theorem oracle_accepts_model inp m :
  obs_secure inp = Some m -> oracle_secure inp m = Some true.
Proof.
  unfold obs_secure, oracle_secure.
  destruct inp as [| |[|[z|cks|] [|hp [|fok [|[z2|dig|] [|]]]]]]; try discriminate.
  unfold obind. destruct (dbool hp) as [h|] eqn:Eh; [|discriminate].
  destruct (dbool fok) as [fk|] eqn:Ef; [|discriminate].
  intros H; inversion H; subst; clear H.
  unfold dbool, vbool.
  set (r := start_secure cks h (if fk then FileDigest dig else FileErr)).
  assert (L : launched r = true <-> (cks <> [] /\ h = true /\ (if fk then FileDigest dig else FileErr) = FileDigest cks))
    by apply launch_iff.
  assert (C : Z.eqb (class_code (fst r)) 0 = launched r).
  { unfold r, start_secure. destruct (check cks h _) eqn:Ec; reflexivity. }
  rewrite C.
  destruct (launched r) eqn:El; simpl.
  - destruct L as [L _]. destruct (L eq_refl) as (A & -> & B). destruct fk; [|discriminate].
    inversion B; subst. simpl.
    assert (bytes_eqb cks cks = true) by (apply bytes_eqb_eq; reflexivity).
    rewrite H. destruct cks; [contradiction|]. reflexivity.
  - f_equal. rewrite andb_true_r.
    destruct h; simpl; auto. destruct fk; simpl; auto.
    destruct (bytes_eqb dig cks) eqn:Eb; simpl; auto. apply bytes_eqb_eq in Eb. subst.
    destruct cks as [|c k]; simpl; auto.
    destruct L as [_ L]. assert (X : false = true) by (apply L; repeat split; congruence). discriminate.
Qed.
