From Coq Require Import List NArith ZArith Bool Lia.
From GP Require Import Base.Val Base.Bytes Base.GoStrings Model.Stderr.
Import ListNotations.

(* ---------- small list facts *)
Definition no10 (l : bytes) : Prop := Forall (fun c => c <> 10%N) l.

Lemma frev_app {A} (a b : list A) : frev (a ++ b) = frev b ++ frev a.
Proof. rewrite !frev_rev. apply rev_app_distr. Qed.
Lemma frev_cons {A} (x : A) l : frev (x :: l) = frev l ++ [x].
Proof. rewrite !frev_rev. reflexivity. Qed.
Lemma frev_invol {A} (l : list A) : frev (frev l) = l.
Proof. rewrite !frev_rev. apply rev_involutive. Qed.

Definition ends_cr (l : bytes) : Prop := exists l', l = l' ++ [13%N].

Lemma last_is_cr_spec l : last_is_cr l = true <-> ends_cr l.
Proof.
  unfold last_is_cr, ends_cr. destruct (frev l) as [|c r] eqn:E.
  - split; [discriminate|]. intros [l' ->]. rewrite frev_app in E. discriminate.
  - assert (L : l = frev r ++ [c]) by (rewrite <- (frev_invol l), E, frev_cons; reflexivity).
    rewrite N.eqb_eq. split.
    + intros ->. eauto.
    + intros [l' Hl]. rewrite L in Hl. apply app_inj_tail in Hl. tauto.
Qed.

Lemma strip_cr_snoc l : strip_cr (l ++ [13%N]) = l.
Proof.
  unfold strip_cr. assert (H : last_is_cr (l ++ [13%N]) = true) by (apply last_is_cr_spec; exists l; reflexivity).
  rewrite H, frev_app. cbn [frev rev_append app tl]. apply frev_invol.
Qed.

Lemma strip_cr_not_cr l : ~ ends_cr l -> strip_cr l = l.
Proof.
  intros H. unfold strip_cr. destruct (last_is_cr l) eqn:E; auto. apply last_is_cr_spec in E. contradiction.
Qed.

Lemma ends_cr_dec l : ends_cr l \/ ~ ends_cr l.
Proof. destruct (last_is_cr l) eqn:E; [left; apply last_is_cr_spec; auto|right; intros H; apply last_is_cr_spec in H; congruence]. Qed.

(* ---------- normalize over concatenation *)
Lemma normalize_cons_not_crlf c r :
  (c <> 13%N \/ starts_lf r = false) -> normalize (c :: r) = c :: normalize r.
Proof.
  intros H. cbn [normalize]. destruct (N.eqb_spec c 13) as [->|Hc]; cbn [andb]; [|reflexivity].
  destruct H as [H|H]; [congruence|]. rewrite H. reflexivity.
Qed.

Lemma normalize_app a : forall b, no10 a ->
  (~ ends_cr a \/ starts_lf b = false) ->
  normalize (a ++ b) = a ++ normalize b.
Proof.
  induction a as [|c a IH]; intros b Hn Hb; [reflexivity|].
  inversion Hn as [|? ? Hc Hn']; subst. cbn [app].
  rewrite normalize_cons_not_crlf.
  - f_equal. apply IH; auto. destruct Hb as [Hb|Hb]; [left|right; auto].
    intros [l' ->]. apply Hb. exists (c :: l'). reflexivity.
  - destruct a as [|d a'].
    + cbn [app]. destruct (N.eq_dec c 13) as [->|?]; [|left; auto]. right.
      destruct Hb as [Hb|Hb]; [exfalso; apply Hb; exists []; reflexivity|exact Hb].
    + right. cbn [app starts_lf]. inversion Hn' as [|? ? Hd _]; subst.
      apply N.eqb_neq. exact Hd.
Qed.

Lemma normalize_line l rest : no10 l ->
  normalize (l ++ 10%N :: rest) = strip_cr l ++ 10%N :: normalize rest.
Proof.
  intros Hn. destruct (ends_cr_dec l) as [[l' ->]|H].
  - rewrite strip_cr_snoc, <- app_assoc. cbn [app].
    assert (Hn' : no10 l') by (apply Forall_app in Hn; tauto).
    rewrite normalize_app; [|exact Hn'|right; reflexivity]. reflexivity.
  - rewrite strip_cr_not_cr by exact H. rewrite normalize_app; [|exact Hn|left; exact H].
    rewrite normalize_cons_not_crlf by (left; discriminate). reflexivity.
Qed.

(* ---------- lines over concatenation *)
Lemma lines_acc_app a : forall b cur, no10 a -> lines_acc (a ++ b) cur = lines_acc b (rev a ++ cur).
Proof.
  induction a as [|c a IH]; intros b cur Hn; [reflexivity|].
  inversion Hn as [|? ? Hc Hn']; subst. cbn [app lines_acc].
  destruct (N.eqb_spec c 10); [congruence|]. rewrite IH by exact Hn'. cbn [rev]. rewrite <- app_assoc. reflexivity.
Qed.
Lemma lines_acc_nl r cur : lines_acc (10%N :: r) cur = frev cur :: lines_acc r [].
Proof. reflexivity. Qed.

(* ---------- read_line against the stream *)
Lemma find_nl_some n : forall s acc l rest, find_nl n s acc = Some (l, rest) ->
  exists l', l = frev acc ++ l' /\ s = l' ++ 10%N :: rest /\ no10 l' /\ (length l' < n)%nat.
Proof.
  induction n as [|n IH]; intros s acc l rest H; [discriminate|].
  destruct s as [|c r]; [discriminate|]. cbn [find_nl] in H.
  destruct (N.eqb_spec c 10) as [->|Hc].
  - inversion H; subst. exists []. rewrite app_nil_r. repeat split; [constructor|cbn; lia].
  - apply IH in H. destruct H as (l' & -> & -> & Hn & Hl). exists (c :: l').
    rewrite frev_cons, <- app_assoc. repeat split; [constructor; auto|cbn; lia].
Qed.
Lemma find_nl_none n : forall s acc, find_nl n s acc = None -> no10 (firstn n s).
Proof.
  induction n as [|n IH]; intros s acc H; [constructor|].
  destruct s as [|c r]; [constructor|]. cbn [find_nl] in H.
  destruct (N.eqb_spec c 10) as [->|Hc]; [discriminate|].
  cbn [firstn]. constructor; [exact Hc|eapply IH; eauto].
Qed.

(* ---------- the writes of the loop *)
Fixpoint copy_w (fuel n : nat) (s : bytes) : bytes :=
  match fuel with
  | O => []
  | S f => match read_line n s with
           | RlEof => []
           | RlLine chunk pre rest => chunk ++ (if pre then [] else [10%N]) ++ copy_w f n rest
           end
  end.

Lemma writes_of_app a b : writes_of (a ++ b) = writes_of a ++ writes_of b.
Proof. unfold writes_of. apply flat_map_app. Qed.
Lemma panics_app a b : panics (a ++ b) = panics a || panics b.
Proof. unfold panics. apply existsb_app. Qed.

Lemma classify_writes P line o p : writes_of (fst (classify P line o p)) = [].
Proof.
  unfold classify. destruct o as [[d ts_ok] ts]. destruct (parse_json P d ts_ok); cbn; auto.
  - destruct (text_level P line p); reflexivity.
  - destruct (level_from_string lvl); reflexivity.
Qed.

Lemma writes_of_write b l : writes_of (OWrite b :: l) = b ++ writes_of l.
Proof. reflexivity. Qed.
Lemma writes_of_record r l : writes_of (ORecord r :: l) = writes_of l.
Proof. reflexivity. Qed.
Lemma panics_write b l : panics (OWrite b :: l) = panics l.
Proof. reflexivity. Qed.
Lemma panics_record r l : panics (ORecord r :: l) = panics l.
Proof. reflexivity. Qed.

Lemma log_stderr_writes fuel : forall P n s orc cont pn,
  panics (log_stderr fuel P n s orc cont pn) = false ->
  writes_of (log_stderr fuel P n s orc cont pn) = copy_w fuel n s.
Proof.
  induction fuel as [|f IH]; intros P n s orc cont pn Hp; [reflexivity|].
  cbn [log_stderr copy_w] in *. destruct (read_line n s) as [|chunk pre rest]; [reflexivity|].
  destruct (pre || cont) eqn:E.
  - rewrite panics_write, panics_record, panics_app in Hp.
    apply orb_false_iff in Hp. destruct Hp as [_ Hp].
    rewrite writes_of_write, writes_of_record, writes_of_app, (IH _ _ _ _ _ _ Hp).
    destruct pre; reflexivity.
  - apply orb_false_iff in E. destruct E as [-> ->].
    pose proof (classify_writes P chunk (match orc with o :: _ => o | [] => (NotJSON, false, []) end) pn) as W.
    destruct (classify P chunk _ pn) as [evs pn'] eqn:EC. cbn [fst] in W.
    rewrite !panics_write, panics_app in Hp. apply orb_false_iff in Hp. destruct Hp as [Hp1 Hp2].
    fold (panics evs) in Hp2. fold (panics evs). rewrite Hp1 in *.
    rewrite !writes_of_write, writes_of_app, W, (IH _ _ _ _ _ _ Hp2). reflexivity.
Qed.

(* ---------- no panic when the string assertions are checked *)
Lemma parse_json_no_panic P d ts : sp_checked_assertions P = true -> parse_json P d ts <> PjPanic.
Proof.
  intros H. unfold parse_json. rewrite H. destruct d as [|kvs]; [discriminate|].
  destruct (jget _ kvs) as [[m|?]|]; try discriminate;
  match goal with |- context [jget ?k ?l] => destruct (jget k l) as [[?|?]|] end; try discriminate;
  match goal with |- context [jget ?k ?l] => destruct (jget k l) as [[?|?]|] end; try discriminate;
  destruct ts; discriminate.
Qed.

Lemma classify_no_panic P line o p : sp_checked_assertions P = true -> panics (fst (classify P line o p)) = false.
Proof.
  intros H. unfold classify. destruct o as [[d ts_ok] ts].
  pose proof (parse_json_no_panic P d ts_ok H) as NP.
  destruct (parse_json P d ts_ok); [congruence| |].
  - destruct (text_level P line p); reflexivity.
  - destruct (level_from_string lvl); reflexivity.
Qed.

Lemma log_stderr_no_panic fuel : forall P n s orc cont pn,
  sp_checked_assertions P = true -> panics (log_stderr fuel P n s orc cont pn) = false.
Proof.
  induction fuel as [|f IH]; intros P n s orc cont pn H; [reflexivity|].
  cbn [log_stderr]. destruct (read_line n s) as [|chunk pre rest]; [reflexivity|].
  destruct (pre || cont).
  - rewrite panics_write, panics_record, panics_app, IH by exact H. destruct pre; reflexivity.
  - pose proof (classify_no_panic P chunk (match orc with o :: _ => o | [] => (NotJSON, false, []) end) pn H) as C.
    destruct (classify P chunk _ pn) as [evs pn'] eqn:EC. cbn [fst] in C.
    rewrite !panics_write, panics_app. fold (panics evs). rewrite C. cbn [orb]. apply IH; exact H.
Qed.

(* ---------- the copy is faithful *)
Lemma firstn_snoc {A} (s : list A) n : (S n <= length s)%nat ->
  exists x, firstn (S n) s = firstn n s ++ [x] /\ skipn n s = x :: skipn (S n) s.
Proof.
  revert n; induction s as [|a s IH]; intros n H; cbn [length] in H; [lia|].
  destruct n as [|n].
  - exists a. split; reflexivity.
  - destruct (IH n) as [x [E1 E2]]; [lia|]. exists x. split.
    + change (firstn (S (S n)) (a :: s)) with (a :: firstn (S n) s). rewrite E1. reflexivity.
    + exact E2.
Qed.

Lemma no10_app a b : no10 (a ++ b) <-> no10 a /\ no10 b.
Proof. apply Forall_app. Qed.

Lemma no10_strip_cr l : no10 l -> no10 (strip_cr l).
Proof.
  intros H. destruct (ends_cr_dec l) as [[l' ->]|N].
  - rewrite strip_cr_snoc. apply no10_app in H. tauto.
  - rewrite strip_cr_not_cr; auto.
Qed.

Lemma lines_acc_nonempty_end cur : cur <> [] -> lines_acc [] cur = [frev cur].
Proof. destruct cur; [congruence|reflexivity]. Qed.

Theorem copy_faithful_acc n : (2 <= n)%nat -> forall fuel s cur, (length s < fuel)%nat ->
  lines_acc (copy_w fuel n s) cur = lines_acc (normalize s) cur.
Proof.
  intros Hn fuel. induction fuel as [|f IH]; intros s cur Hf; [lia|].
  cbn [copy_w]. unfold read_line. destruct s as [|c0 s0] eqn:Es; [reflexivity|]. rewrite <- Es in *.
  assert (Hne : s <> []) by (rewrite Es; discriminate).
  destruct (find_nl n s []) as [[l rest]|] eqn:EF.
  - (* a complete line within the buffer *)
    apply find_nl_some in EF. destruct EF as (l' & -> & E & Hno & _). cbn [frev rev_append app].
    rewrite E. rewrite normalize_line by exact Hno.
    rewrite !lines_acc_app by (apply no10_strip_cr; exact Hno). rewrite !lines_acc_nl. f_equal.
    apply IH. rewrite E, app_length in Hf. cbn [length] in Hf. lia.
  - pose proof (find_nl_none _ _ _ EF) as Hfull.
    destruct (Nat.leb_spec n (length s)) as [Hlen|Hlen].
    + (* buffer full without a newline: a prefix chunk *)
      destruct (last_is_cr (firstn n s)) eqn:ELC.
      * destruct n as [|n']; [lia|]. destruct (firstn_snoc s n' Hlen) as [x [E1 E2]].
        apply last_is_cr_spec in ELC. destruct ELC as [l' EL]. rewrite E1 in EL. apply app_inj_tail in EL. destruct EL as [_ ->].
        replace (S n' - 1)%nat with n' by lia.
        assert (Hc : no10 (firstn n' s)) by (rewrite E1 in Hfull; apply no10_app in Hfull; tauto).
        rewrite <- (firstn_skipn n' s) at 3.
        rewrite normalize_app; [|exact Hc|right; rewrite E2; reflexivity].
        cbn [app]. rewrite !lines_acc_app by exact Hc. apply IH.
        rewrite skipn_length. lia.
      * assert (NC : ~ ends_cr (firstn n s)) by (intros H; apply last_is_cr_spec in H; congruence).
        rewrite <- (firstn_skipn n s) at 3.
        rewrite normalize_app; [|exact Hfull|left; exact NC].
        cbn [app]. rewrite !lines_acc_app by exact Hfull. apply IH. rewrite skipn_length. lia.
    + (* unterminated last line at EOF *)
      assert (Hs : no10 s) by (rewrite firstn_all2 in Hfull by lia; exact Hfull).
      assert (EN : normalize s = s).
      { rewrite <- (app_nil_r s) at 1. rewrite normalize_app; [apply app_nil_r|exact Hs|right; reflexivity]. }
      rewrite EN. cbn [app].
      assert (C0 : copy_w f n [] = []) by (destruct f; reflexivity). rewrite C0.
      rewrite lines_acc_app by exact Hs. rewrite lines_acc_nl. cbn [lines_acc].
      pose proof (lines_acc_app s [] cur Hs) as LA. rewrite app_nil_r in LA. rewrite LA.
      rewrite lines_acc_nonempty_end; [reflexivity|].
      intros H. apply app_eq_nil in H. destruct H as [H _]. apply (f_equal (@rev N)) in H. rewrite rev_involutive in H. cbn in H. congruence.
Qed.

(* for every byte string, every buffer size (>= 2; bufio makes it >= 16), whatever the oracle answers:
   the bytes forwarded to ClientConfig.Stderr have exactly the input's lines, in order *)
Theorem copy_faithful P n s orc :
  sp_checked_assertions P = true -> (2 <= n)%nat ->
  lines (writes_of (log_stderr (S (length s)) P n s orc false false)) = lines (normalize s).
Proof.
  intros HP Hn. rewrite log_stderr_writes by (apply log_stderr_no_panic; exact HP).
  unfold lines. apply copy_faithful_acc; [exact Hn|lia].
Qed.

Lemma buf_size_ge default cfg : (16 <= buf_size default cfg)%nat.
Proof.
  unfold buf_size. destruct (Z.ltb_spec (if Z.eqb cfg 0 then Z.of_N default else cfg) 16); [lia|].
  apply Nat2Z.inj_le. rewrite Z2Nat.id by lia. cbn. lia.
Qed.

(* ---------- a line that fits in the buffer is delivered whole, as one non-prefix chunk *)
Lemma find_nl_complete l : forall n rest acc, no10 l -> (length l < n)%nat ->
  find_nl n (l ++ 10%N :: rest) acc = Some (frev acc ++ l, rest).
Proof.
  induction l as [|c l IH]; intros n rest acc Hn Hl.
  - destruct n; [cbn in Hl; lia|]. cbn. rewrite app_nil_r. reflexivity.
  - destruct n; [cbn in Hl; lia|]. inversion Hn as [|? ? Hc Hn']; subst. cbn [app find_nl].
    destruct (N.eqb_spec c 10); [congruence|]. rewrite IH; [|exact Hn'|cbn in Hl; lia].
    rewrite frev_cons, <- app_assoc. reflexivity.
Qed.

Theorem read_line_fits n l rest : no10 l -> (length l < n)%nat ->
  read_line n (l ++ 10%N :: rest) = RlLine (strip_cr l) false rest.
Proof.
  intros Hn Hl. unfold read_line. rewrite find_nl_complete by assumption. cbn [frev rev_append app].
  destruct (l ++ 10%N :: rest) eqn:E; [destruct l; discriminate|reflexivity].
Qed.

Lemma classify_one_record P line o p : sp_checked_assertions P = true ->
  exists r, fst (classify P line o p) = [ORecord r].
Proof.
  intros H. unfold classify. destruct o as [[d ts_ok] ts].
  pose proof (parse_json_no_panic P d ts_ok H) as NP.
  destruct (parse_json P d ts_ok); [congruence| |].
  - destruct (text_level P line p); eexists; reflexivity.
  - destruct (level_from_string lvl); eexists; reflexivity.
Qed.

(* one record per line that fits (with its terminator) in the buffer, carrying classify's verdict *)
Theorem one_record_per_fitting_line f P n l rest o orc pn :
  sp_checked_assertions P = true -> no10 l -> (length l < n)%nat ->
  exists r, log_stderr (S f) P n (l ++ 10%N :: rest) (o :: orc) false pn =
            OWrite (strip_cr l) :: OWrite [10%N] :: ORecord r ::
            log_stderr f P n rest orc false (snd (classify P (strip_cr l) o pn)) /\
            fst (classify P (strip_cr l) o pn) = [ORecord r].
Proof.
  intros HP Hn Hl. destruct (classify_one_record P (strip_cr l) o pn HP) as [r Hr].
  exists r. split; [|exact Hr]. cbn [log_stderr]. rewrite read_line_fits by assumption. cbn [orb].
  destruct (classify P (strip_cr l) o pn) as [evs pn'] eqn:EC. cbn [fst snd] in *. subst evs. reflexivity.
Qed.

(* what classify says: hclog JSON with string fields -> its level, message and remaining pairs;
   anything else -> the text prefix table, debug by default, error inside a panic trace *)
Theorem classify_hclog P line msg lvl lv kvs has_ts d ts_ok ts p :
  parse_json P d ts_ok = PjEntry msg lvl has_ts kvs -> level_from_string lvl = Some lv ->
  classify P line (d, ts_ok, ts) p =
  ([ORecord {| r_level := lv; r_msg := msg; r_kvs := map (fun kv => (fst kv, jrepr (snd kv))) kvs; r_ts := ts |}], false).
Proof. intros H1 H2. unfold classify. rewrite H1, H2. reflexivity. Qed.

Theorem classify_text P line d ts_ok ts p :
  parse_json P d ts_ok = PjErr ->
  classify P line (d, ts_ok, ts) p =
  ([ORecord {| r_level := fst (text_level P line p); r_msg := line; r_kvs := []; r_ts := [] |}], snd (text_level P line p)).
Proof. intros H. unfold classify. rewrite H. destruct (text_level P line p); reflexivity. Qed.

Theorem classify_unknown_level P line msg lvl kvs has_ts d ts_ok ts p :
  parse_json P d ts_ok = PjEntry msg lvl has_ts kvs -> level_from_string lvl = None ->
  classify P line (d, ts_ok, ts) p = ([ORecord {| r_level := LDebug; r_msg := line; r_kvs := []; r_ts := [] |}], false).
Proof. intros H1 H2. unfold classify. rewrite H1, H2. reflexivity. Qed.

(* ---------- stdout after the handshake is always consumed completely *)
Theorem stdout_all_consumed P lens : sp_drains_after_scan_stop P = true ->
  stdout_consumed P lens = (fold_right N.add 0%N lens, true).
Proof.
  intros H. induction lens as [|l r IH]; [reflexivity|].
  cbn [stdout_consumed]. destruct (N.leb l scanner_limit).
  - rewrite IH. reflexivity.
  - rewrite H. reflexivity.
Qed.
