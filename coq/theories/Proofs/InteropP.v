From Coq Require Import List NArith ZArith Bool.
From GP Require Import Base.Val Model.Interop.
Import ListNotations.

(* the pair works exactly when it is compatible; every incompatibility is an error of the stated kind *)
Theorem works_iff_compatible h p : interop h p = Works <-> compatible h p = true.
Proof.
  destruct h as [an ag ht mx la], p as [w pt ml]. unfold interop, compatible, allowed, transport_ok; simpl.
  destruct la, an, ag, mx, w, ml, ht, pt; simpl; split; intros H; try reflexivity; try discriminate.
Qed.

Theorem mismatch_kinds h p :
  match interop h p with
  | Works => compatible h p = true
  | StartErr => h_launch h = LReattach /\ h_mux h = true \/ h_launch h <> LReattach /\ allowed h (p_wire p) = false
  | StartErrMuxUnsupported => h_mux h = true /\ p_wire p = WGrpc /\ p_mux p <> MuxNew /\ allowed h (p_wire p) = true
  | FirstUseErr => transport_ok h p = false
  end.
Proof.
  destruct h as [an ag ht mx la], p as [w pt ml]. unfold interop, compatible, allowed, transport_ok; simpl.
  destruct la, an, ag, mx, w, ml, ht, pt; simpl; auto; try (left; split; [reflexivity|reflexivity]);
    try (right; split; [discriminate|reflexivity]); repeat split; try discriminate; auto.
Qed.

(* the client never speaks a protocol outside its allowed list *)
Theorem works_protocol_allowed h p : h_launch h <> LReattach -> interop h p = Works -> allowed h (p_wire p) = true.
Proof.
  destruct h as [an ag ht mx la], p as [w pt ml]. unfold interop, allowed; simpl. intros Hl.
  destruct la; try congruence; destruct an, ag, w; simpl; try discriminate; auto.
Qed.
