From Coq Require Import List NArith Bool Lia PeanoNat.
From GP Require Import Model.MuxBroker.
Import ListNotations.

(* ---------- routing invariant ---------- *)
Definition pc_ok (s:st) (c:pc) : Prop :=
  match c with
  | AccWait n p => nth_error (owners s) p = Some n
  | AccAck n i => nth_error (hdrs s) i = Some n
  | Done (AccOk n i) => nth_error (hdrs s) i = Some n /\ nth_error (acks s) i = Some (Some n)
  | Done (DialOk n i) => nth_error (acks s) i = Some (Some n)
  | Done (Sent n i) => nth_error (hdrs s) i = Some n
  | DialWait n i => nth_error (hdrs s) i = Some n
  | TwWait k p | TwLock k p _ | TwDrain k p => nth_error (owners s) p = Some k
  | _ => True
  end.

Record Inv (s:st) : Prop := {
  I_len1 : length (bufs s) = length (owners s);
  I_len2 : length (acks s) = length (hdrs s);
  I_buf : forall p i, nth_error (bufs s) p = Some (Some i) -> exists k, nth_error (owners s) p = Some k /\ nth_error (hdrs s) i = Some k;
  I_ack : forall i a, nth_error (acks s) i = Some (Some a) -> nth_error (hdrs s) i = Some a;
  I_map : forall k p, alookup (smap s) k = Some p -> nth_error (owners s) p = Some k;
  I_thr : forall t c, tlookup (thr s) t = Some c -> pc_ok s c }.

Lemma nth_upd_eq {A} (l:list A) i x : i < length l -> nth_error (upd l i x) i = Some x.
Proof. revert i; induction l as [|h t IH]; intros [|i] H; simpl in *; try lia; auto. apply IH; lia. Qed.
Lemma nth_upd_ne {A} (l:list A) i j x : i <> j -> nth_error (upd l i x) j = nth_error l j.
Proof. revert i j; induction l as [|h t IH]; intros [|i] [|j] H; simpl; auto; try congruence. Qed.
Lemma upd_len {A} (l:list A) i x : length (upd l i x) = length l.
Proof. revert i; induction l as [|h t IH]; intros [|i]; simpl; auto. Qed.
Lemma nth_upd_inv {A} (l:list A) i j x y : nth_error (upd l i x) j = Some y -> (i = j /\ y = x /\ j < length l) \/ (i <> j /\ nth_error l j = Some y).
Proof. intros H. destruct (Nat.eq_dec i j) as [->|N].
  - left. assert (j < length l). { rewrite <- (upd_len l j x). apply nth_error_Some. rewrite H. discriminate. }
    rewrite nth_upd_eq in H by auto. intuition congruence.
  - right. rewrite nth_upd_ne in H by auto. auto. Qed.
Lemma nth_app_mono {A} (l:list A) x i y : nth_error l i = Some y -> nth_error (l ++ [x]) i = Some y.
Proof. intros H. rewrite nth_error_app1; auto. apply nth_error_Some. congruence. Qed.
Lemma nth_app_inv {A} (l:list A) x i y : nth_error (l ++ [x]) i = Some y -> nth_error l i = Some y \/ (i = length l /\ y = x).
Proof. intros H. destruct (Nat.lt_ge_cases i (length l)).
  - rewrite nth_error_app1 in H by auto. auto.
  - rewrite nth_error_app2 in H by auto. destruct (i - length l) eqn:E; simpl in H.
    + right. split; [lia|congruence]. + destruct n; discriminate. Qed.
Lemma tlookup_tset t t' v l : tlookup (tset l t v) t' = if Nat.eqb t' t then Some v else tlookup l t'.
Proof. induction l as [|[a b] r IH]; simpl.
  - destruct (Nat.eqb_spec t' t); auto.
  - destruct (Nat.eqb_spec t a) as [->|N]; simpl.
    + destruct (Nat.eqb_spec t' a); auto.
    + destruct (Nat.eqb_spec t' a) as [->|N2]; simpl.
      * destruct (Nat.eqb_spec a t); [congruence|auto].
      * rewrite IH. auto. Qed.
Lemma alookup_adel_same {A} (l:list (N*A)) k : alookup (adel l k) k = None.
Proof. induction l as [|[a b] r IH]; simpl; auto. destruct (N.eqb_spec k a) as [->|N]; simpl; auto.
  destruct (N.eqb_spec k a); [congruence|auto]. Qed.
Lemma alookup_adel {A} (l:list (N*A)) k k' p : alookup (adel l k) k' = Some p -> alookup l k' = Some p.
Proof. induction l as [|[a b] r IH]; simpl; auto. destruct (N.eqb_spec k a) as [->|N]; simpl.
  - intros H. destruct (N.eqb_spec k' a) as [->|N2]; auto. rewrite alookup_adel_same in H. discriminate.
  - destruct (N.eqb_spec k' a); auto. Qed.

(* monotonicity of pc_ok under the history-extending updates *)
Definition ext (s s':st) : Prop :=
  (forall p k, nth_error (owners s) p = Some k -> nth_error (owners s') p = Some k) /\
  (forall i k, nth_error (hdrs s) i = Some k -> nth_error (hdrs s') i = Some k) /\
  (forall i a, nth_error (acks s) i = Some (Some a) -> nth_error (acks s') i = Some (Some a)).
Lemma pc_ok_ext s s' c : ext s s' -> pc_ok s c -> pc_ok s' c.
Proof. intros (Ho & Hh & Ha). destruct c as [| | | | | | |[]]; simpl; intuition auto. Qed.

Lemma ext_refl s : ext s s. Proof. repeat split; auto. Qed.
Lemma get_stream_inv s k s' p : Inv s -> get_stream s k = (s', p) ->
  Inv s' /\ ext s s' /\ nth_error (owners s') p = Some k /\ thr s' = thr s /\ hdrs s' = hdrs s /\ acks s' = acks s /\ lock s' = lock s /\ nacc s' = nacc s /\ ntid s' = ntid s.
Proof.
  intros I H. unfold get_stream in H. destruct (alookup (smap s) k) as [q|] eqn:E.
  - inversion H; subst. split; [exact I|]. split; [apply ext_refl|]. split; [eapply I_map; eauto|]. repeat split; reflexivity.
  - inversion H; subst; clear H.
    set (s1 := set_smap (set_dones (set_bufs (set_owners s (owners s ++ [k])) (bufs s ++ [None])) (dones s ++ [false])) ((k, length (owners s)) :: smap s)).
    assert (X: ext s s1).
    { split; [|split]; simpl; auto. intros. apply nth_app_mono; auto. }
    split; [|split; [exact X|split; [|repeat split; reflexivity]]].
    + constructor; simpl.
      * rewrite !app_length. simpl. f_equal. apply I.
      * apply I.
      * intros p i Hp. apply nth_app_inv in Hp. destruct Hp as [Hp|[_ Hp]]; [|discriminate].
        destruct (I_buf _ I _ _ Hp) as (k0 & A & B). exists k0. split; auto. apply nth_app_mono; auto.
      * apply I.
      * intros k0 p0. destruct (N.eqb_spec k0 k) as [->|N].
        -- intros Hq; inversion Hq; subst. rewrite nth_error_app2 by lia. rewrite Nat.sub_diag. reflexivity.
        -- intros Hq. apply nth_app_mono. eapply I_map; eauto.
      * intros t c Hc. eapply pc_ok_ext; [exact X|]. exact (I_thr _ I _ _ Hc).
    + simpl. rewrite nth_error_app2 by lia. rewrite Nat.sub_diag. reflexivity.
Qed.

Ltac inv_thr I t0 :=
  intros t' c'; simpl; rewrite tlookup_tset; destruct (Nat.eqb_spec t' t0) as [->|?]; intros Hlk; [inversion Hlk; subst; simpl | try exact (I_thr _ I _ _ Hlk)].

Theorem step_inv P s a s' : Inv s -> step P s a = Some s' -> Inv s'.
Proof.
  intros I H. destruct a as [o|t|t]; simpl in H.
  - (* Call *) destruct o as [n|n|].
    + inversion H; subst; clear H.
      assert (X: ext s (new_stream s n)).
      { repeat split; simpl; auto; intros; apply nth_app_mono; auto. }
      constructor; simpl; try apply I.
      * rewrite !app_length; simpl. f_equal. apply I.
      * intros p i Hp. destruct (I_buf _ I _ _ Hp) as (k & A & B). exists k; split; auto. apply nth_app_mono; auto.
      * intros i a Hi. apply nth_app_inv in Hi. destruct Hi as [Hi|[_ Hi]]; [|discriminate]. apply nth_app_mono. eapply I_ack; eauto.
      * inv_thr I (ntid s).
        -- destruct (sender_waits_ack P); simpl; rewrite nth_error_app2 by lia; rewrite Nat.sub_diag; reflexivity.
        -- eapply pc_ok_ext; [exact X|]. exact (I_thr _ I _ _ Hlk).
    + destruct (lock_free s); [|discriminate]. destruct (get_stream s n) as [s1 p] eqn:G.
      destruct (get_stream_inv _ _ _ _ I G) as (I1 & X & Hp & Ht & _). inversion H; subst; clear H.
      constructor; simpl; try apply I1. inv_thr I1 (ntid s1); auto.
    + inversion H; subst; clear H. constructor; simpl; try apply I. inv_thr I (ntid s); auto.
  - (* Step *) destruct (tlookup (thr s) t) as [c|] eqn:Et; [|discriminate].
    pose proof (I_thr _ I _ _ Et) as Hc. destruct c as [n i| |n p|n i|k p|k p tmo|k p|r]; simpl in Hc; try discriminate.
    + (* DialWait *) destruct (nth_error (acks s) i) as [[a|]|] eqn:Ea; try discriminate.
      * inversion H; subst; clear H. constructor; simpl; try apply I. inv_thr I t.
        destruct (N.eqb_spec a n); subst; simpl; auto.
      * destruct (nth_error (closed s) i) as [[|]|]; try discriminate. inversion H; subst; clear H.
        constructor; simpl; try apply I. inv_thr I t; auto.
    + (* RunRead *) destruct (nth_error (hdrs s) (nacc s)) as [k|] eqn:Eh; [|discriminate].
      destruct (lock_free s); [|discriminate]. destruct (get_stream s k) as [s1 p] eqn:G.
      destruct (get_stream_inv _ _ _ _ I G) as (I1 & X & Hp & Ht & Hh & Ha & _ & Hn & Hnt).
      destruct (nth_error (bufs s1) p) as [b|] eqn:Eb; [|discriminate]. inversion H; subst; clear H.
      destruct b as [j|].
      * destruct (run_closes_dropped P); constructor; simpl; try apply I1; inv_thr I1 (ntid s1); auto.
      * assert (Lp: p < length (bufs s1)) by (apply nth_error_Some; congruence).
        constructor; simpl; try apply I1.
        -- rewrite upd_len. apply I1.
        -- intros q i Hq. apply nth_upd_inv in Hq. destruct Hq as [(-> & Hq & _)|(_ & Hq)].
           ++ inversion Hq; subst. exists k. split; auto. rewrite Hh. auto.
           ++ eapply I_buf; eauto.
        -- inv_thr I1 (ntid s1); auto.
    + (* AccWait *) destruct (nth_error (bufs s) p) as [[i|]|] eqn:Eb; try discriminate. inversion H; subst; clear H.
      destruct (I_buf _ I _ _ Eb) as (k & A & B). assert (k = n) by congruence. subst k.
      constructor; simpl; try apply I.
      * rewrite upd_len. apply I.
      * intros q j Hq. apply nth_upd_inv in Hq. destruct Hq as [(_ & Hq & _)|(_ & Hq)]; [discriminate|]. eapply I_buf; eauto.
      * inv_thr I t; auto.
    + (* AccAck *) destruct (Nat.ltb_spec i (length (acks s))); [|discriminate]. inversion H; subst; clear H.
      assert (X: ext s (set_ack s i (Some n))).
      { repeat split; simpl; auto. intros j a Hj. destruct (Nat.eq_dec i j) as [->|N].
        - pose proof (I_ack _ I _ _ Hj). assert (a = n) by congruence. subst. apply nth_upd_eq; auto.
        - rewrite nth_upd_ne; auto. }
      constructor; simpl; try apply I.
      * rewrite upd_len. apply I.
      * intros j a Hj. apply nth_upd_inv in Hj. destruct Hj as [(-> & Hj & _)|(_ & Hj)]; [inversion Hj; subst; auto|]. eapply I_ack; eauto.
      * inv_thr I t.
        -- split; auto. apply nth_upd_eq; auto.
        -- eapply pc_ok_ext; [exact X|]. exact (I_thr _ I _ _ Hlk).
    + (* TwWait *) destruct (nth_error (dones s) p) as [[|]|]; try discriminate. inversion H; subst; clear H.
      constructor; simpl; try apply I. inv_thr I t; auto.
    + (* TwLock *) destruct (lock_free s); [|discriminate].
      destruct (tmo && expiry_drains P); inversion H; subst; clear H.
      * constructor; simpl; try apply I.
        -- intros k0 p0 Hk. apply alookup_adel in Hk. eapply I_map; eauto.
        -- inv_thr I t; auto.
      * constructor; simpl; try apply I.
        -- intros k0 p0 Hk. apply alookup_adel in Hk. eapply I_map; eauto.
        -- inv_thr I t; auto.
    + (* TwDrain *) destruct (nth_error (bufs s) p) as [[i|]|] eqn:Eb; try discriminate.
      * inversion H; subst; clear H. constructor; simpl; try apply I.
        -- rewrite upd_len. apply I.
        -- intros q j Hq. apply nth_upd_inv in Hq. destruct Hq as [(_ & Hq & _)|(_ & Hq)]; [discriminate|]. eapply I_buf; eauto.
        -- inv_thr I t; auto.
      * destruct (drain_has_default P); [|discriminate]. inversion H; subst; clear H.
        constructor; simpl; try apply I. inv_thr I t; auto.
  - (* Fire *) destruct (tlookup (thr s) t) as [c|] eqn:Et; [|discriminate].
    pose proof (I_thr _ I _ _ Et) as Hc. destruct c as [n i| |n p|n i|k p|k p tmo|k p|r]; simpl in Hc; try discriminate.
    + destruct (taker_timeout_deletes P).
      * destruct (lock_free s); [|discriminate]. inversion H; subst; clear H. constructor; simpl; try apply I.
        -- intros k0 p0 Hk. apply alookup_adel in Hk. eapply I_map; eauto.
        -- inv_thr I t; auto.
      * inversion H; subst; clear H. constructor; simpl; try apply I. inv_thr I t; auto.
    + inversion H; subst; clear H. constructor; simpl; try apply I. inv_thr I t; auto.
Qed.

Lemma inv_init : Inv init.
Proof. constructor; simpl; auto; intros; try (destruct p; discriminate); try (destruct i; discriminate); discriminate. Qed.

Theorem inv_reachable P s : reachable P s -> Inv s.
Proof. intros [l H]. revert H. generalize inv_init. generalize init. induction l as [|a l IH]; simpl; intros s0 I0 H.
  - inversion H; subst; auto.
  - destruct (step P s0 a) as [s1|] eqn:E; [|discriminate]. eapply IH; [|exact H]. eapply step_inv; eauto. Qed.

(* C06 routing, every schedule, any number of ids and threads, both parameter settings *)
Theorem C06_routing P s ta td n m i :
  reachable P s ->
  tlookup (thr s) ta = Some (Done (AccOk n i)) ->
  tlookup (thr s) td = Some (Done (DialOk m i)) ->
  n = m /\ nth_error (hdrs s) i = Some n.
Proof. intros R Ha Hd. apply inv_reachable in R.
  pose proof (I_thr _ R _ _ Ha) as [A1 A2]. pose proof (I_thr _ R _ _ Hd) as D. simpl in *. split; [congruence|auto]. Qed.


(* ================= second invariant: thread ids and the mutex ================= *)
Record Inv2 (s:st) : Prop := {
  J_tid : forall t c, tlookup (thr s) t = Some c -> t < ntid s;
  J_lock : forall t, lock s = Some t -> exists k p, tlookup (thr s) t = Some (TwDrain k p);
  J_drain : forall t k p, tlookup (thr s) t = Some (TwDrain k p) -> lock s = Some t }.

Lemma get_stream_thr s k s' p : get_stream s k = (s', p) -> thr s' = thr s /\ lock s' = lock s /\ ntid s' = ntid s.
Proof. unfold get_stream. destruct (alookup (smap s) k); intros H; inversion H; subst; auto. Qed.

Lemma lock_free_none s : lock_free s = true -> lock s = None.
Proof. unfold lock_free. destruct (lock s); [discriminate|auto]. Qed.

(* a thread [t0] moves to a non-TwDrain pc, lock unchanged *)
Lemma inv2_move s t0 c0 thr' (lk : option tid) :
  Inv2 s -> (forall t c, tlookup thr' t = Some c -> t = t0 /\ c = c0 \/ (t <> t0 /\ tlookup (thr s) t = Some c)) -> True.
Proof. trivial. Qed.

Theorem step_inv2 P s a s' : Inv2 s -> step P s a = Some s' -> Inv2 s'.
Proof.
  intros J H. destruct a as [o|t|t]; simpl in H.
  - (* Call: spawns thread (ntid s) with a non-TwDrain pc *)
    assert (G : forall s0 c0, thr s0 = thr s -> lock s0 = lock s -> ntid s0 = ntid s ->
              (forall k p, c0 <> TwDrain k p) -> Inv2 (spawn s0 c0)).
    { intros s0 c0 Ht Hl Hn Hc. constructor; simpl.
      - intros t c. rewrite tlookup_tset, Ht, Hn. destruct (Nat.eqb_spec t (ntid s)); [intros; lia|].
        intros Hk. pose proof (J_tid _ J _ _ Hk). lia.
      - intros t Hk. rewrite Hl in Hk. destruct (J_lock _ J _ Hk) as (k & p & Hp). exists k, p.
        rewrite tlookup_tset, Ht, Hn. destruct (Nat.eqb_spec t (ntid s)); [|auto].
        subst. pose proof (J_tid _ J _ _ Hp). lia.
      - intros t k p. rewrite tlookup_tset, Ht, Hn, Hl. destruct (Nat.eqb_spec t (ntid s)).
        + intros Hk. inversion Hk. exfalso. eapply Hc; eauto.
        + apply (J_drain _ J). }
    destruct o as [n|n|].
    + inversion H; subst. apply G; auto. intros k p; destruct (sender_waits_ack P); discriminate.
    + destruct (lock_free s); [|discriminate]. destruct (get_stream s n) as [s1 p] eqn:E.
      destruct (get_stream_thr _ _ _ _ E) as (A & B & C). inversion H; subst. apply G; auto; discriminate.
    + inversion H; subst. apply G; auto; discriminate.
  - destruct (tlookup (thr s) t) as [c|] eqn:Et; [|discriminate].
    (* generic: thread t moves from a non-TwDrain pc to a non-TwDrain pc, lock and ntid unchanged *)
    assert (M : forall s0 c0, thr s0 = thr s -> lock s0 = lock s -> ntid s0 = ntid s ->
              (forall k p, c <> TwDrain k p) -> (forall k p, c0 <> TwDrain k p) -> Inv2 (with_thr s0 t c0)).
    { intros s0 c0 Ht Hl Hn Hc Hc0. constructor; simpl.
      - intros t' c'. rewrite tlookup_tset, Ht, Hn. destruct (Nat.eqb_spec t' t); [subst; intros _; eapply J_tid; eauto|apply (J_tid _ J)].
      - intros t' Hk. rewrite Hl in Hk. destruct (J_lock _ J _ Hk) as (k & p & Hp). exists k, p.
        rewrite tlookup_tset, Ht. destruct (Nat.eqb_spec t' t); [|auto]. subst. rewrite Et in Hp. inversion Hp. exfalso. eapply Hc; eauto.
      - intros t' k p. rewrite tlookup_tset, Ht, Hl. destruct (Nat.eqb_spec t' t).
        + intros Hk. inversion Hk. exfalso. eapply Hc0; eauto.
        + apply (J_drain _ J). }
    destruct c as [n i| |n p|n i|k p|k p tmo|k p|r]; try discriminate.
    + destruct (nth_error (acks s) i) as [[a|]|]; try discriminate.
      * inversion H; subst. apply M; auto; discriminate.
      * destruct (nth_error (closed s) i) as [[|]|]; try discriminate. inversion H; subst. apply M; auto; discriminate.
    + destruct (nth_error (hdrs s) (nacc s)) as [k|]; [|discriminate].
      destruct (lock_free s); [|discriminate]. destruct (get_stream s k) as [s1 p] eqn:E.
      destruct (get_stream_thr _ _ _ _ E) as (A & B & C).
      destruct (nth_error (bufs s1) p) as [b|]; [|discriminate]. inversion H; subst; clear H.
      (* Run keeps its pc; a TwWait thread is spawned *)
      assert (X : forall s0, thr s0 = thr s -> lock s0 = lock s -> ntid s0 = ntid s -> Inv2 (spawn s0 (TwWait k p))).
      { intros s0 Ht Hl Hn. constructor; simpl.
        - intros t' c'. rewrite tlookup_tset, Ht, Hn. destruct (Nat.eqb_spec t' (ntid s)); [intros; lia|].
          intros Hk. pose proof (J_tid _ J _ _ Hk). lia.
        - intros t' Hk. rewrite Hl in Hk. destruct (J_lock _ J _ Hk) as (k' & p' & Hp). exists k', p'.
          rewrite tlookup_tset, Ht, Hn. destruct (Nat.eqb_spec t' (ntid s)); [|auto].
          subst. pose proof (J_tid _ J _ _ Hp). lia.
        - intros t' k' p'. rewrite tlookup_tset, Ht, Hn, Hl. destruct (Nat.eqb_spec t' (ntid s)); [discriminate|apply (J_drain _ J)]. }
      destruct b; [destruct (run_closes_dropped P)|]; apply X; simpl; auto.
    + destruct (nth_error (bufs s) p) as [[i|]|]; try discriminate. inversion H; subst. apply M; auto; discriminate.
    + destruct (Nat.ltb i (length (acks s))); [|discriminate]. inversion H; subst. apply M; auto; discriminate.
    + destruct (nth_error (dones s) p) as [[|]|]; try discriminate. inversion H; subst. apply M; auto; discriminate.
    + destruct (lock_free s) eqn:LF; [|discriminate]. apply lock_free_none in LF. destruct (tmo && expiry_drains P); inversion H; subst; clear H.
      * (* takes the mutex *)
        constructor; simpl.
        -- intros t' c'. rewrite tlookup_tset. destruct (Nat.eqb_spec t' t); [subst; intros _; eapply J_tid; eauto|apply (J_tid _ J)].
        -- intros t' Hk. inversion Hk; subst. exists k, p. rewrite tlookup_tset, Nat.eqb_refl. reflexivity.
        -- intros t' k' p'. rewrite tlookup_tset. destruct (Nat.eqb_spec t' t); [subst; auto|].
           intros Hk. pose proof (J_drain _ J _ _ _ Hk). congruence.
      * apply M; auto; discriminate.
    + (* the holder drains and releases *)
      pose proof (J_drain _ J _ _ _ Et) as HL.
      assert (R : forall s0, thr s0 = thr s -> ntid s0 = ntid s -> Inv2 (with_thr (set_lock s0 None) t (Done Ended))).
      { intros s0 Ht Hn. constructor; simpl.
        - intros t' c'. rewrite tlookup_tset, Ht, Hn. destruct (Nat.eqb_spec t' t); [subst; intros _; eapply J_tid; eauto|apply (J_tid _ J)].
        - discriminate.
        - intros t' k' p'. rewrite tlookup_tset, Ht. destruct (Nat.eqb_spec t' t); [discriminate|].
          intros Hk. pose proof (J_drain _ J _ _ _ Hk). congruence. }
      destruct (nth_error (bufs s) p) as [[i|]|]; try discriminate.
      * inversion H; subst. apply R; auto.
      * destruct (drain_has_default P); [|discriminate]. inversion H; subst. apply R; auto.
  - destruct (tlookup (thr s) t) as [c|] eqn:Et; [|discriminate].
    assert (M : forall s0 c0, thr s0 = thr s -> lock s0 = lock s -> ntid s0 = ntid s ->
              (forall k p, c <> TwDrain k p) -> (forall k p, c0 <> TwDrain k p) -> Inv2 (with_thr s0 t c0)).
    { intros s0 c0 Ht Hl Hn Hc Hc0. constructor; simpl.
      - intros t' c'. rewrite tlookup_tset, Ht, Hn. destruct (Nat.eqb_spec t' t); [subst; intros _; eapply J_tid; eauto|apply (J_tid _ J)].
      - intros t' Hk. rewrite Hl in Hk. destruct (J_lock _ J _ Hk) as (k & p & Hp). exists k, p.
        rewrite tlookup_tset, Ht. destruct (Nat.eqb_spec t' t); [|auto]. subst. rewrite Et in Hp. inversion Hp. exfalso. eapply Hc; eauto.
      - intros t' k p. rewrite tlookup_tset, Ht, Hl. destruct (Nat.eqb_spec t' t).
        + intros Hk. inversion Hk. exfalso. eapply Hc0; eauto.
        + apply (J_drain _ J). }
    destruct c as [n i| |n p|n i|k p|k p tmo|k p|r]; try discriminate.
    + destruct (taker_timeout_deletes P); [destruct (lock_free s); [|discriminate]|]; inversion H; subst; apply M; auto; discriminate.
    + inversion H; subst. apply M; auto; discriminate.
Qed.

Lemma inv2_init : Inv2 init.
Proof. constructor; simpl; intros; discriminate. Qed.

Theorem inv2_reachable P s : reachable P s -> Inv2 s.
Proof. intros [l H]. revert H. generalize inv2_init. generalize init. induction l as [|a l IH]; simpl; intros s0 I0 H.
  - inversion H; subst; auto.
  - destruct (step P s0 a) as [s1|] eqn:E; [|discriminate]. eapply IH; [|exact H]. eapply step_inv2; eauto. Qed.

(* with the default case in the drain select, the mutex holder can always take its next step:
   nobody waits while holding the broker mutex *)
Theorem no_wait_under_lock P s : drain_has_default P = true -> reachable P s -> wedged P s = false.
Proof.
  intros HD R. pose proof (inv_reachable _ _ R) as I. pose proof (inv2_reachable _ _ R) as J.
  unfold wedged. destruct (lock s) as [t|] eqn:EL; [|reflexivity].
  destruct (J_lock _ J _ EL) as (k & p & Hp). simpl. rewrite Hp.
  pose proof (I_thr _ I _ _ Hp) as Hc. simpl in Hc.
  assert (Lp : p < length (bufs s)). { rewrite (I_len1 _ I). apply nth_error_Some. congruence. }
  destruct (nth_error (bufs s) p) as [[i|]|] eqn:Eb.
  - reflexivity.
  - rewrite HD. reflexivity.
  - apply nth_error_None in Eb. lia.
Qed.

(* ================= third invariant: every stream is taken by at most one Accept ================= *)
Definition pc_taker (s:st) (t:tid) (c:pc) : Prop :=
  match c with
  | AccAck _ i | Done (AccOk _ i) => nth_error (takers s) i = Some (Some t)
  | _ => True
  end.

Record Inv3 (s:st) : Prop := {
  K_len : length (takers s) = length (hdrs s);
  K_nacc : nacc s <= length (hdrs s);
  K_fresh : forall i o, nacc s <= i -> nth_error (takers s) i = Some o -> o = None;
  K_buf : forall p i, nth_error (bufs s) p = Some (Some i) -> i < nacc s /\ nth_error (takers s) i = Some None;
  K_uniq : forall p q i, nth_error (bufs s) p = Some (Some i) -> nth_error (bufs s) q = Some (Some i) -> p = q;
  K_thr : forall t c, tlookup (thr s) t = Some c -> pc_taker s t c }.

Lemma get_stream_bufs s k s' p : get_stream s k = (s', p) ->
  takers s' = takers s /\ hdrs s' = hdrs s /\ nacc s' = nacc s /\ thr s' = thr s /\
  (forall q x, nth_error (bufs s') q = Some (Some x) -> nth_error (bufs s) q = Some (Some x)).
Proof.
  unfold get_stream. destruct (alookup (smap s) k); intros H; inversion H; subst; simpl; repeat split; auto.
  intros q x Hq. apply nth_app_inv in Hq. destruct Hq as [Hq|[_ Hq]]; [auto|discriminate].
Qed.

Lemma pc_taker_mono s s' t c :
  (forall i u, nth_error (takers s) i = Some (Some u) -> nth_error (takers s') i = Some (Some u)) ->
  pc_taker s t c -> pc_taker s' t c.
Proof. intros H. destruct c as [| | | | | | |[]]; simpl; auto. Qed.

Theorem step_inv3 P s a s' : Inv s -> Inv3 s -> step P s a = Some s' -> Inv3 s'.
Proof.
  intros I K H. destruct a as [o|t|t]; simpl in H.
  - destruct o as [n|n|].
    + inversion H; subst; clear H. constructor; simpl.
      * rewrite !app_length. simpl. f_equal. apply K.
      * rewrite app_length. pose proof (K_nacc _ K). lia.
      * intros i o Hi Ho. apply nth_app_inv in Ho. destruct Ho as [Ho|[_ ->]]; [eapply K_fresh; eauto|auto].
      * intros p i Hp. destruct (K_buf _ K _ _ Hp) as [A B]. split; auto. apply nth_app_mono; auto.
      * apply (K_uniq _ K).
      * intros t c. rewrite tlookup_tset. destruct (Nat.eqb_spec t (ntid s)); [intros Hk; inversion Hk; destruct (sender_waits_ack P); exact Logic.I|].
        intros Hk. eapply pc_taker_mono; [|exact (K_thr _ K _ _ Hk)]. simpl. intros; apply nth_app_mono; auto.
    + destruct (lock_free s); [|discriminate]. destruct (get_stream s n) as [s1 p] eqn:E.
      destruct (get_stream_bufs _ _ _ _ E) as (A & B & C & D & F). inversion H; subst; clear H.
      constructor; simpl; rewrite ?A, ?B, ?C; try apply K.
      * intros q i Hq. apply F in Hq. exact (K_buf _ K _ _ Hq).
      * intros q q' i Hq Hq'. apply F in Hq. apply F in Hq'.
        (* indices of s1's bufs agree with s's on Some-entries *)
        eapply (K_uniq _ K); eauto.
      * intros t c. rewrite tlookup_tset, D. destruct (Nat.eqb_spec t (ntid s1)); [intros Hk; inversion Hk; exact Logic.I|].
        intros Hk. pose proof (K_thr _ K _ _ Hk) as X. destruct c as [| | | | | | |[]]; simpl in *; rewrite ?A; auto.
    + inversion H; subst; clear H. constructor; simpl; try apply K.
      intros t c. rewrite tlookup_tset. destruct (Nat.eqb_spec t (ntid s)); [intros Hk; inversion Hk; exact Logic.I|apply (K_thr _ K)].
  - destruct (tlookup (thr s) t) as [c|] eqn:Et; [|discriminate].
    destruct c as [n i| |n p|n i|k p|k p tmo|k p|r]; try discriminate.
    + (* DialWait *)
      assert (G : forall r, Inv3 (with_thr s t (Done r)) \/ True) by (intros; right; exact Logic.I).
      destruct (nth_error (acks s) i) as [[a|]|]; try discriminate.
      * inversion H; subst; clear H. constructor; simpl; try apply K.
        intros t' c'. rewrite tlookup_tset. destruct (Nat.eqb_spec t' t); [|apply (K_thr _ K)].
        intros Hk. inversion Hk. destruct (N.eqb a n); exact Logic.I.
      * destruct (nth_error (closed s) i) as [[|]|]; try discriminate. inversion H; subst; clear H.
        constructor; simpl; try apply K.
        intros t' c'. rewrite tlookup_tset. destruct (Nat.eqb_spec t' t); [intros Hk; inversion Hk; exact Logic.I|apply (K_thr _ K)].
    + (* RunRead *)
      destruct (nth_error (hdrs s) (nacc s)) as [k|] eqn:Eh; [|discriminate].
      destruct (lock_free s); [|discriminate]. destruct (get_stream s k) as [s1 p] eqn:E.
      destruct (get_stream_bufs _ _ _ _ E) as (A & B & C & D & F).
      destruct (nth_error (bufs s1) p) as [b|] eqn:Eb; [|discriminate]. inversion H; subst; clear H.
      assert (Hlt : nacc s < length (hdrs s)) by (apply nth_error_Some; congruence).
      assert (TH : forall thr0, thr0 = thr s -> forall t' c', tlookup (tset thr0 (ntid s1) (TwWait k p)) t' = Some c' ->
                   forall s0, takers s0 = takers s -> pc_taker s0 t' c').
      { intros thr0 -> t' c'. rewrite tlookup_tset. destruct (Nat.eqb_spec t' (ntid s1)); [intros Hk; inversion Hk; intros; exact Logic.I|].
        intros Hk s0 Ht. pose proof (K_thr _ K _ _ Hk) as X. destruct c' as [| | | | | | |[]]; simpl in *; rewrite ?Ht; auto. }
      destruct b as [j|].
      * (* slot already full: the stream is dropped (and closed, after the fix) *)
        assert (Q : forall s0, takers s0 = takers s -> hdrs s0 = hdrs s -> bufs s0 = bufs s1 -> thr s0 = thr s -> ntid s0 = ntid s1 ->
                    Inv3 (spawn (set_nacc s0 (S (nacc s))) (TwWait k p))).
        { intros s0 Ht Hh Hb Hthr Hnt. constructor; simpl; rewrite ?Ht, ?Hh, ?Hb.
          - apply K. - lia.
          - intros i o Hi. apply (K_fresh _ K). lia.
          - intros q i Hq. apply F in Hq. destruct (K_buf _ K _ _ Hq). split; [lia|auto].
          - intros q q' i Hq Hq'. apply F in Hq. apply F in Hq'. eapply (K_uniq _ K); eauto.
          - intros t' c' Hk. rewrite Hthr, Hnt in Hk. eapply (TH (thr s) eq_refl); eauto. }
        destruct (run_closes_dropped P); apply Q; simpl; auto.
      * (* parked *)
        assert (Lp : p < length (bufs s1)) by (apply nth_error_Some; congruence).
        constructor; simpl; rewrite ?A, ?B.
        -- apply K. -- lia.
        -- intros i o Hi. apply (K_fresh _ K). lia.
        -- intros q i Hq. apply nth_upd_inv in Hq. destruct Hq as [(-> & Hq & _)|(_ & Hq)].
           ++ inversion Hq; subst. split; [lia|].
              assert (Lt : nacc s < length (takers s)) by (rewrite (K_len _ K); exact Hlt).
              destruct (nth_error (takers s) (nacc s)) as [o|] eqn:Eo; [|apply nth_error_None in Eo; lia].
              rewrite (K_fresh _ K (nacc s) o (le_n _) Eo). reflexivity.
           ++ apply F in Hq. destruct (K_buf _ K _ _ Hq). split; [lia|auto].
        -- intros q q' i Hq Hq'. apply nth_upd_inv in Hq. apply nth_upd_inv in Hq'.
           destruct Hq as [(-> & Hq & _)|(Nq & Hq)]; destruct Hq' as [(-> & Hq' & _)|(Nq' & Hq')]; auto.
           ++ inversion Hq; subst. apply F in Hq'. destruct (K_buf _ K _ _ Hq'). lia.
           ++ inversion Hq'; subst. apply F in Hq. destruct (K_buf _ K _ _ Hq). lia.
           ++ apply F in Hq. apply F in Hq'. eapply (K_uniq _ K); eauto.
        -- intros t' c' Hk. rewrite D in Hk. eapply (TH (thr s) eq_refl); eauto.
    + (* AccWait takes stream i from slot p *)
      destruct (nth_error (bufs s) p) as [[i|]|] eqn:Eb; try discriminate. inversion H; subst; clear H.
      destruct (K_buf _ K _ _ Eb) as [Hi Ht].
      assert (Li : i < length (takers s)) by (apply nth_error_Some; congruence).
      constructor; simpl.
      * rewrite upd_len. apply K.
      * apply K.
      * intros j o Hj Ho. apply nth_upd_inv in Ho. destruct Ho as [(-> & _ & _)|(_ & Ho)]; [lia|eapply K_fresh; eauto].
      * intros q j Hq. apply nth_upd_inv in Hq. destruct Hq as [(_ & Hq & _)|(Nq & Hq)]; [discriminate|].
        destruct (K_buf _ K _ _ Hq) as [A B]. split; auto.
        rewrite nth_upd_ne; auto. intros <-. apply Nq. eapply (K_uniq _ K); eauto.
      * intros q q' j Hq Hq'. apply nth_upd_inv in Hq. apply nth_upd_inv in Hq'.
        destruct Hq as [(_ & Hq & _)|(_ & Hq)]; [discriminate|]. destruct Hq' as [(_ & Hq' & _)|(_ & Hq')]; [discriminate|].
        eapply (K_uniq _ K); eauto.
      * intros t' c'. rewrite tlookup_tset. destruct (Nat.eqb_spec t' t).
        -- intros Hk. inversion Hk; subst. simpl. apply nth_upd_eq; auto.
        -- intros Hk. pose proof (K_thr _ K _ _ Hk) as X.
           destruct c' as [| | |n' i'| | | |[n' i'| | | | |]]; simpl in *; auto.
           ++ destruct (Nat.eq_dec i i') as [<-|Ne]; [congruence|rewrite nth_upd_ne; auto].
           ++ destruct (Nat.eq_dec i i') as [<-|Ne]; [congruence|rewrite nth_upd_ne; auto].
    + (* AccAck *)
      destruct (Nat.ltb i (length (acks s))); [|discriminate]. inversion H; subst; clear H.
      pose proof (K_thr _ K _ _ Et) as X. simpl in X.
      constructor; simpl; try apply K.
      intros t' c'. rewrite tlookup_tset. destruct (Nat.eqb_spec t' t); [intros Hk; inversion Hk; subst; exact X|apply (K_thr _ K)].
    + destruct (nth_error (dones s) p) as [[|]|]; try discriminate. inversion H; subst; clear H.
      constructor; simpl; try apply K.
      intros t' c'. rewrite tlookup_tset. destruct (Nat.eqb_spec t' t); [intros Hk; inversion Hk; exact Logic.I|apply (K_thr _ K)].
    + destruct (lock_free s); [|discriminate]. destruct (tmo && expiry_drains P); inversion H; subst; clear H;
        (constructor; simpl; try apply K;
         intros t' c'; rewrite tlookup_tset; destruct (Nat.eqb_spec t' t); [intros Hk; inversion Hk; exact Logic.I|apply (K_thr _ K)]).
    + (* TwDrain *)
      destruct (nth_error (bufs s) p) as [[i|]|] eqn:Eb; try discriminate.
      * inversion H; subst; clear H. constructor; simpl; try apply K.
        -- intros q j Hq. apply nth_upd_inv in Hq. destruct Hq as [(_ & Hq & _)|(_ & Hq)]; [discriminate|exact (K_buf _ K _ _ Hq)].
        -- intros q q' j Hq Hq'. apply nth_upd_inv in Hq. apply nth_upd_inv in Hq'.
           destruct Hq as [(_ & Hq & _)|(_ & Hq)]; [discriminate|]. destruct Hq' as [(_ & Hq' & _)|(_ & Hq')]; [discriminate|].
           eapply (K_uniq _ K); eauto.
        -- intros t' c'. rewrite tlookup_tset. destruct (Nat.eqb_spec t' t); [intros Hk; inversion Hk; exact Logic.I|apply (K_thr _ K)].
      * destruct (drain_has_default P); [|discriminate]. inversion H; subst; clear H. constructor; simpl; try apply K.
        intros t' c'. rewrite tlookup_tset. destruct (Nat.eqb_spec t' t); [intros Hk; inversion Hk; exact Logic.I|apply (K_thr _ K)].
  - destruct (tlookup (thr s) t) as [c|] eqn:Et; [|discriminate].
    destruct c as [n i| |n p|n i|k p|k p tmo|k p|r]; try discriminate.
    + destruct (taker_timeout_deletes P); [destruct (lock_free s); [|discriminate]|]; inversion H; subst; clear H; constructor; simpl; try apply K;
      intros t' c'; rewrite tlookup_tset; (destruct (Nat.eqb_spec t' t); [intros Hk; inversion Hk; exact Logic.I|apply (K_thr _ K)]).
    + inversion H; subst; clear H. constructor; simpl; try apply K.
      intros t' c'. rewrite tlookup_tset. destruct (Nat.eqb_spec t' t); [intros Hk; inversion Hk; exact Logic.I|apply (K_thr _ K)].
Qed.

Lemma inv3_init : Inv3 init.
Proof. constructor; simpl; auto; intros; try (destruct p; discriminate); try (destruct i; discriminate); discriminate. Qed.

Theorem inv3_reachable P s : reachable P s -> Inv3 s.
Proof.
  intros [l H]. assert (G : forall l s0, Inv s0 -> Inv3 s0 -> run P s0 l = Some s -> Inv3 s).
  { clear. induction l as [|a l IH]; simpl; intros s0 I0 K0 H.
    - inversion H; subst; auto.
    - destruct (step P s0 a) as [s1|] eqn:E; [|discriminate].
      eapply IH; [eapply step_inv; eauto|eapply step_inv3; eauto|exact H]. }
  eapply G; [apply inv_init|apply inv3_init|exact H].
Qed.

(* no stream is handed to two Accept calls *)
Theorem accept_unique P s ta tb n m i :
  reachable P s ->
  tlookup (thr s) ta = Some (Done (AccOk n i)) ->
  tlookup (thr s) tb = Some (Done (AccOk m i)) -> ta = tb.
Proof.
  intros R Ha Hb. apply inv3_reachable in R.
  pose proof (K_thr _ R _ _ Ha) as A. pose proof (K_thr _ R _ _ Hb) as B. simpl in *. congruence.
Qed.

(* ================= fourth invariant: no processed stream is orphaned ================= *)
(* every stream Run has processed is parked in a slot, taken by an Accept, or closed; with the close
   in Run's default branch this holds in every reachable state, so every dialer is eventually answered
   (ack, or close by the expiry handler / Run) *)
Definition accounted (s:st) (i:sid) : Prop :=
  (exists p, nth_error (bufs s) p = Some (Some i)) \/
  (exists t, nth_error (takers s) i = Some (Some t)) \/
  nth_error (closed s) i = Some true.

Lemma nth_upd_other {A} (l:list A) i j x y : i <> j -> nth_error l j = Some y -> nth_error (upd l i x) j = Some y.
Proof. intros. rewrite nth_upd_ne; auto. Qed.

Record Inv4 (s:st) : Prop := {
  Q_len : length (closed s) = length (hdrs s);
  Q_acc : forall i, i < nacc s -> accounted s i }.

Lemma accounted_mono s s' i :
  (forall p, nth_error (bufs s) p = Some (Some i) -> exists p', nth_error (bufs s') p' = Some (Some i)) ->
  (forall t, nth_error (takers s) i = Some (Some t) -> nth_error (takers s') i = Some (Some t)) ->
  (nth_error (closed s) i = Some true -> nth_error (closed s') i = Some true) ->
  accounted s i -> accounted s' i.
Proof.
  intros A B C [[p Hp]|[[t Ht]|Hc]].
  - left. apply (A p Hp).
  - right. left. exists t. auto.
  - right. right. auto.
Qed.

Lemma get_stream_bufs_mono s k s' p : get_stream s k = (s', p) ->
  closed s' = closed s /\ (forall q x, nth_error (bufs s) q = Some x -> nth_error (bufs s') q = Some x).
Proof.
  unfold get_stream. destruct (alookup (smap s) k); intros H; inversion H; subst; simpl; split; auto.
  intros q x Hq. apply nth_app_mono. exact Hq.
Qed.

Theorem step_inv4 P s a s' : run_closes_dropped P = true -> Inv s -> Inv3 s -> Inv4 s -> step P s a = Some s' -> Inv4 s'.
Proof.
  intros HR I K Q H. destruct a as [o|t|t]; simpl in H.
  - destruct o as [n|n|].
    + inversion H; subst; clear H. constructor; simpl.
      * rewrite !app_length. simpl. f_equal. apply Q.
      * intros i Hi. eapply accounted_mono; [| | |exact (Q_acc _ Q i Hi)]; simpl; eauto; intros; apply nth_app_mono; auto.
    + destruct (lock_free s); [|discriminate]. destruct (get_stream s n) as [s1 p] eqn:E.
      destruct (get_stream_bufs _ _ _ _ E) as (A & B & C & D & F). destruct (get_stream_bufs_mono _ _ _ _ E) as [G M].
      inversion H; subst; clear H. constructor; simpl; rewrite ?G, ?B, ?C; [apply Q|].
      intros i Hi. eapply accounted_mono; [| | |exact (Q_acc _ Q i Hi)]; simpl; rewrite ?A, ?G; eauto.
    + inversion H; subst; clear H. constructor; simpl; apply Q.
  - destruct (tlookup (thr s) t) as [c|] eqn:Et; [|discriminate].
    destruct c as [n i| |n p|n i|k p|k p tmo|k p|r]; try discriminate.
    + destruct (nth_error (acks s) i) as [[a|]|]; try discriminate.
      * inversion H; subst; clear H. constructor; simpl; apply Q.
      * destruct (nth_error (closed s) i) as [[|]|]; try discriminate. inversion H; subst; clear H. constructor; simpl; apply Q.
    + destruct (nth_error (hdrs s) (nacc s)) as [k|] eqn:Eh; [|discriminate].
      destruct (lock_free s); [|discriminate]. destruct (get_stream s k) as [s1 p] eqn:E.
      destruct (get_stream_bufs _ _ _ _ E) as (A & B & C & D & F). destruct (get_stream_bufs_mono _ _ _ _ E) as [G M].
      destruct (nth_error (bufs s1) p) as [b|] eqn:Eb; [|discriminate]. inversion H; subst; clear H.
      assert (Hlt : nacc s < length (hdrs s)) by (apply nth_error_Some; congruence).
      destruct b as [j|].
      * rewrite HR. constructor; simpl; rewrite ?G, ?B.
        -- rewrite upd_len. apply Q.
        -- intros i Hi. destruct (Nat.eq_dec i (nacc s)) as [->|Ne].
           ++ right. right. simpl. rewrite G. apply nth_upd_eq. rewrite (Q_len _ Q). exact Hlt.
           ++ assert (Hi' : i < nacc s) by lia.
              eapply accounted_mono; [| | |exact (Q_acc _ Q i Hi')]; simpl; rewrite ?A, ?G; eauto.
              intros Hc. apply nth_upd_other; auto.
      * assert (Lp : p < length (bufs s1)) by (apply nth_error_Some; congruence).
        constructor; simpl; rewrite ?G, ?B; [apply Q|].
        intros i Hi. destruct (Nat.eq_dec i (nacc s)) as [->|Ne].
        -- left. exists p. simpl. apply nth_upd_eq; auto.
        -- assert (Hi' : i < nacc s) by lia.
           eapply accounted_mono; [| | |exact (Q_acc _ Q i Hi')]; simpl; rewrite ?A, ?G; eauto.
           intros q Hq. exists q. apply M in Hq. destruct (Nat.eq_dec p q) as [->|Npq]; [congruence|]. apply nth_upd_other; auto.
    + destruct (nth_error (bufs s) p) as [[i|]|] eqn:Eb; try discriminate. inversion H; subst; clear H.
      destruct (K_buf _ K _ _ Eb) as [Hi Ht].
      assert (Li : i < length (takers s)) by (apply nth_error_Some; congruence).
      constructor; simpl; [apply Q|].
      intros j Hj. destruct (Nat.eq_dec j i) as [->|Ne].
      * right. left. exists t. simpl. apply nth_upd_eq; auto.
      * eapply accounted_mono; [| | |exact (Q_acc _ Q j Hj)]; simpl; eauto.
        -- intros q Hq. exists q. destruct (Nat.eq_dec p q) as [->|Npq]; [congruence|]. apply nth_upd_other; auto.
        -- intros u Hu. apply nth_upd_other; auto.
    + destruct (Nat.ltb i (length (acks s))); [|discriminate]. inversion H; subst; clear H. constructor; simpl; apply Q.
    + destruct (nth_error (dones s) p) as [[|]|]; try discriminate. inversion H; subst; clear H. constructor; simpl; apply Q.
    + destruct (lock_free s); [|discriminate]. destruct (tmo && expiry_drains P); inversion H; subst; clear H; constructor; simpl; apply Q.
    + destruct (nth_error (bufs s) p) as [[i|]|] eqn:Eb; try discriminate.
      * inversion H; subst; clear H. destruct (K_buf _ K _ _ Eb) as [Hi _].
        assert (Lc : i < length (closed s)) by (rewrite (Q_len _ Q); pose proof (K_nacc _ K); lia).
        constructor; simpl; [rewrite upd_len; apply Q|].
        intros j Hj. destruct (Nat.eq_dec j i) as [->|Ne].
        -- right. right. simpl. apply nth_upd_eq; auto.
        -- eapply accounted_mono; [| | |exact (Q_acc _ Q j Hj)]; simpl; eauto.
           ++ intros q Hq. exists q. destruct (Nat.eq_dec p q) as [->|Npq]; [congruence|]. apply nth_upd_other; auto.
           ++ intros Hc. apply nth_upd_other; auto.
      * destruct (drain_has_default P); [|discriminate]. inversion H; subst; clear H. constructor; simpl; apply Q.
  - destruct (tlookup (thr s) t) as [c|] eqn:Et; [|discriminate].
    destruct c as [n i| |n p|n i|k p|k p tmo|k p|r]; try discriminate.
    + destruct (taker_timeout_deletes P); [destruct (lock_free s); [|discriminate]|]; inversion H; subst; clear H; constructor; simpl; apply Q.
    + inversion H; subst; clear H. constructor; simpl; apply Q.
Qed.

Lemma inv4_init : Inv4 init.
Proof. constructor; simpl; auto. intros i Hi. lia. Qed.

Theorem inv4_reachable P s : run_closes_dropped P = true -> reachable P s -> Inv4 s.
Proof.
  intros HR [l H]. assert (G : forall l s0, Inv s0 -> Inv3 s0 -> Inv4 s0 -> run P s0 l = Some s -> Inv4 s).
  { clear H. clear l. induction l as [|a l IH]; simpl; intros s0 I0 K0 Q0 H.
    - inversion H; subst; auto.
    - destruct (step P s0 a) as [s1|] eqn:E; [|discriminate].
      eapply IH; [eapply step_inv; eauto|eapply step_inv3; eauto|eapply step_inv4; eauto|exact H]. }
  eapply G; [apply inv_init|apply inv3_init|apply inv4_init|exact H].
Qed.

(* every parked thread has its own timer branch available whenever the mutex is free *)
Theorem parked_can_fire P s t : lock_free s = true ->
  (exists n p, tlookup (thr s) t = Some (AccWait n p)) \/ (exists k p, tlookup (thr s) t = Some (TwWait k p)) ->
  step P s (Fire t) <> None.
Proof.
  intros LF [[n [p H]]|[k [p H]]]; simpl; rewrite H; [destruct (taker_timeout_deletes P); rewrite ?LF|]; discriminate.
Qed.

(* a dialer whose stream was processed is answered as soon as the stream is taken+acked or closed *)
Theorem dial_answered P s t n i : tlookup (thr s) t = Some (DialWait n i) ->
  (exists a, nth_error (acks s) i = Some (Some a)) \/ (nth_error (acks s) i = Some None /\ nth_error (closed s) i = Some true) ->
  step P s (Step t) <> None.
Proof.
  intros H [[a Ha]|[Ha Hc]]; simpl; rewrite H, Ha; [discriminate|rewrite Hc; discriminate].
Qed.

(* ================= the gRPC broker instance: its expiry handler never takes the mutex for long ================= *)
Lemma step_lock_none P s a s' : expiry_drains P = false -> lock s = None -> step P s a = Some s' -> lock s' = None.
Proof.
  intros HE L H. destruct a as [o|t|t]; simpl in H.
  - destruct o as [n|n|].
    + inversion H; subst; simpl; auto.
    + destruct (lock_free s); [|discriminate]. destruct (get_stream s n) as [s1 p] eqn:E.
      destruct (get_stream_thr _ _ _ _ E) as (_ & B & _). inversion H; subst; simpl. congruence.
    + inversion H; subst; simpl; auto.
  - destruct (tlookup (thr s) t) as [c|]; [|discriminate].
    destruct c as [n i| |n p|n i|k p|k p tmo|k p|r]; try discriminate.
    + destruct (nth_error (acks s) i) as [[a|]|]; try discriminate; [inversion H; subst; simpl; auto|].
      destruct (nth_error (closed s) i) as [[|]|]; try discriminate. inversion H; subst; simpl; auto.
    + destruct (nth_error (hdrs s) (nacc s)) as [k|]; [|discriminate].
      destruct (lock_free s); [|discriminate]. destruct (get_stream s k) as [s1 p] eqn:E.
      destruct (get_stream_thr _ _ _ _ E) as (_ & B & _).
      destruct (nth_error (bufs s1) p) as [[j|]|]; try discriminate; inversion H; subst; simpl;
        try (destruct (run_closes_dropped P); simpl); congruence.
    + destruct (nth_error (bufs s) p) as [[i|]|]; try discriminate. inversion H; subst; simpl; auto.
    + destruct (Nat.ltb i (length (acks s))); [|discriminate]. inversion H; subst; simpl; auto.
    + destruct (nth_error (dones s) p) as [[|]|]; try discriminate. inversion H; subst; simpl; auto.
    + destruct (lock_free s); [|discriminate]. rewrite HE, andb_false_r in H. inversion H; subst; simpl; auto.
    + destruct (nth_error (bufs s) p) as [[i|]|]; try discriminate; [inversion H; subst; simpl; auto|].
      destruct (drain_has_default P); [|discriminate]. inversion H; subst; simpl; auto.
  - destruct (tlookup (thr s) t) as [c|]; [|discriminate].
    destruct c as [n i| |n p|n i|k p|k p tmo|k p|r]; try discriminate.
    + destruct (taker_timeout_deletes P); [destruct (lock_free s); [|discriminate]|]; inversion H; subst; simpl; auto.
    + inversion H; subst; simpl; auto.
Qed.

Theorem never_locked P s : expiry_drains P = false -> reachable P s -> lock s = None.
Proof.
  intros HE [l H]. assert (G : forall l s0, lock s0 = None -> run P s0 l = Some s -> lock s = None).
  { clear H. clear l. induction l as [|a l IH]; simpl; intros s0 L H.
    - inversion H; subst; auto.
    - destruct (step P s0 a) as [s1|] eqn:E; [|discriminate]. eapply IH; [eapply step_lock_none; eauto|exact H]. }
  exact (G l init eq_refl H).
Qed.

(* ---- net/rpc Dispense on top of the broker (rpc_client.go Dispense / rpc_server.go dispenseServer.Dispense): the client
   allocates an id, the server creates the implementation for that request and starts a goroutine that accepts on the id
   and serves the implementation on the accepted stream; the client dials the id.  A dispense is the id with the two
   broker threads it gives rise to; the server object of a dispense is bound to its accepting thread. *)
Record dispense := { d_id : id; d_acc : tid; d_dial : tid }.

Lemma nodup_map_inj {A B} (f : A -> B) (l : list A) x y :
  NoDup (map f l) -> In x l -> In y l -> f x = f y -> x = y.
Proof.
  induction l as [|a l IH]; intros Hnd Hx Hy Hf; [destruct Hx|].
  cbn in Hnd. inversion Hnd as [|? ? Hna Hnd']; subst.
  destruct Hx as [->|Hx], Hy as [->|Hy]; auto.
  - exfalso. apply Hna. rewrite Hf. apply in_map. exact Hy.
  - exfalso. apply Hna. rewrite <- Hf. apply in_map. exact Hx.
Qed.

(* whatever the interleaving of any number of dispenses (and of anything else on the broker): the stream the client of
   dispense j obtained is served by the acceptor -- hence by the server object -- of dispense j and of no other *)
Theorem dispense_reaches_own_server P s (ds : list dispense) j k i :
  reachable P s -> NoDup (map d_id ds) -> In j ds -> In k ds ->
  tlookup (thr s) (d_dial j) = Some (Done (DialOk (d_id j) i)) ->
  tlookup (thr s) (d_acc k) = Some (Done (AccOk (d_id k) i)) ->
  j = k.
Proof.
  intros R Hnd Hj Hk Hd Ha.
  destruct (C06_routing P s (d_acc k) (d_dial j) (d_id k) (d_id j) i R Ha Hd) as [E _].
  symmetry. exact (nodup_map_inj d_id ds k j Hnd Hk Hj E).
Qed.
