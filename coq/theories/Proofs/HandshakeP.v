From Coq Require Import List NArith ZArith Bool Lia String.
From GP Require Import Base.Val Base.Bytes Base.GoStrings Model.Negotiate Model.Handshake Proofs.SecureP Proofs.NegotiateP.
Import ListNotations.

Lemma mem_bytes_In x l : mem_bytes x l = true <-> In x l.
Proof.
  induction l as [|y r IH]; simpl; [split; [discriminate|tauto]|].
  rewrite orb_true_iff, bytes_eqb_eq, IH. split; intros [H|H]; auto.
Qed.

Section WithParams.
Variable P : hs_params.
Hypothesis Haddr : hp_checks_addr_err P = true.
Hypothesis Hguard : hp_guards_nil_tls P = true.

Lemma fail_kill e eff : has_kill (snd (fail e eff)) = true.
Proof. unfold fail, has_kill; simpl. rewrite existsb_app. simpl. apply orb_true_r. Qed.

Lemma cert_check_no_panic c o b : cert_check P c o b <> None.
Proof.
  unfold cert_check. rewrite Hguard. destruct b; cbn [negb]; [|discriminate].
  destruct (h_has_tls c); cbn [negb andb]; [|discriminate].
  destruct (o_cert_parses o); cbn [negb]; discriminate.
Qed.

Lemma has_kill_e3 v proto (b : bool) :
  has_kill (if b then ([EfSetPlugins v] ++ [EfSetProto proto]) ++ [EfLoadCert] else [EfSetPlugins v] ++ [EfSetProto proto]) = false.
Proof. destruct b; reflexivity. Qed.

(* every line ends either in [fail e eff] or in acceptance with no kill effect *)
Lemma process_line_cases c o line :
  (exists e eff, process_line P c o line = fail e eff) \/
  (exists a eff, process_line P c o line = (OOk a, eff) /\ has_kill eff = false).
Proof.
  unfold process_line. cbv zeta.
  destruct (Nat.ltb _ _); [left; eauto|].
  destruct (atoi _) as [core|]; [|left; eauto].
  destruct (negb (Z.eqb core _)); [left; eauto|].
  destruct (client_accept _ _) as [[v set]|]; [|left; eauto].
  destruct (negb (o_translate_ok o)); [left; eauto|].
  destruct (hp_checks_addr_err P && negb _); [left; eauto|].
  destruct (negb (mem_bytes _ _)); [left; eauto|].
  destruct (cert_check P c o _) as [[e|]|] eqn:EC; [left; eauto| |exfalso; eapply cert_check_no_panic; eauto].
  destruct (mux_check c _ _) as [e|]; [left; eauto|].
  right. eexists; eexists; split; [reflexivity|apply has_kill_e3].
Qed.

Theorem process_line_no_panic c o line : fst (process_line P c o line) <> OPanic.
Proof.
  destruct (process_line_cases c o line) as [(e & eff & ->)|(a & eff & -> & _)]; simpl; discriminate.
Qed.

Theorem process_line_kill c o line :
  match fst (process_line P c o line) with
  | OOk _ => has_kill (snd (process_line P c o line)) = false
  | _ => has_kill (snd (process_line P c o line)) = true
  end.
Proof.
  destruct (process_line_cases c o line) as [(e & eff & ->)|(a & eff & -> & H)].
  - cbn [fst fail]. apply fail_kill.
  - cbn [fst snd]. exact H.
Qed.

Lemma mux_check_spec c proto parts :
  mux_check c proto parts = None <->
  (if h_mux c && bytes_eqb proto grpc
   then Nat.leb 7 (List.length parts) && match parse_bool (nthb parts 6) with Some true => true | _ => false end
   else true) = true.
Proof.
  unfold mux_check. destruct (h_mux c && bytes_eqb proto grpc); [|tauto].
  destruct (Nat.leb_spec (List.length parts) 6) as [H|H].
  - destruct (Nat.leb_spec 7 (List.length parts)) as [H2|H2]; [lia|]. cbn [andb]. split; discriminate.
  - destruct (Nat.leb_spec 7 (List.length parts)) as [H2|H2]; [|lia]. cbn [andb].
    destruct (parse_bool _) as [[|]|]; split; try discriminate; auto.
Qed.

Lemma cert_check_spec c o parts :
  cert_check P c o (has_cert_field P parts) = Some None <->
  (if Nat.leb 6 (List.length parts) && Nat.ltb (hp_cert_len P) (List.length (nthb parts 5))
   then o_cert_parses o && h_has_tls c else true) = true.
Proof.
  unfold cert_check, has_cert_field. rewrite Hguard.
  destruct (Nat.leb 6 _ && Nat.ltb _ _); cbn [negb]; [|tauto].
  destruct (h_has_tls c); cbn [negb andb].
  - destruct (o_cert_parses o); cbn [negb andb]; split; try discriminate; auto.
  - rewrite andb_false_r. split; discriminate.
Qed.

(* 3. a line is accepted exactly when it is well formed, and then the reported values are the line's *)
Theorem process_line_ok_iff_wf c o line a :
  fst (process_line P c o line) = OOk a <-> wf_line P c o line a = true.
Proof.
  unfold process_line, wf_line. cbv zeta. rewrite Haddr.
  set (parts := split 124 (trim_space line)).
  fold (proto_of_parts parts).
  rewrite (Nat.leb_antisym (List.length parts) (hp_min_fields P)).
  destruct (Nat.ltb (List.length parts) (hp_min_fields P)); cbn [negb andb fst fail]; [split; discriminate|].
  destruct (atoi (nthb parts 0)) as [core|]; cbn [andb fst fail]; [|split; discriminate].
  destruct (Z.eqb core (hp_core P)); cbn [negb andb fst fail]; [|split; discriminate].
  unfold client_accept.
  destruct (atoi (nthb parts 1)) as [v|]; cbn [andb fst fail]; [|split; discriminate].
  destruct (mget (client_map (h_client c)) v) as [set|]; cbn [andb fst fail]; [|split; discriminate].
  destruct (o_translate_ok o); cbn [negb andb fst fail]; [|rewrite andb_false_r; split; discriminate].
  unfold addr_known.
  destruct (bytes_eqb (o_net o) (bs "tcp") || bytes_eqb (o_net o) (bs "unix")); cbn [negb andb fst fail];
    [|rewrite !andb_false_r; split; discriminate].
  destruct (o_resolves o); cbn [negb andb fst fail]; [|rewrite !andb_false_r; split; discriminate].
  destruct (mem_bytes (proto_of_parts parts) (h_allowed c)) eqn:EM; cbn [negb andb fst fail];
    [|rewrite !andb_false_r; split; discriminate].
  pose proof (cert_check_spec c o parts) as HC.
  pose proof (mux_check_spec c (proto_of_parts parts) parts) as HM.
  destruct (cert_check P c o (has_cert_field P parts)) as [[e|]|] eqn:EC.
  - cbn [fst fail]. split; [discriminate|]. intros H.
    repeat (apply andb_true_iff in H; destruct H as [H ?]).
    match goal with X : (if _ then _ else _) = true |- _ => apply HC in X; discriminate end || (exfalso; destruct HC as [_ HC]; rewrite HC in EC; [discriminate|assumption]).
  - destruct (mux_check c (proto_of_parts parts) parts) as [e|] eqn:EMx.
    + cbn [fst fail]. split; [discriminate|]. intros H.
      apply andb_true_iff in H. destruct H as [_ H]. apply HM in H. discriminate.
    + cbn [fst]. destruct HC as [HC _]. destruct HM as [HM _]. rewrite (HC eq_refl), (HM eq_refl).
      rewrite !andb_true_r. split.
      * intros H. inversion H; subst; cbn [a_net a_addr a_resolved a_proto a_version a_set].
        rewrite !Z.eqb_refl. cbn [andb].
        assert (R : forall x, bytes_eqb x x = true) by (intros x; apply bytes_eqb_eq; reflexivity).
        rewrite !R. reflexivity.
      * intros H. repeat (apply andb_true_iff in H; destruct H as [H ?]).
        destruct a as [an aa ar ap av aset]; cbn [a_net a_addr a_resolved a_proto a_version a_set] in *.
        repeat match goal with
               | X : bytes_eqb _ _ = true |- _ => apply bytes_eqb_eq in X
               | X : Z.eqb _ _ = true |- _ => apply Z.eqb_eq in X
               end. subst. reflexivity.
  - exfalso. eapply cert_check_no_panic; eauto.
Qed.

Hypothesis Hmin : (2 <= hp_min_fields P)%nat.

Lemma process_empty_line c o : process_line P c o [] = fail EUnrecognized [].
Proof.
  unfold process_line. cbv zeta.
  assert (L : List.length (split 124 (trim_space [])) = 1%nat) by reflexivity.
  destruct (Nat.ltb_spec (List.length (split 124 (trim_space []))) (hp_min_fields P)) as [H|H]; [reflexivity|].
  rewrite L in H. lia.
Qed.

(* 4. the whole select: every outcome the model allows *)
Theorem start_outcomes c o out t r :
  In r (start_after_launch P c o out t) ->
  fst r <> OPanic /\
  (match fst r with OOk _ => has_kill (snd r) = false | _ => has_kill (snd r) = true end) /\
  (forall a, fst r = OOk a -> exists l, scan_first out t = SLine l /\ wf_line P c o l a = true) /\
  (scan_first out t = SNone -> r = fail ETimeout []).
Proof.
  unfold start_after_launch. destruct (scan_first out t) as [l| |] eqn:ES.
  - intros [<-|[]]. split; [apply process_line_no_panic|]. split; [apply process_line_kill|].
    split; [|discriminate]. intros a Ha. exists l. split; auto. apply process_line_ok_iff_wf; auto.
  - assert (X : forall r', (r' = process_line P c o [] \/ r' = fail EExited []) ->
        fst r' <> OPanic /\ match fst r' with OOk _ => has_kill (snd r') = false | _ => has_kill (snd r') = true end /\
        (forall a, fst r' = OOk a -> exists l, SClosed = SLine l /\ wf_line P c o l a = true) /\ (SClosed = SNone -> r' = fail ETimeout [])).
    { intros r' Hr'. assert (Ef : exists e, r' = fail e []).
      { destruct Hr' as [Hr'|Hr']; subst r'; [rewrite process_empty_line|]; eauto. }
      destruct Ef as [e Ef]. subst r'. cbn [fst fail].
      split; [discriminate|]. split; [apply fail_kill|]. split; [discriminate|discriminate]. }
    destruct t; intros H; apply X; cbn [In] in H; intuition auto.
  - intros [<-|[]]. cbn [fst fail]. split; [discriminate|]. split; [apply fail_kill|]. split; [discriminate|auto].
Qed.

(* a well-formed line is accepted (the theorem is not satisfied by "always an error") *)
Theorem wf_line_accepted c o out t l a :
  scan_first out t = SLine l -> wf_line P c o l a = true ->
  exists eff, start_after_launch P c o out t = [(OOk a, eff)].
Proof.
  intros ES H. unfold start_after_launch. rewrite ES.
  apply process_line_ok_iff_wf in H; auto.
  destruct (process_line P c o l) as [oc eff]. cbn [fst] in H. subst. eauto.
Qed.

(* 5. the correspondence oracle accepts every observation the model can produce *)
Theorem oracle_accepts_model c o out t :
  forallb (oracle_obs P c o out t) (map enc_outcome (start_after_launch P c o out t)) = true.
Proof.
  apply forallb_forall. intros x Hx. apply in_map_iff in Hx. destruct Hx as [r [<- Hr]].
  destruct (start_outcomes c o out t r Hr) as (NP & K & W & _).
  destruct r as [oc eff]. cbn [fst snd] in *. unfold enc_outcome, oracle_obs. cbn [fst snd].
  destruct oc as [a|e|]; [| |congruence].
  - destruct (W a eq_refl) as [l [ES HW]]. rewrite K, ES. cbn [dbool vbool].
    assert (Hr' : a_resolved a = true).
    { unfold wf_line in HW. cbv zeta in HW. repeat (apply andb_true_iff in HW; destruct HW as [HW ?]). assumption. }
    rewrite Hr'. cbn. destruct a; cbn in *. subst. exact HW.
  - rewrite K. cbn. destruct e; reflexivity.
Qed.

End WithParams.
