From Coq Require Import List NArith ZArith Bool Lia.
From GP Require Import Base.Val Base.Bytes Model.Negotiate Model.Handshake Model.LaunchOpts Model.StartFail Model.StartPipe
  Proofs.HandshakeP Proofs.StartFailP Proofs.LaunchOptsP.
From GP Require Model.Secure.
Import ListNotations.

Section P.
Variables (PL : lo_params) (PS : sf_params) (PH : hs_params).
Hypothesis HL : LaunchOptsP.shape PL.
Hypothesis HS : StartFailP.shape PS.
(* every failing outcome of the handshake stage carries the kill (C01/C05, Proofs/HandshakeP.v) *)
Hypothesis HH : forall c o out t r, In r (start_after_launch PH c o out t) ->
  match fst r with OOk _ => has_kill (snd r) = false | _ => has_kill (snd r) = true end.

(* Whenever Start returns an error, then: nothing was launched; or Start killed what it launched before returning;
   or the runner (which names its workload) is on record and any later Kill, once or many times, ends the workload.
   And in every one of these cases in which a runner was obtained and names its workload, a later Kill removes the
   socket directory. *)
Theorem start_error_leaves_nothing opts w e n :
  In e (start_pipeline PL PS PH opts w) -> e_error e = true -> (1 <= n)%nat ->
  (e_launched e = false \/ e_killed_by_start e = true \/
   (sc_named (e_client e) = true -> sc_workload (sf_kills PS n (e_client e)) = false)) /\
  (sc_runner (e_client e) = true -> sc_named (e_client e) = true -> sc_dir (sf_kills PS n (e_client e)) = false).
Proof.
  intros Hin Herr Hn. unfold start_pipeline in Hin.
  destruct (negb (Z.eqb (option_check PL opts) 0)) eqn:Ek.
  { destruct Hin as [<-|[]]. cbn. split; [left; reflexivity|discriminate]. }
  assert (Hrs : forall l launched named,
            (sc_named (failed_runner_start PS l launched named) = true ->
             sc_workload (sf_kills PS n (failed_runner_start PS l launched named)) = false) /\
            (sc_runner (failed_runner_start PS l launched named) = true ->
             sc_named (failed_runner_start PS l launched named) = true ->
             sc_dir (sf_kills PS n (failed_runner_start PS l launched named)) = false)).
  { intros l launched named. split.
    - intros Hnm. cbn in Hnm. subst named.
      destruct (kill_after_failed_runner_start PS l launched n HS Hn) as (W & _). exact W.
    - intros _ Hnm. cbn in Hnm. subst named.
      destruct (kill_after_failed_runner_start PS l launched n HS Hn) as (_ & D & _). exact D. }
  assert (Hhs : forall byrunner r, In r (start_after_launch PH (w_hs_cfg w) (w_oracle w) (w_out w) (w_term w)) ->
            negb (is_ok (fst r)) = true ->
            has_kill (snd r) && sf_start_kill_ctx_fresh PS = true /\
            sc_dir (sf_kills PS n {| sc_runner := true; sc_named := true; sc_dir := byrunner;
                                     sc_workload := negb (has_kill (snd r) && sf_start_kill_ctx_fresh PS);
                                     sc_kills := if has_kill (snd r) && sf_start_kill_ctx_fresh PS then 1 else 0 |}) = false).
  { intros byrunner r Hr Hnok. specialize (HH _ _ _ _ r Hr).
    destruct HS as (_ & H2 & H3 & H4 & H5).
    destruct (fst r); cbn in Hnok; try discriminate; (split; [rewrite HH, H5; reflexivity|]);
      destruct n as [|m]; try lia; cbn [sf_kills];
      unfold sf_kill at 1; cbn [sc_runner sc_named sc_dir sc_workload sc_kills andb]; rewrite H2, H3, H4; cbn [negb];
      rewrite sf_kills_done by reflexivity; cbn; apply andb_false_r. }
  destruct (method_used opts) eqn:Em.
  - destruct Hin as [<-|[]]. cbn in Herr. discriminate.
  - destruct (l_secure opts && _).
    { destruct Hin as [<-|[]]. cbn. split; [left; reflexivity|discriminate]. }
    destruct (true && w_factory_fails w).
    { destruct Hin as [<-|[]]. cbn. split; [left; reflexivity|discriminate]. }
    destruct (w_runner_start w) as [[launched named]|].
    + destruct Hin as [<-|[]]. cbn [e_launched e_killed_by_start e_client].
      destruct (Hrs SfRunner launched named) as (A & B). split; [right; right; exact A|exact B].
    + apply in_map_iff in Hin. destruct Hin as (r & <- & Hr). cbn [e_launched e_killed_by_start e_client e_error] in *.
      destruct (Hhs true r Hr Herr) as (K & D). split; [right; left; exact K|intros _ _; exact D].
  - destruct (l_secure opts && _).
    { destruct Hin as [<-|[]]. cbn. split; [left; reflexivity|discriminate]. }
    destruct (false && w_factory_fails w).
    { destruct Hin as [<-|[]]. cbn. split; [left; reflexivity|discriminate]. }
    destruct (w_runner_start w) as [[launched named]|].
    + destruct Hin as [<-|[]]. cbn [e_launched e_killed_by_start e_client].
      destruct (Hrs SfCmd launched named) as (A & B). split; [right; right; exact A|exact B].
    + apply in_map_iff in Hin. destruct Hin as (r & <- & Hr). cbn [e_launched e_killed_by_start e_client e_error] in *.
      destruct (Hhs false r Hr Herr) as (K & D). split; [right; left; exact K|intros _ _; exact D].
Qed.

(* Start gets as far as launching only for an unambiguous configuration whose binary matches its checksum *)
Theorem launch_needs_checks opts w e :
  In e (start_pipeline PL PS PH opts w) -> e_launched e = true ->
  unambiguous opts = true /\
  (l_secure opts = true -> Secure.launched (Secure.start_secure (w_checksum w) (w_hash_present w) (w_file w)) = true).
Proof.
  intros Hin Hl. unfold start_pipeline in Hin.
  destruct (Z.eqb (option_check PL opts) 0) eqn:Ek; cbn [negb] in Hin.
  2:{ destruct Hin as [<-|[]]. discriminate. }
  apply Z.eqb_eq in Ek. split; [apply (option_check_sound PL opts HL); exact Ek|].
  intros Hs. rewrite Hs in Hin. cbn [andb] in Hin.
  destruct (method_used opts); [destruct Hin as [<-|[]]; discriminate| |];
    (destruct (Secure.launched _); [reflexivity|]; cbn [negb] in Hin; destruct Hin as [<-|[]]; discriminate).
Qed.

End P.
