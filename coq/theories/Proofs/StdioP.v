From Coq Require Import List NArith ZArith Bool Lia.
From GP Require Import Base.Val Base.Bytes Model.Stdio.
Import ListNotations.

Lemma pieces_concat fuel : forall csize d, (0 < csize)%nat -> (length d < fuel)%nat -> concat (pieces fuel csize d) = d.
Proof.
  induction fuel as [|f IH]; intros csize d Hc Hf; [lia|].
  destruct d as [|x d']; [reflexivity|]. cbn [pieces concat].
  rewrite IH; [apply firstn_skipn|exact Hc|]. rewrite skipn_length. cbn [length] in *. lia.
Qed.

Lemma pieces_bound fuel : forall csize d c, In c (pieces fuel csize d) -> (length c <= csize)%nat /\ (0 < csize -> c <> []).
Proof.
  induction fuel as [|f IH]; intros csize d c H; [destruct H|].
  destruct d as [|x d']; [destruct H|]. cbn [pieces] in H. destruct H as [<-|H].
  - split; [apply firstn_le_length|]. intros Hc. destruct csize; [lia|]. discriminate.
  - eapply IH; eauto.
Qed.

Theorem copy_chan_concat fuel : forall csize bsize reads data,
  (0 < csize)%nat -> (0 < bsize)%nat -> (length data < fuel)%nat ->
  concat (copy_chan fuel csize bsize reads data) = data.
Proof.
  induction fuel as [|f IH]; intros csize bsize reads data Hc Hb Hf; [lia|].
  destruct data as [|x d']; [reflexivity|]. cbn [copy_chan].
  set (k := match reads with r :: _ => Nat.max 1 (Nat.min r bsize) | [] => bsize end).
  assert (Hk : (0 < k)%nat) by (unfold k; destruct reads; lia).
  rewrite concat_app, pieces_concat; [|exact Hc|].
  - rewrite IH; [apply firstn_skipn|exact Hc|exact Hb|]. rewrite skipn_length. cbn [length] in *. lia.
  - apply Nat.lt_succ_r. rewrite firstn_length. apply Nat.le_min_r.
Qed.

Theorem copy_chan_chunks fuel : forall csize bsize reads data c,
  (0 < csize)%nat -> In c (copy_chan fuel csize bsize reads data) -> (length c <= csize)%nat /\ c <> [].
Proof.
  induction fuel as [|f IH]; intros csize bsize reads data c Hc H; [destruct H|].
  destruct data as [|x d']; [destruct H|]. cbn [copy_chan] in H. apply in_app_or in H. destruct H as [H|H].
  - apply pieces_bound in H. split; [tauto|apply H; exact Hc].
  - eapply IH; eauto.
Qed.

(* demultiplexing any order-preserving merge gives back the two chunk lists' contents *)
Lemma client_run_merge fuel : forall sched a b, (length a + length b < fuel)%nat ->
  client_run (merge fuel sched a b) = (concat a, concat b).
Proof.
  induction fuel as [|f IH]; intros sched a b Hf; [lia|].
  destruct a as [|x a'], b as [|y b']; cbn [merge]; [reflexivity| | |].
  - cbn [client_run]. rewrite IH by (cbn [length] in *; lia). reflexivity.
  - cbn [client_run]. rewrite IH by (cbn [length] in *; lia). reflexivity.
  - destruct sched as [|[|] s']; cbn [client_run]; rewrite IH by (cbn [length] in *; lia); reflexivity.
Qed.

Lemma client_run_filter msgs :
  client_run (filter (fun m => match snd m with [] => false | _ => true end) msgs) = client_run msgs.
Proof.
  induction msgs as [|[t c] r IH]; [reflexivity|]. cbn [filter snd].
  destruct c as [|c0 c']; cbn [client_run]; rewrite IH; destruct (client_run r) as [o e]; destruct t; reflexivity.
Qed.

(* every byte written to either pipe arrives exactly once, in order, on its own stream, for all write
   contents, all read-size schedules of both pipes and all interleavings of the two streams *)
Theorem stdio_exact csize bsize r1 r2 sched o e :
  (0 < csize)%nat -> (0 < bsize)%nat ->
  end_to_end csize bsize r1 r2 sched o e = (o, e).
Proof.
  intros Hc Hb. unfold end_to_end, stream_stdio.
  rewrite client_run_filter, client_run_merge by lia.
  rewrite !copy_chan_concat by (auto; lia). reflexivity.
Qed.

(* unknown tags are dropped and never cross into either stream *)
Lemma client_run_unknown msgs c : client_run ((TUnknown, c) :: msgs) = client_run msgs.
Proof. cbn [client_run]. destruct (client_run msgs); reflexivity. Qed.
