From Coq Require Import List NArith ZArith Bool Lia String.
From GP Require Import Base.Val Base.Bytes Base.GoStrings Model.Negotiate Model.Env Model.Params Proofs.SecureP.
Import ListNotations.

Definition no_eq (k : bytes) : bool := forallb (fun c => negb (N.eqb c 61)) k.

Lemma split_eq_acc k : forall v acc, no_eq k = true -> split_eq (k ++ 61%N :: v) acc = Some (frev acc ++ k, v).
Proof.
  induction k as [|c k IH]; intros v acc H.
  - cbn. rewrite app_nil_r. reflexivity.
  - cbn [no_eq forallb] in H. apply andb_true_iff in H. destruct H as [Hc Hk].
    cbn [app split_eq]. destruct (N.eqb c 61); [discriminate|].
    rewrite IH by exact Hk. unfold frev. cbn [rev_append]. rewrite rev_append_rev. rewrite (rev_append_rev acc).
    cbn [rev]. rewrite <- !app_assoc. reflexivity.
Qed.

Lemma split_eq_mk k v : no_eq k = true -> split_eq (mk k v) [] = Some (k, v).
Proof. intros H. unfold mk. cbn [app]. rewrite split_eq_acc by exact H. reflexivity. Qed.

Lemma eff_app k a : forall b,
  effective k (a ++ b) = match effective k b with Some v => Some v | None => effective k a end.
Proof.
  induction a as [|e a IH]; intros b; cbn [app effective].
  - destruct (effective k b); reflexivity.
  - rewrite IH. destruct (effective k b); reflexivity.
Qed.

Lemma eff_single k k' v : no_eq k' = true ->
  effective k [mk k' v] = if bytes_eqb k k' then Some v else None.
Proof. intros H. cbn [effective]. rewrite split_eq_mk by exact H. reflexivity. Qed.

Lemma eff_nil k : effective k [] = None. Proof. reflexivity. Qed.

Lemma bytes_eqb_refl k : bytes_eqb k k = true.
Proof. apply bytes_eqb_eq. reflexivity. Qed.

(* go-plugin's own entries, in append order *)
Definition own (P : env_params) (c : env_cfg) (cert dir : bytes) : list entry :=
  [ mk (e_cookie_key c) (e_cookie_value c);
    mk k_min (itoa (e_min_port c));
    mk k_max (itoa (e_max_port c));
    mk k_versions (join [44%N] (map itoa (e_versions c))) ] ++
  (if e_mux c then [mk (ep_mux_key P) (bs "true")]
   else if ep_clears_inherited P then [mk (ep_mux_key P) []] else []) ++
  (if e_automtls c then [mk k_cert cert]
   else if ep_clears_inherited P then [mk k_cert []] else []) ++
  (if match e_group c with [] => true | _ => false end then [] else [mk (ep_group_key P) (e_group c)]) ++
  (match e_launch c with LRunnerFunc => [mk (ep_dir_key P) dir] | LCmd => [] end).

Lemma build_env_own P c cert dir cmd_env host_env :
  build_env P c cert dir cmd_env host_env =
  cmd_env ++ (if e_skip_host_env c then [] else host_env) ++ own P c cert dir.
Proof. reflexivity. Qed.

Section Current.
Let P := gen_env_params.

Hypothesis clears : ep_clears_inherited P = true.

(* effective value of a control key over go-plugin's own entries, by computation on each shape *)
Ltac own_compute c :=
  unfold own, P, gen_env_params in *;
  generalize (itoa (e_min_port c)) (itoa (e_max_port c)) (join [44%N] (map itoa (e_versions c)));
  intros mn mx vs;
  destruct (e_mux c), (e_automtls c), (e_launch c); destruct (e_group c) as [|g0 g];
  rewrite ?clears.

Definition ctl (c : env_cfg) : Prop := is_control_key P (e_cookie_key c) = false /\ no_eq (e_cookie_key c) = true.

Lemma ctl_neq c k : ctl c -> In k [k_min; k_max; k_versions; k_cert; ep_mux_key P; ep_group_key P; ep_dir_key P] ->
  bytes_eqb k (e_cookie_key c) = false.
Proof.
  intros [H _] Hin. unfold is_control_key in H.
  destruct (bytes_eqb k (e_cookie_key c)) eqn:E; auto. apply bytes_eqb_eq in E. subst k.
  assert (mem_bytes (e_cookie_key c) [k_min; k_max; k_versions; k_cert; ep_mux_key P; ep_group_key P; ep_dir_key P] = true).
  { clear H. induction [k_min; k_max; k_versions; k_cert; ep_mux_key P; ep_group_key P; ep_dir_key P] as [|x l IH]; [destruct Hin|].
    cbn [mem_bytes]. destruct Hin as [->|Hin]; [rewrite bytes_eqb_refl; reflexivity|rewrite IH by exact Hin; apply orb_true_r]. }
  congruence.
Qed.

(* generic: effective of a control key k over [own], when the cookie key is not a control key *)
Lemma own_effective_ctl c cert dir k (kc : bytes) :
  ctl c -> bytes_eqb k (e_cookie_key c) = false ->
  effective k (own P c cert dir) =
  effective k ([mk k_min (itoa (e_min_port c)); mk k_max (itoa (e_max_port c));
                mk k_versions (join [44%N] (map itoa (e_versions c)))] ++
               (if e_mux c then [mk (ep_mux_key P) (bs "true")] else [mk (ep_mux_key P) []]) ++
               (if e_automtls c then [mk k_cert cert] else [mk k_cert []]) ++
               (if match e_group c with [] => true | _ => false end then [] else [mk (ep_group_key P) (e_group c)]) ++
               (match e_launch c with LRunnerFunc => [mk (ep_dir_key P) dir] | LCmd => [] end)).
Proof.
  intros [_ Hne] Hk. unfold own. rewrite clears.
  change ([mk (e_cookie_key c) (e_cookie_value c); mk k_min (itoa (e_min_port c)); mk k_max (itoa (e_max_port c));
           mk k_versions (join [44%N] (map itoa (e_versions c)))])
    with ([mk (e_cookie_key c) (e_cookie_value c)] ++ [mk k_min (itoa (e_min_port c)); mk k_max (itoa (e_max_port c));
           mk k_versions (join [44%N] (map itoa (e_versions c)))]).
  rewrite <- app_assoc. rewrite (eff_app k [mk (e_cookie_key c) (e_cookie_value c)]).
  rewrite eff_single by exact Hne. rewrite Hk.
  destruct (effective k _); reflexivity.
Qed.

Ltac solve_ctl c :=
  generalize (itoa (e_min_port c)) (itoa (e_max_port c)) (join [44%N] (map itoa (e_versions c)));
  intros mn mx vs;
  destruct (e_mux c), (e_automtls c), (e_launch c); destruct (e_group c) as [|g0 g];
  vm_compute; reflexivity.

Theorem own_versions c cert dir : ctl c ->
  effective k_versions (own P c cert dir) = Some (join [44%N] (map itoa (e_versions c))).
Proof.
  intros H. rewrite (own_effective_ctl c cert dir k_versions []) by (auto; apply ctl_neq; cbn; auto).
  solve_ctl c.
Qed.

Theorem own_min c cert dir : ctl c -> effective k_min (own P c cert dir) = Some (itoa (e_min_port c)).
Proof.
  intros H. rewrite (own_effective_ctl c cert dir k_min []) by (auto; apply ctl_neq; cbn; auto).
  solve_ctl c.
Qed.

Theorem own_max c cert dir : ctl c -> effective k_max (own P c cert dir) = Some (itoa (e_max_port c)).
Proof.
  intros H. rewrite (own_effective_ctl c cert dir k_max []) by (auto; apply ctl_neq; cbn; auto).
  solve_ctl c.
Qed.

Theorem own_mux c cert dir : ctl c ->
  effective (ep_mux_key P) (own P c cert dir) = Some (if e_mux c then bs "true" else []).
Proof.
  intros H. rewrite (own_effective_ctl c cert dir (ep_mux_key P) []) by (auto; apply ctl_neq; cbn; auto 10).
  solve_ctl c.
Qed.

Theorem own_cert c cert dir : ctl c ->
  effective k_cert (own P c cert dir) = Some (if e_automtls c then cert else []).
Proof.
  intros H. rewrite (own_effective_ctl c cert dir k_cert []) by (auto; apply ctl_neq; cbn; auto 10).
  solve_ctl c.
Qed.

Theorem own_group c cert dir : ctl c -> e_group c <> [] -> no_eq (e_group c) = no_eq (e_group c) ->
  effective (ep_group_key P) (own P c cert dir) = Some (e_group c).
Proof.
  intros H Hg _. rewrite (own_effective_ctl c cert dir (ep_group_key P) []) by (auto; apply ctl_neq; cbn; auto 10).
  generalize (itoa (e_min_port c)) (itoa (e_max_port c)) (join [44%N] (map itoa (e_versions c))). intros mn mx vs.
  destruct (e_group c) as [|g0 g]; [congruence|].
  destruct (e_mux c), (e_automtls c), (e_launch c); vm_compute; reflexivity.
Qed.

Theorem own_dir c cert dir : ctl c -> e_launch c = LRunnerFunc ->
  effective (ep_dir_key P) (own P c cert dir) = Some dir.
Proof.
  intros H Hl. rewrite (own_effective_ctl c cert dir (ep_dir_key P) []) by (auto; apply ctl_neq; cbn; auto 10).
  rewrite Hl.
  generalize (itoa (e_min_port c)) (itoa (e_max_port c)) (join [44%N] (map itoa (e_versions c))). intros mn mx vs.
  destruct (e_mux c), (e_automtls c); destruct (e_group c) as [|g0 g]; vm_compute; reflexivity.
Qed.

Theorem own_cookie c cert dir : ctl c ->
  effective (e_cookie_key c) (own P c cert dir) = Some (e_cookie_value c).
Proof.
  intros H. pose proof H as [Hc Hne].
  assert (N : forall k v, In k [k_min; k_max; k_versions; k_cert; ep_mux_key P; ep_group_key P; ep_dir_key P] ->
              effective (e_cookie_key c) [mk k v] = None).
  { intros k v Hin. rewrite eff_single.
    - destruct (bytes_eqb (e_cookie_key c) k) eqn:E; auto. apply bytes_eqb_eq in E.
      pose proof (ctl_neq c k H Hin) as X. rewrite <- E, bytes_eqb_refl in X. discriminate.
    - cbn in Hin. repeat (destruct Hin as [<-|Hin]; [vm_compute; reflexivity|]). destruct Hin. }
  unfold own. rewrite clears.
  repeat rewrite eff_app.
  assert (T : forall l, (forall e, In e l -> exists k v, e = mk k v /\ In k [k_min; k_max; k_versions; k_cert; ep_mux_key P; ep_group_key P; ep_dir_key P]) ->
                        effective (e_cookie_key c) l = None).
  { induction l as [|e l IHl]; intros Hl; [reflexivity|].
    change (e :: l) with ([e] ++ l). rewrite eff_app, IHl by (intros; apply Hl; right; auto).
    destruct (Hl e (or_introl eq_refl)) as (k & v & -> & Hin). apply N; exact Hin. }
  rewrite (T (match e_launch c with LRunnerFunc => [mk (ep_dir_key P) dir] | LCmd => [] end)).
  2:{ intros e He. destruct (e_launch c); [destruct He|]. destruct He as [<-|[]]. eexists; eexists; split; [reflexivity|cbn; auto 10]. }
  rewrite (T (if match e_group c with [] => true | _ :: _ => false end then [] else [mk (ep_group_key P) (e_group c)])).
  2:{ intros e He. destruct (e_group c); [destruct He|]. destruct He as [<-|[]]. eexists; eexists; split; [reflexivity|cbn; auto 10]. }
  rewrite (T (if e_automtls c then [mk k_cert cert] else [mk k_cert []])).
  2:{ intros e He. destruct (e_automtls c); destruct He as [<-|[]]; eexists; eexists; (split; [reflexivity|cbn; auto 10]). }
  rewrite (T (if e_mux c then [mk (ep_mux_key P) (bs "true")] else [mk (ep_mux_key P) []])).
  2:{ intros e He. destruct (e_mux c); destruct He as [<-|[]]; eexists; eexists; (split; [reflexivity|cbn; auto 10]). }
  change ([mk (e_cookie_key c) (e_cookie_value c); mk k_min (itoa (e_min_port c)); mk k_max (itoa (e_max_port c));
           mk k_versions (join [44%N] (map itoa (e_versions c)))])
    with ([mk (e_cookie_key c) (e_cookie_value c)] ++ [mk k_min (itoa (e_min_port c)); mk k_max (itoa (e_max_port c));
           mk k_versions (join [44%N] (map itoa (e_versions c)))]).
  rewrite eff_app.
  rewrite (T [mk k_min (itoa (e_min_port c)); mk k_max (itoa (e_max_port c)); mk k_versions (join [44%N] (map itoa (e_versions c)))]).
  2:{ intros e He. destruct He as [<-|[<-|[<-|[]]]]; eexists; eexists; (split; [reflexivity|cbn [In]; auto 10]). }
  rewrite eff_single by exact Hne. rewrite bytes_eqb_refl. reflexivity.
Qed.

(* lifting to the whole environment: whatever the command's own Env and the host environment contain *)
Lemma env_effective c cert dir cmd_env host_env k v :
  effective k (own P c cert dir) = Some v ->
  effective k (build_env P c cert dir cmd_env host_env) = Some v.
Proof. intros H. rewrite build_env_own, !eff_app, H. reflexivity. Qed.

(* with SkipHostEnv nothing of the host's environment is passed *)
Lemma skip_no_host c cert dir cmd_env host_env e :
  e_skip_host_env c = true -> In e (build_env P c cert dir cmd_env host_env) ->
  In e cmd_env \/ In e (own P c cert dir).
Proof.
  intros Hs H. rewrite build_env_own, Hs in H. cbn [app] in H. apply in_app_or in H. exact H.
Qed.

End Current.
