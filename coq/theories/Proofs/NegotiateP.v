From Coq Require Import List NArith ZArith Bool Lia Sorting.Sorted Permutation.
From GP Require Import Base.Val Base.Bytes Base.GoStrings Model.Negotiate.
Import ListNotations.
Open Scope Z_scope.

Lemma memZ_In x l : memZ x l = true <-> In x l.
Proof.
  induction l as [|y r IH]; simpl; [split; [discriminate|tauto]|].
  rewrite orb_true_iff, Z.eqb_eq, IH. split; intros [H|H]; auto.
Qed.

Definition desc (l : list Z) := StronglySorted (fun a b => b <= a) l.

Lemma insert_desc_perm x l : Permutation (x :: l) (insert_desc x l).
Proof.
  induction l as [|y r IH]; simpl; auto.
  destruct (Z.leb y x); auto.
  eapply perm_trans; [apply perm_swap|]. apply perm_skip. exact IH.
Qed.

Lemma sort_desc_perm l : Permutation l (sort_desc l).
Proof.
  induction l as [|x r IH]; simpl; auto.
  eapply perm_trans; [apply perm_skip; exact IH|]. apply insert_desc_perm.
Qed.

Lemma insert_desc_sorted x l : desc l -> desc (insert_desc x l).
Proof.
  induction l as [|y r IH]; intros H; simpl.
  - constructor; constructor.
  - destruct (Z.leb_spec y x) as [Hle|Hlt].
    + constructor; auto. inversion H as [|? ? Hs Hf]; subst.
      constructor; auto. rewrite Forall_forall in *. intros z Hz. specialize (Hf z Hz). lia.
    + inversion H as [|? ? Hs Hf]; subst. constructor; [apply IH; auto|].
      rewrite Forall_forall in *. intros z Hz.
      apply (Permutation_in _ (Permutation_sym (insert_desc_perm x r))) in Hz.
      destruct Hz as [<-|Hz]; [lia|auto].
Qed.

Lemma sort_desc_sorted l : desc (sort_desc l).
Proof. induction l as [|x r IH]; simpl; [constructor|apply insert_desc_sorted; auto]. Qed.

Lemma sort_desc_In x l : In x (sort_desc l) <-> In x l.
Proof.
  split; intros H.
  - eapply Permutation_in; [apply Permutation_sym, sort_desc_perm|exact H].
  - eapply Permutation_in; [apply sort_desc_perm|exact H].
Qed.

Lemma memZ_sort x l : memZ x (sort_desc l) = memZ x l.
Proof.
  destruct (memZ x l) eqn:E.
  - apply memZ_In, sort_desc_In, memZ_In; auto.
  - destruct (memZ x (sort_desc l)) eqn:E2; auto.
    pose proof (proj1 (memZ_In _ _) E2) as H1. pose proof (proj1 (sort_desc_In _ _) H1) as H2.
    pose proof (proj2 (memZ_In _ _) H2) as H3. congruence.
Qed.

(* ---- the loop *)
Lemma pick_loop_common vs : forall m fac cvs cur,
  desc vs -> (exists v, In v vs /\ In v cvs) ->
  let r := pick_loop vs m fac cvs cur in
  is_max_common (fst (fst r)) vs cvs /\ snd r = mget m (fst (fst r)).
Proof.
  induction vs as [|v rest IH]; intros m fac cvs cur Hs [w [Hw Hc]]; [destruct Hw|].
  inversion Hs as [|? ? Hs' Hf]; subst. rewrite Forall_forall in Hf.
  cbn [pick_loop]. destruct (memZ v cvs) eqn:E.
  - apply memZ_In in E. cbn [fst snd]. split; [|reflexivity].
    split; [left; reflexivity|]. split; [exact E|].
    intros z [<-|Hz] _; [lia|apply Hf; exact Hz].
  - assert (Hne : w <> v).
    { intros ->. apply (proj2 (memZ_In _ _)) in Hc. congruence. }
    destruct Hw as [->|Hw]; [congruence|].
    destruct (IH m fac cvs (v, proto_of fac (snd (fst cur)) (mget m v), mget m v) Hs' (ex_intro _ w (conj Hw Hc)))
      as [(A & B & C) D].
    split; [|exact D]. split; [right; exact A|]. split; [exact B|].
    intros z [<-|Hz] Hzc; [apply (proj2 (memZ_In _ _)) in Hzc; congruence|apply C; assumption].
Qed.

Lemma pick_loop_disjoint vs : forall m fac cvs cur,
  desc vs -> vs <> [] -> (forall v, In v vs -> ~ In v cvs) ->
  let r := pick_loop vs m fac cvs cur in
  is_min (fst (fst r)) vs /\ snd r = mget m (fst (fst r)).
Proof.
  induction vs as [|v rest IH]; intros m fac cvs cur Hs Hne Hd; [congruence|].
  inversion Hs as [|? ? Hs' Hf]; subst. rewrite Forall_forall in Hf.
  cbn [pick_loop]. destruct (memZ v cvs) eqn:E.
  { apply memZ_In in E. exfalso. apply (Hd v); [left; reflexivity|exact E]. }
  destruct rest as [|v2 rest'].
  - cbn [pick_loop fst snd]. split; [|reflexivity]. split; [left; reflexivity|]. intros w [<-|[]]. lia.
  - destruct (IH m fac cvs (v, proto_of fac (snd (fst cur)) (mget m v), mget m v) Hs') as [[A B] C];
      [discriminate | intros z Hz; apply Hd; right; exact Hz |].
    split; [|exact C]. split; [right; exact A|]. intros w [<-|Hw]; [|apply B; exact Hw].
    specialize (Hf _ A). lia.
Qed.

Lemma pick_loop_empty m fac cvs cur : pick_loop [] m fac cvs cur = cur.
Proof. reflexivity. Qed.

(* the protocol of the result is that of the chosen set when a factory is configured and the
   set is a non-empty homogeneous set; without a factory it is net/rpc *)
Lemma pick_loop_proto vs : forall m fac cvs cur, vs <> [] ->
  let r := pick_loop vs m fac cvs cur in
  (fac = false -> snd (fst r) = snd (fst cur)) /\
  (fac = true -> forall p, snd r = Some p ->
     (ps_kind p = KGrpc -> snd (fst r) = PGrpc) /\ (ps_kind p = KNet -> snd (fst r) = PNet)).
Proof.
  induction vs as [|v rest IH]; intros m fac cvs cur Hne; [congruence|]. simpl.
  destruct (memZ v cvs) eqn:E; simpl.
  - split; [intros ->; reflexivity|]. intros -> p Hp. rewrite Hp. destruct p as [i []]; simpl; split; congruence.
  - destruct rest as [|v2 rest'].
    + simpl. split; [intros ->; reflexivity|]. intros -> p Hp. rewrite Hp. destruct p as [i []]; simpl; split; congruence.
    + specialize (IH m fac cvs (v, proto_of fac (snd (fst cur)) (mget m v), mget m v)).
      destruct IH as [A B]; [discriminate|]. split; auto.
      intros ->. simpl in A. apply A. reflexivity.
Qed.

(* ---- maps *)
Lemma mget_mdel_same m k : mget (mdel m k) k = None.
Proof. induction m as [|[a b] r IH]; simpl; auto. destruct (Z.eqb_spec k a); simpl; auto.
  destruct (Z.eqb_spec k a); [congruence|auto]. Qed.
Lemma mget_mdel_other m k k' : k' <> k -> mget (mdel m k) k' = mget m k'.
Proof. intros H. induction m as [|[a b] r IH]; simpl; auto. destruct (Z.eqb_spec k a); simpl.
  - subst. destruct (Z.eqb_spec k' a); [congruence|auto].
  - destruct (Z.eqb_spec k' a); auto. Qed.
Lemma mget_mset m k v k' : mget (mset m k v) k' = if Z.eqb k' k then Some v else mget m k'.
Proof. unfold mset; simpl. destruct (Z.eqb_spec k' k); auto. apply mget_mdel_other; auto. Qed.
Lemma mget_In_keys m k : mget m k <> None <-> In k (mkeys m).
Proof.
  induction m as [|[a b] r IH]; simpl; [tauto|]. destruct (Z.eqb_spec k a).
  - subst. split; auto. discriminate.
  - rewrite IH. split; [auto|intros [?|?]; [congruence|auto]].
Qed.

(* ---- server_pick against the specification, for any key order Go's map iteration produces
        and any order / garbling of the client's list *)
Theorem server_pick_highest_common c keys env :
  Permutation keys (mkeys (server_map c)) ->
  let C := parse_versions env in
  let S := mkeys (server_map c) in
  let r := server_pick_keys c keys env in
  ((exists v, In v S /\ In v C) ->
     is_max_common (fst (fst r)) S C /\ snd r = mget (server_map c) (fst (fst r))) /\
  (S <> [] -> disjoint S C ->
     is_min (fst (fst r)) S /\ ~ In (fst (fst r)) C /\ snd r = mget (server_map c) (fst (fst r))) /\
  (S = [] -> r = (s_version c, PNet, s_plugins c)).
Proof.
  intros HP C S r. unfold r, server_pick_keys. fold S.
  assert (HI : forall v, In v (sort_desc keys) <-> In v S).
  { intros v. rewrite sort_desc_In. split; intros H; [eapply Permutation_in; eauto|eapply Permutation_in; [apply Permutation_sym|]; eauto]. }
  assert (HC : forall v, In v (sort_desc (parse_versions env)) <-> In v C) by (intros; apply sort_desc_In).
  split; [|split].
  - intros [v [Hv Hc]].
    destruct (pick_loop_common (sort_desc keys) (server_map c) (s_factory c) (sort_desc (parse_versions env))
                (s_version c, PNet, s_plugins c) (sort_desc_sorted keys)) as [(A & B & D) E].
    { exists v. split; [apply HI|apply HC]; auto. }
    split; auto. repeat split; [apply HI; auto|apply HC; auto|].
    intros w Hw Hwc. apply D; [apply HI|apply HC]; auto.
  - intros Hne Hd.
    destruct (pick_loop_disjoint (sort_desc keys) (server_map c) (s_factory c) (sort_desc (parse_versions env))
                (s_version c, PNet, s_plugins c) (sort_desc_sorted keys)) as [[A B] E].
    { intros Hnil. destruct S as [|s0 S'] eqn:ES; [congruence|]. assert (In s0 (sort_desc keys)) by (apply HI; left; auto).
      rewrite Hnil in H. contradiction. }
    { intros v Hv Hvc. apply (Hd v); [apply HI|apply HC]; auto. }
    split; [split; [apply HI; auto|intros w Hw; apply B, HI; auto]|]. split; auto.
    apply Hd, HI; auto.
  - intros HS. assert (sort_desc keys = []).
    { destruct (sort_desc keys) as [|k0 ks] eqn:E; auto. assert (In k0 S) by (apply HI; left; auto). rewrite HS in H. contradiction. }
    rewrite H. reflexivity.
Qed.

Theorem server_pick_proto c keys env :
  Permutation keys (mkeys (server_map c)) -> mkeys (server_map c) <> [] ->
  let r := server_pick_keys c keys env in
  (s_factory c = false -> snd (fst r) = PNet) /\
  (s_factory c = true -> forall p, snd r = Some p ->
     (ps_kind p = KGrpc -> snd (fst r) = PGrpc) /\ (ps_kind p = KNet -> snd (fst r) = PNet)).
Proof.
  intros HP Hne r. unfold r, server_pick_keys.
  assert (sort_desc keys <> []).
  { destruct (mkeys (server_map c)) as [|s0 S'] eqn:ES; [congruence|].
    intros Hnil. assert (In s0 (sort_desc keys)).
    { apply sort_desc_In. eapply Permutation_in; [apply Permutation_sym; eauto|]. left; auto. }
    rewrite Hnil in H. contradiction. }
  destruct (pick_loop_proto (sort_desc keys) (server_map c) (s_factory c) (sort_desc (parse_versions env))
              (s_version c, PNet, s_plugins c) H) as [A B].
  split; auto.
Qed.

(* ---- client *)
Theorem client_accept_spec c field v p :
  client_accept c field = Some (v, p) <-> atoi field = Some v /\ mget (client_map c) v = Some p.
Proof.
  unfold client_accept. destruct (atoi field) as [a|]; [|split; [discriminate|intros [? _]; discriminate]].
  destruct (mget (client_map c) a) as [q|] eqn:E.
  - split; [intros H; inversion H; subst; auto|intros [H1 H2]; inversion H1; subst; congruence].
  - split; [discriminate|intros [H1 H2]; inversion H1; subst; congruence].
Qed.

Theorem client_reject_spec c field :
  client_accept c field = None <-> (atoi field = None \/ exists v, atoi field = Some v /\ ~ In v (mkeys (client_map c))).
Proof.
  unfold client_accept. destruct (atoi field) as [a|]; [|split; auto].
  destruct (mget (client_map c) a) as [q|] eqn:E.
  - split; [discriminate|]. intros [H|[v [H1 H2]]]; [discriminate|]. inversion H1; subst.
    exfalso. apply H2. apply mget_In_keys. congruence.
  - split; auto. intros _. right. exists a. split; auto. intros H. apply mget_In_keys in H. congruence.
Qed.

(* the client's version set: keys of VersionedPlugins, plus ProtocolVersion when Plugins is set and the key is free *)
Theorem client_map_keys c v :
  In v (mkeys (client_map c)) <->
  In v (mkeys (c_versioned c)) \/ (v = c_version c /\ c_plugins c <> None).
Proof.
  unfold client_map. destruct (c_plugins c) as [p|]; [|split; [auto|intros [?|[_ ?]]; [auto|congruence]]].
  destruct (mget (c_versioned c) (c_version c)) eqn:E; simpl.
  - split; auto. intros [H|[-> _]]; auto. apply mget_In_keys. congruence.
  - split; [intros [<-|H]; [right; split; [auto|discriminate]|auto]|intros [H|[-> _]]; auto].
Qed.

Lemma common_or_disjoint S C : (exists v, In v S /\ In v C) \/ disjoint S C.
Proof.
  unfold disjoint. induction S as [|s0 S IH]; [right; intros w []|].
  destruct (memZ s0 C) eqn:E.
  - left. exists s0. split; [left; reflexivity|apply memZ_In; exact E].
  - destruct IH as [[v [A B]]|IH].
    + left. exists v. split; [right; exact A|exact B].
    + right. intros w [<-|Hw]; [intros H; apply (proj2 (memZ_In _ _)) in H; congruence|apply IH; exact Hw].
Qed.

(* ---- the two sides together: whenever the client accepts the announced version, both sides use
        the sets registered under that same number, and it is the highest common one *)
Theorem negotiation_agrees sc cc keys env field :
  Permutation keys (mkeys (server_map sc)) ->
  (forall v, In v (parse_versions env) <-> In v (mkeys (client_map cc))) ->
  let r := server_pick_keys sc keys env in
  atoi field = Some (fst (fst r)) ->
  mkeys (server_map sc) <> [] ->
  match client_accept cc field with
  | Some (v, pc) =>
      v = fst (fst r) /\ mget (client_map cc) v = Some pc /\ snd r = mget (server_map sc) v /\
      is_max_common v (mkeys (server_map sc)) (mkeys (client_map cc))
  | None => disjoint (mkeys (server_map sc)) (mkeys (client_map cc)) /\ is_min (fst (fst r)) (mkeys (server_map sc))
  end.
Proof.
  intros HP HE r Hf Hne.
  destruct (server_pick_highest_common sc keys env HP) as (HA & HB & _). fold r in HA, HB.
  pose proof (common_or_disjoint (mkeys (server_map sc)) (parse_versions env)) as Dec.
  destruct (client_accept cc field) as [[v pc]|] eqn:EA.
  - apply client_accept_spec in EA. destruct EA as [E1 E2]. rewrite Hf in E1. inversion E1; subst v.
    assert (Hin : In (fst (fst r)) (parse_versions env)) by (apply HE, mget_In_keys; congruence).
    destruct Dec as [Hex|Hd].
    + destruct (HA Hex) as [(A & B & C) D]. repeat split; auto. apply HE; auto.
      intros w Hw Hwc. apply C; auto. apply HE; auto.
    + destruct (HB Hne Hd) as (_ & N & _). contradiction.
  - apply client_reject_spec in EA. destruct EA as [EA|[v [E1 E2]]]; [congruence|].
    rewrite Hf in E1. inversion E1; subst v.
    destruct Dec as [Hex|Hd].
    + destruct (HA Hex) as [(A & B & C) D]. exfalso. apply E2, HE; auto.
    + destruct (HB Hne Hd) as (M & _ & _). split; auto.
      intros w Hw Hc. apply (Hd w Hw). apply HE; auto.
Qed.

(* the oracle of the correspondence check accepts what the model computes *)
Lemma maxZ_spec l m : maxZ l = Some m -> In m l /\ forall w, In w l -> w <= m.
Proof.
  revert m; induction l as [|x r IH]; simpl; intros m H; [discriminate|].
  destruct (maxZ r) as [m'|] eqn:E.
  - inversion H; subst. destruct (IH m' eq_refl) as [A B]. split.
    + destruct (Z.max_spec x m') as [[_ ->]|[_ ->]]; auto.
    + intros w [<-|Hw]; [lia|specialize (B w Hw); lia].
  - inversion H; subst. destruct r; [|simpl in E; destruct (maxZ r); discriminate].
    split; auto. intros w [<-|[]]; lia.
Qed.
Lemma maxZ_none l : maxZ l = None -> l = [].
Proof. destruct l; simpl; auto. destruct (maxZ l); discriminate. Qed.
Lemma minZ_spec l m : minZ l = Some m -> In m l /\ forall w, In w l -> m <= w.
Proof.
  revert m; induction l as [|x r IH]; simpl; intros m H; [discriminate|].
  destruct (minZ r) as [m'|] eqn:E.
  - inversion H; subst. destruct (IH m' eq_refl) as [A B]. split.
    + destruct (Z.min_spec x m') as [[_ ->]|[_ ->]]; auto.
    + intros w [<-|Hw]; [lia|specialize (B w Hw); lia].
  - inversion H; subst. destruct r; [|simpl in E; destruct (minZ r); discriminate].
    split; auto. intros w [<-|[]]; lia.
Qed.
Lemma minZ_none l : minZ l = None -> l = [].
Proof. destruct l; simpl; auto. destruct (minZ l); discriminate. Qed.

Theorem expected_version_is_pick c env :
  fst (fst (server_pick c env)) = expected_version c env.
Proof.
  unfold server_pick, expected_version.
  destruct (server_pick_highest_common c (mkeys (server_map c)) env (Permutation_refl _)) as (HA & HB & HC).
  set (S := mkeys (server_map c)) in *. set (C := parse_versions env) in *.
  set (r := server_pick_keys c S env) in *.
  destruct (maxZ (filter (fun v => memZ v C) S)) as [m|] eqn:EM.
  - apply maxZ_spec in EM. destruct EM as [Hm Hmax]. apply filter_In in Hm. destruct Hm as [Hm1 Hm2].
    apply memZ_In in Hm2. destruct HA as [(A & B & D) _]; [exists m; auto|].
    assert (fst (fst r) <= m) by (apply Hmax, filter_In; split; auto; apply memZ_In; auto).
    specialize (D m Hm1 Hm2). lia.
  - apply maxZ_none in EM.
    destruct (minZ S) as [m|] eqn:Em.
    + apply minZ_spec in Em. destruct Em as [Hm Hmin].
      destruct HB as ([A B] & _ & _).
      * intros HS. rewrite HS in Hm. contradiction.
      * intros w Hw Hc. assert (In w (filter (fun v => memZ v C) S)) by (apply filter_In; split; auto; apply memZ_In; auto).
        rewrite EM in H. contradiction.
      * specialize (B m Hm). specialize (Hmin _ A). lia.
    + apply minZ_none in Em. rewrite (HC Em). reflexivity.
Qed.
