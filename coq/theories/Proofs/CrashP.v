From Coq Require Import List NArith ZArith Bool Lia.
From GP Require Import Base.Val Model.Crash.
Import ListNotations.
Local Open Scope Z_scope.

Section P.
Variable P : cparams.
Hypothesis Hdone : cp_start_done P = true.
Hypothesis Heof : cp_lines_eof P = true.
Hypothesis Hcancel : cp_wait_cancels P = true.
Variable tmax : Z.
Hypothesis Hma : exists t, cp_mux_accept_timer P = Some t /\ 0 <= t <= tmax.
Hypothesis Hgd : exists t, cp_grpc_dial_timer P = Some t /\ 0 <= t <= tmax.
Hypothesis Hgk : exists t, cp_grpc_knock_timer P = Some t /\ 0 <= t <= tmax.

(* every blocking wait of every public call is ended by the plugin's death or by a timer, and the call returns within
   the largest broker timer plus two OS delays -- Start in particular does not sit out its StartTimeout *)
Theorem calls_bounded : forall pr o eps tstart, 0 <= eps -> 0 <= tstart ->
  exists b, op_bound P eps tstart pr o = Some b /\ 0 <= b <= 1000 * tmax + 2 * eps.
Proof.
  intros pr o eps tstart He Ht.
  destruct Hma as (ta & Ea & Ha), Hgd as (td & Ed & Hd), Hgk as (tk & Ek & Hk).
  unfold op_bound, waits. rewrite Ea, Ed, Ek.
  destruct pr, o; cbn [fold_right wait_bound fires omin oplus timer_src app]; rewrite ?Heof, ?Hcancel;
    destruct (cp_start_timeout P); cbn [fold_right wait_bound fires omin oplus timer_src app]; rewrite ?Heof, ?Hcancel;
    cbn [omin]; eexists; (split; [reflexivity|]); lia.
Qed.

Theorem start_returns_at_once : forall pr eps tstart, 0 <= eps -> 0 <= tstart ->
  exists b, op_bound P eps tstart pr OStart = Some b /\ b <= eps.
Proof.
  intros pr eps tstart He Ht. unfold op_bound, waits.
  destruct (cp_start_timeout P); cbn [fold_right wait_bound fires omin oplus timer_src app]; rewrite ?Heof, ?Hcancel; cbn [omin];
    eexists; (split; [reflexivity|]); lia.
Qed.
End P.

(* a call that needs the plugin does block on something (the two layers of the model agree) *)
Theorem needs_means_waits P tstart pr st o : needs_plugin pr st o = true -> h_started st = true -> waits P tstart pr o <> [].
Proof.
  intros Hn Hs. destruct pr, o; cbn [needs_plugin waits] in *; rewrite ?Hs in Hn; cbn in Hn; try discriminate; try (intros X; discriminate X).
  - destruct (h_client st); discriminate.
Qed.

(* without the EOF close Start would sit out its whole timeout (the doneCtx arm cannot help: see Model/Crash.v); without the
   timeout as well, forever *)
Example start_unbounded_without_sources :
  op_bound {| cp_start_done := false; cp_start_timeout := false; cp_lines_eof := false; cp_wait_cancels := true; cp_wait_sets_exited := true;
              cp_grpc_ctx := true; cp_mux_accept_timer := Some 5; cp_grpc_dial_timer := Some 5; cp_grpc_knock_timer := Some 5 |} 100 60 PNet OStart = None.
Proof. reflexivity. Qed.

(* for every history of calls: what the outcome table accepts satisfies the property (returned in time; an error from
   every call issued after the death that needed the plugin) *)
Theorem table_implies_property : forall pr point ops st a p,
  monitor pr point st ops = Some (a, p) -> a = true -> p = true.
Proof.
  intros pr point ops. induction ops as [|[[[oz cls] slow] phase] rest IH]; intros st a p H Ha; cbn [monitor] in H.
  - inversion H; auto.
  - destruct (dop oz) as [o|]; [|discriminate].
    destruct (allowed pr point phase st o) as [okA errA] eqn:EA.
    destruct (monitor pr point (step_state st o (cls =? 0)) rest) as [[a' p']|] eqn:EM; [|discriminate].
    inversion H as [[H1 H2]]. clear H H2. rewrite Ha in H1.
    apply andb_true_iff in H1. destruct H1 as [Hacc Ha'].
    rewrite (IH _ _ _ EM Ha'). rewrite andb_true_r.
    apply andb_true_iff in Hacc. destruct Hacc as [Hc Hs]. rewrite Hs. rewrite andb_true_r.
    destruct (cls =? 0) eqn:C0.
    + apply Z.eqb_eq in C0. subst cls. change (0 =? 2) with false. cbn [negb andb].
      destruct (phase =? 2) eqn:P2; cbn [andb]; auto.
      destruct (point =? 2) eqn:Q2; cbn [negb andb]; auto.
      destruct (needs_plugin pr st o) eqn:N; auto.
      (* ok was accepted although the call needed the plugin: impossible *)
      unfold allowed in EA. apply Z.eqb_eq in P2. subst phase. change (2 =? 0) with false in EA. change (2 =? 1) with false in EA.
      cbn iota in EA. rewrite Q2 in EA.
      unfold allowed_after in EA. rewrite N in EA. inversion EA; subst. discriminate.
    + destruct (cls =? 1) eqn:C1; [|discriminate].
      apply Z.eqb_eq in C1. subst cls. change (1 =? 2) with false. change (1 =? 1) with true. cbn [negb andb].
      destruct ((phase =? 2) && negb (point =? 2) && needs_plugin pr st o); reflexivity.
Qed.
