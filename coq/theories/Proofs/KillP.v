From Coq Require Import List NArith ZArith Bool Lia.
From GP Require Import Base.Val Model.Kill.
Import ListNotations.

Section P.
Variable P : kparams.
Hypothesis Hdead : exists d, kp_rpc_deadline P = Some d /\ (0 <= d)%Z.
Hypothesis Hgrace : (0 <= kp_grace P)%Z.
Hypothesis Hka : (0 <= kp_keepalive P)%Z.
Hypothesis Hctx : kp_kill_ctx_fresh P = true.

Theorem kill_terminates pr b :
  let r := kill P pr b in
  k_returns r = true /\
  (0 <= k_budget r <= Z.max (kp_keepalive P) (match kp_rpc_deadline P with Some d => d | None => 0 end + kp_grace P))%Z /\
  (b <> NeverStarted -> b <> LaunchFailed -> k_exited r = true) /\
  (k_clean_exit r = true -> k_forced r = false) /\
  ((b = ExitsAtOnce \/ b = ExitsAfterDelay) -> k_forced r = false /\ k_clean_exit r = true) /\
  ((b = Ignores \/ b = Frozen \/ b = FailedHandshake) -> k_forced r = true).
Proof.
  destruct Hdead as [d [Hd Hd0]]. unfold kill, close_request. rewrite Hd, Hctx.
  destruct b, pr; simpl; repeat split; try lia; try congruence; try tauto;
    try (intros HH; repeat (destruct HH as [HH|HH]; try discriminate HH); try discriminate HH);
    try (exfalso; repeat match goal with H : _ \/ _ |- _ => destruct H end; discriminate).
Qed.

Theorem kill_idempotent pr b n r : In r (tl (kill_n P pr b n)) -> r = noop.
Proof.
  intros H. destruct n as [|m]; cbn in H; [destruct H|]. apply in_map_iff in H. destruct H as [x [H _]]. auto.
Qed.

End P.

(* without a deadline on the Shutdown request, Kill of a frozen gRPC plugin never returns *)
Theorem kill_unbounded_hangs g ka : k_returns (kill {| kp_grace := g; kp_rpc_deadline := None; kp_keepalive := ka; kp_kill_ctx_fresh := true |} KGRPC Frozen) = false.
Proof. reflexivity. Qed.

(* when the force kill is handed the context of the grace period, a plugin that acknowledged the request and stays is never
   killed by a runner that honours its context, and Kill does not return *)
Theorem kill_stale_ctx_leaves_process g d ka pr :
  let r := kill {| kp_grace := g; kp_rpc_deadline := Some d; kp_keepalive := ka; kp_kill_ctx_fresh := false |} pr Ignores in
  k_exited r = false /\ k_returns r = false.
Proof. destruct pr; split; reflexivity. Qed.
