From Coq Require Import List NArith ZArith Bool PeanoNat Lia.
From GP Require Import Base.Val Model.ClientOps.
Import ListNotations.

Section Env.
Variable lk : launch_kind.
Variable env : nat -> attempt.

Lemma step_address_stable s l a : address s = Some a -> address (fst (cl_step lk env s l)) = Some a.
Proof.
  intros H. destruct l; simpl; rewrite ?H; simpl; auto.
  - destruct (client s); simpl; auto.
  - destruct (runner_set s); simpl; auto.
Qed.

Lemma step_client_stable s l c : client s = Some c -> client (fst (cl_step lk env s l)) = Some c.
Proof.
  intros H. destruct l; simpl.
  - destruct (address s); simpl; auto. destruct lk, (cmd_used s); simpl; auto; destruct (env (launches s)); simpl; auto.
  - destruct (address s); simpl; auto. rewrite H. simpl. auto.
  - auto.
  - destruct (runner_set s); simpl; auto.
Qed.

Lemma run_address_stable ls : forall s a, address s = Some a -> address (fst (cl_run lk env s ls)) = Some a.
Proof.
  induction ls as [|l r IH]; intros s a H; simpl; auto.
  destruct (cl_step lk env s l) as [s1 x] eqn:E. specialize (IH s1 a).
  destruct (cl_run lk env s1 r) as [s2 xs]. simpl in *. apply IH.
  pose proof (step_address_stable s l a H) as X. rewrite E in X. exact X.
Qed.

Lemma run_client_stable ls : forall s c, client s = Some c -> client (fst (cl_run lk env s ls)) = Some c.
Proof.
  induction ls as [|l r IH]; intros s c H; simpl; auto.
  destruct (cl_step lk env s l) as [s1 x] eqn:E. specialize (IH s1 c).
  destruct (cl_run lk env s1 r) as [s2 xs]. simpl in *. apply IH.
  pose proof (step_client_stable s l c H) as X. rewrite E in X. exact X.
Qed.

(* whatever a step returns is what the state then holds *)
Lemma step_ret_addr s l a : snd (cl_step lk env s l) = RAddr a -> address (fst (cl_step lk env s l)) = Some a.
Proof.
  destruct l; simpl; try discriminate.
  - destruct (address s) eqn:EA; simpl; [intros H; inversion H; subst; auto|].
    destruct lk, (cmd_used s); simpl; try discriminate; destruct (env (launches s)); simpl; try discriminate; intros H; inversion H; auto.
  - destruct (address s); simpl; try discriminate. destruct (client s); simpl; discriminate.
  - destruct (runner_set s); simpl; discriminate.
Qed.
Lemma step_ret_client s l c : snd (cl_step lk env s l) = RClient c -> client (fst (cl_step lk env s l)) = Some c.
Proof.
  destruct l; simpl; try discriminate.
  - destruct (address s); simpl; try discriminate.
    destruct lk, (cmd_used s); simpl; try discriminate; destruct (env (launches s)); simpl; discriminate.
  - destruct (address s); simpl; try discriminate. destruct (client s) eqn:EC; simpl; intros H; inversion H; subst; auto.
  - destruct (runner_set s); simpl; discriminate.
Qed.

(* all successful Starts return the same address, all successful Clients the same client *)
Theorem returns_agree ls : forall s,
  let r := cl_run lk env s ls in
  (forall a, In (RAddr a) (snd r) -> address (fst r) = Some a) /\
  (forall c, In (RClient c) (snd r) -> client (fst r) = Some c).
Proof.
  induction ls as [|l rest IH]; intros s; simpl; [split; intros ? []|].
  destruct (cl_step lk env s l) as [s1 x] eqn:E.
  pose proof (IH s1) as [IA IC]. pose proof (run_address_stable rest s1) as SA. pose proof (run_client_stable rest s1) as SC.
  destruct (cl_run lk env s1 rest) as [s2 xs]. simpl in *. split.
  - intros a [->|H]; [|auto]. apply SA. pose proof (step_ret_addr s l a) as X. rewrite E in X. apply X. reflexivity.
  - intros c [->|H]; [|auto]. apply SC. pose proof (step_ret_client s l c) as X. rewrite E in X. apply X. reflexivity.
Qed.

Corollary same_address ls a b : In (RAddr a) (snd (cl_run lk env cl_init ls)) -> In (RAddr b) (snd (cl_run lk env cl_init ls)) -> a = b.
Proof. intros Ha Hb. destruct (returns_agree ls cl_init) as [A _]. pose proof (A a Ha). pose proof (A b Hb). congruence. Qed.
Corollary same_client ls a b : In (RClient a) (snd (cl_run lk env cl_init ls)) -> In (RClient b) (snd (cl_run lk env cl_init ls)) -> a = b.
Proof. intros Ha Hb. destruct (returns_agree ls cl_init) as [_ C]. pose proof (C a Ha). pose proof (C b Hb). congruence. Qed.

(* launches *)
Definition launch_inv (s : cl) : Prop :=
  match lk with
  | ByCmd => launches s = (if cmd_used s then 1 else 0)
  | ByRunnerFunc => (forall k, env k = AttemptOk) -> launches s = (match address s with Some _ => 1 | None => 0 end)
  end.

Lemma step_launch_inv s l : launch_inv s -> launch_inv (fst (cl_step lk env s l)).
Proof.
  unfold launch_inv. intros H. destruct l; simpl.
  - destruct (address s) eqn:EA; simpl; [destruct lk; simpl; rewrite ?EA; auto|].
    destruct lk.
    + destruct (cmd_used s) eqn:EC; simpl; [rewrite EC; auto|]. destruct (env (launches s)); simpl; lia.
    + destruct (cmd_used s); simpl; intros Hall; rewrite (Hall (launches s)); simpl; rewrite (H Hall); reflexivity.
  - destruct (address s) eqn:EA; simpl; [|destruct lk; simpl; rewrite ?EA; auto].
    destruct (client s); simpl; destruct lk; simpl; rewrite ?EA; auto.
  - auto.
  - destruct (runner_set s); simpl; auto.
Qed.

Theorem launch_once ls : launch_inv (fst (cl_run lk env cl_init ls)).
Proof.
  assert (G : forall ls s, launch_inv s -> launch_inv (fst (cl_run lk env s ls))).
  { clear ls. induction ls as [|l r IH]; intros s H; simpl; auto.
    destruct (cl_step lk env s l) as [s1 x] eqn:E. specialize (IH s1).
    destruct (cl_run lk env s1 r) as [s2 xs]. simpl in *. apply IH.
    pose proof (step_launch_inv s l H) as X. rewrite E in X. exact X. }
  apply G. unfold launch_inv, cl_init. destruct lk; simpl; auto.
Qed.

End Env.

Corollary launch_once_cmd env ls : launches (fst (cl_run ByCmd env cl_init ls)) <= 1.
Proof. pose proof (launch_once ByCmd env ls) as H. unfold launch_inv in H. rewrite H. destruct (cmd_used _); lia. Qed.

Corollary launch_once_runnerfunc env ls : (forall k, env k = AttemptOk) -> launches (fst (cl_run ByRunnerFunc env cl_init ls)) <= 1.
Proof. intros HA. pose proof (launch_once ByRunnerFunc env ls) as H. unfold launch_inv in H. rewrite (H HA). destruct (address _); lia. Qed.
