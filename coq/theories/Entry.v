(* Dispatcher from property number to the correspondence entry point of its model. *)
From Coq Require Import List ZArith.
From GP Require Import Base.Val Base.GoStrings Model.Secure Model.Negotiate Model.Handshake Model.Stderr Model.Env Model.Stdio Model.MuxBroker Model.MuxTimed Model.Serve Model.ClientOps Model.Kill Model.Reattach Model.Tls Model.Interop Model.Resources Model.Conc Model.Crash Model.StartFail Model.LaunchOpts Model.StartPipe Model.Params Generated.

Definition check_prop (p : Z) (inp obs : V) : verdict :=
  match p with
  | 13%Z => check_secure inp obs
  | 3%Z => check_crash gen_crash_params inp obs
  | 105%Z => check_startfail gen_sf_params inp obs
  | 205%Z => check_startpipe gen_lo_params gen_sf_params gen_hs_params inp obs
  | 106%Z => check_storm inp obs
  | 119%Z => check_startstorm inp obs
  | 18%Z => check_leftovers gen_res_params inp obs
  | 20%Z => check_conc nextid_atomic inp obs
  | 14%Z => check_interop inp obs
  | 114%Z => check_conflict gen_lo_params inp obs
  | 12%Z => check_mtls gen_tls_params inp obs
  | 15%Z => check_reattach inp obs
  | 4%Z => check_kill gen_kill_params inp obs
  | 19%Z => check_clientops inp obs
  | 16%Z => check_serve gen_sv_params inp obs
  | 6%Z => check_muxtimed gen_mux_params inp obs
  | 7%Z => check_grpctimed gen_grpc_params inp obs
  | 8%Z => check_grpctimed gen_grpc_params inp obs
  | 11%Z => check_stdio stdio_chunk inp obs
  | 111%Z => check_copychan stdio_chunk inp obs
  | 17%Z => check_env gen_env_params inp obs
  | 10%Z => check_stderr gen_sd_params inp obs
  | 110%Z => check_stdout gen_sd_params inp obs
  | 1%Z => check_handshake gen_hs_params inp obs
  | 2%Z => check_negotiate inp obs
  | 102%Z => check_clientver inp obs
  | 202%Z => check_negotiate2 inp obs
  | 100%Z => check_gostrings inp obs
  | _ => bad_case
  end.
