(* Dispatcher from property number to the correspondence entry point of its model. *)
From Coq Require Import List ZArith.
From GP Require Import Base.Val Model.Secure.

Definition check_prop (p : Z) (inp obs : V) : verdict :=
  match p with
  | 13%Z => check_secure inp obs
  | _ => bad_case
  end.
