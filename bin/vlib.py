"""Shared machinery of /verif/bin/check: builds, model/implementation runs, verdicts, evidence."""
import fcntl
import hashlib
import json
import os
import re
import subprocess
import sys
import time

VERIF = os.path.dirname(os.path.dirname(os.path.abspath(__file__)))
REPO = os.environ.get("VERIF_REPO", "/repo")
BUILD = os.path.join(VERIF, "build")
COQ = os.path.join(VERIF, "coq")
GOENV = dict(os.environ, GOFLAGS="-mod=mod", GOPROXY="off")
GOENV.pop("GOTOOLCHAIN", None)
GOENV.pop("GOSUMDB", None)

ALLOWED_AXIOMS = set()  # no axioms are expected; anything printed by Print Assumptions is reported

TRUSTED_BASE_COMMON = [
    "Coq 8.16.1 kernel (coqc, full .vo build via coq_makefile; vm_compute used, native_compute not used)",
    "Print Assumptions output for every property theorem is re-read on each run (expected: Closed under the global context)",
    "extraction: ExtrOcamlBasic only (Extract Inductive bool, option, unit, list, prod, sumbool, sumor); N/Z/positive/nat stay Coq datatypes; no Extract Constant",
    "OCaml 4.13.1 + ocaml/driver.ml (s-expression parsing/printing, decimal<->Z conversion)",
    "Coq-side decoders from the wire value type V to the typed models (Base/Val.v and the *_of_V functions) are glue, not verified",
    "translator harness/cmd/gosrc2v (go/ast fact extractor writing coq/theories/Generated.v)",
    "Go correspondence harness harness/cmd/hx (+ vplugin): scripted runner, observation projection, generators",
]


def log(*a):
    print(*a, file=sys.stderr, flush=True)


class Lock:
    def __init__(self, name):
        os.makedirs(BUILD, exist_ok=True)
        self.path = os.path.join(BUILD, "." + name + ".lock")

    def __enter__(self):
        self.f = open(self.path, "w")
        fcntl.flock(self.f, fcntl.LOCK_EX)
        return self

    def __exit__(self, *a):
        fcntl.flock(self.f, fcntl.LOCK_UN)
        self.f.close()


def run(cmd, cwd=None, env=None, timeout=None, stdin=None):
    t0 = time.time()
    try:
        p = subprocess.run(cmd, cwd=cwd, env=env, timeout=timeout, input=stdin,
                           stdout=subprocess.PIPE, stderr=subprocess.STDOUT, text=True, errors="replace")
        return p.returncode, p.stdout, time.time() - t0
    except subprocess.TimeoutExpired as e:
        out = e.stdout or ""
        if isinstance(out, bytes):
            out = out.decode("utf8", "replace")
        return 124, out + "\n[timeout after %ss]" % timeout, time.time() - t0


# ---------------------------------------------------------------- builds

def go_build_atomic(pkg, out_path, extra=(), timeout=1200):
    """go build into a temporary file, then rename over the target only when the bytes differ: a check running at the
    same time keeps executing the binary it started with and never meets a half-written or busy file."""
    tmp = "%s.tmp.%d" % (out_path, os.getpid())
    rc, out, _ = run(["go", "build"] + list(extra) + ["-o", tmp, pkg], cwd=os.path.join(VERIF, "harness"), env=GOENV, timeout=timeout)
    if rc != 0:
        try:
            os.remove(tmp)
        except OSError:
            pass
        return rc, out
    same = False
    if os.path.exists(out_path) and os.path.getsize(out_path) == os.path.getsize(tmp):
        with open(out_path, "rb") as a, open(tmp, "rb") as b:
            same = a.read() == b.read()
    if same:
        os.remove(tmp)
    else:
        os.replace(tmp, out_path)
    return 0, out


def gen_facts():
    """Regenerate coq/theories/Generated.v from /repo's working tree (only rewritten when changed)."""
    gs = os.path.join(BUILD, "gosrc2v")
    with Lock("go"):
        rc, out = go_build_atomic("./cmd/gosrc2v", gs, timeout=600)
    if rc != 0:
        return False, "gosrc2v build failed:\n" + out
    target = os.path.join(COQ, "theories", "Generated.v")
    rc, out, _ = run([gs, "-repo", REPO], timeout=120)
    if rc != 0:
        return False, "gosrc2v failed on the current tree (a pattern it extracts facts from is gone):\n" + out
    old = open(target).read() if os.path.exists(target) else None
    if old != out:
        with open(target, "w") as f:
            f.write(out)
    return True, out


def coq_make(targets, timeout=1500):
    """Full .vo build of the given targets (relative to coq/). Returns (ok, log)."""
    with Lock("coq"):
        if not os.path.exists(os.path.join(COQ, "Makefile")) or \
                os.path.getmtime(os.path.join(COQ, "Makefile")) < os.path.getmtime(os.path.join(COQ, "_CoqProject")):
            rc, out, _ = run(["coq_makefile", "-f", "_CoqProject", "-o", "Makefile"], cwd=COQ, timeout=60)
            if rc != 0:
                return False, out
        rc, out, _ = run(["make", "-j16"] + targets, cwd=COQ, timeout=timeout)
        return rc == 0, out


def theorems_of(prop):
    """Names of the theorems stated in Props/<prop>.v (statements only live there)."""
    src = open(os.path.join(COQ, "theories", "Props", prop + ".v")).read()
    src = re.sub(r"\(\*.*?\*\)", "", src, flags=re.S)
    return re.findall(r"^\s*(?:Theorem|Corollary|Lemma)\s+([A-Za-z0-9_']+)", src, flags=re.M)


def print_assumptions(prop, names):
    """Ask coqc for Print Assumptions of each theorem. Returns dict name -> 'closed' | [axioms] | None(on error)."""
    os.makedirs(os.path.join(BUILD, "assume"), exist_ok=True)
    f = os.path.join(BUILD, "assume", "Assume_%s.v" % prop)
    with open(f, "w") as fh:
        fh.write("From GP Require Import Props.%s.\n" % prop)
        for n in names:
            fh.write('Goal True. idtac "@@BEGIN %s". Abort.\nPrint Assumptions %s.\nGoal True. idtac "@@END %s". Abort.\n' % (n, n, n))
    rc, out, _ = run(["coqc", "-Q", os.path.join(COQ, "theories"), "GP", f], cwd=os.path.join(BUILD, "assume"), timeout=300)
    res = {}
    for n in names:
        m = re.search(r"@@BEGIN %s\n(.*?)@@END %s" % (re.escape(n), re.escape(n)), out, flags=re.S)
        if not m:
            res[n] = None
            continue
        body = m.group(1).strip()
        if "Closed under the global context" in body:
            res[n] = "closed"
        else:
            res[n] = [l.strip() for l in body.splitlines() if l.strip() and not l.startswith("Axioms:")]
    return res, out


def build_ocaml():
    """Extract the models and build build/modelrun. Rebuilt when Entry.vo is newer than the binary."""
    with Lock("ocaml"):
        exe = os.path.join(BUILD, "modelrun")
        entry = os.path.join(COQ, "theories", "Entry.vo")
        drv = os.path.join(VERIF, "ocaml", "driver.ml")
        if os.path.exists(exe) and os.path.exists(entry) and \
                os.path.getmtime(exe) >= max(os.path.getmtime(entry), os.path.getmtime(drv)):
            return True, ""
        od = os.path.join(VERIF, "ocaml")
        rc, out, _ = run(["coqc", "-Q", os.path.join(COQ, "theories"), "GP", os.path.join(COQ, "extract", "Extract.v")], cwd=od, timeout=600)
        for junk in ("Extract.vo", "Extract.glob", ".Extract.aux", "Extract.vok", "Extract.vos"):
            try:
                os.remove(os.path.join(COQ, "extract", junk))
            except OSError:
                pass
        if rc != 0:
            return False, out
        rc, out2, _ = run(["ocamlfind", "ocamlopt", "-O3", "-w", "-a", "model.mli", "model.ml", "driver.ml", "-o", exe + ".tmp"], cwd=od, timeout=600)
        if rc != 0:
            rc, out2, _ = run(["ocamlfind", "ocamlopt", "-w", "-a", "model.mli", "model.ml", "driver.ml", "-o", exe + ".tmp"], cwd=od, timeout=600)
        if rc != 0:
            return False, out + out2
        os.replace(exe + ".tmp", exe)
        return True, out + out2


def build_go(tags="verif", race=False):
    """Build hx and vplugin against /repo's current working tree."""
    suffix = "-race" if race else ""
    with Lock("go"):
        outs = []
        for name in ("hx", "vplugin"):
            d = os.path.join(VERIF, "harness", "cmd", name)
            if not os.path.isdir(d):
                continue
            extra = ["-tags", tags] + (["-race"] if race else [])
            rc, out = go_build_atomic("./cmd/" + name, os.path.join(BUILD, name + suffix), extra)
            outs.append(out)
            if rc != 0:
                return False, "\n".join(outs)
        return True, "\n".join(outs)


# ---------------------------------------------------------------- running cases

def run_model(lines_path):
    """Feed a .lines file to modelrun. Returns dict id -> verdict dict."""
    exe = os.path.join(BUILD, "modelrun")
    with open(lines_path) as f:
        p = subprocess.run([exe], stdin=f, stdout=subprocess.PIPE, stderr=subprocess.PIPE, text=True, timeout=3600)
    res = {}
    for ln in p.stdout.splitlines():
        parts = ln.split("\t")
        if len(parts) == 4:
            d, a, oi, om = parts[1].split(" ")
            res[parts[0]] = {"decoded": d == "1", "agree": a == "1", "oracle_impl": oi == "1",
                             "oracle_model": om == "1", "model_obs": parts[2], "branch": parts[3]}
        else:
            res[parts[0]] = {"decoded": False, "agree": False, "oracle_impl": False, "oracle_model": False,
                             "model_obs": "", "branch": "", "error": ln}
    if p.returncode != 0:
        res["__error__"] = {"error": p.stderr[-2000:]}
    return res


def read_lines(lines_path):
    out = []
    with open(lines_path) as f:
        for ln in f:
            ln = ln.rstrip("\n")
            if not ln:
                continue
            prop, cid, inp, obs = ln.split("\t")
            out.append({"prop": prop, "id": cid, "input": inp, "obs": obs})
    return out


def read_meta(meta_path):
    m = {}
    if os.path.exists(meta_path):
        with open(meta_path) as f:
            for ln in f:
                try:
                    d = json.loads(ln)
                    m[d["id"]] = d["case"]
                except Exception:
                    pass
    return m


def short(s, n=300):
    s = str(s)
    return s if len(s) <= n else s[:n] + "...(%d chars)" % len(s)


# ---------------------------------------------------------------- known findings

def load_known():
    p = os.path.join(VERIF, "known_findings.json")
    if not os.path.exists(p):
        return []
    return json.load(open(p)).get("findings", [])


def match_known(prop, family, case_meta, known):
    """A finding matches when property and family agree and every key of its 'match' dict equals
    (or regex-matches, for values starting with 're:') the corresponding field of the case description."""
    for k in known:
        if k.get("property") != prop or k.get("status") != "open":
            continue
        if k.get("family") and k.get("family") != family:
            continue
        ok = True
        for key, want in (k.get("match") or {}).items():
            have = case_meta
            for part in key.split("."):
                have = have.get(part) if isinstance(have, dict) else None
            if isinstance(want, str) and want.startswith("re:"):
                if have is None or not re.search(want[3:], str(have)):
                    ok = False
            elif have != want:
                ok = False
        if ok:
            return k
    return None


# ---------------------------------------------------------------- evidence / replay

def write_json(path, obj):
    os.makedirs(os.path.dirname(path), exist_ok=True)
    tmp = path + ".tmp"
    with open(tmp, "w") as f:
        json.dump(obj, f, indent=1, sort_keys=True)
        f.write("\n")
    os.replace(tmp, path)


def write_replay(prop, seed, payload):
    d = os.path.join(VERIF, "replays")
    os.makedirs(d, exist_ok=True)
    h = hashlib.sha1(json.dumps(payload, sort_keys=True, default=str).encode()).hexdigest()[:8]
    p = os.path.join(d, "%s-%s-%s.json" % (prop, seed, h))
    write_json(p, payload)
    return p
