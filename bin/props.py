"""Per-property configuration of bin/check: case families, evidence texts."""

PROPS = {
    "C13": {
        "families": [("secure", [])],
        "rule": "real Client.Start with a Cmd pointing at a generated shell script (creates a marker when executed) and a SecureConfig; "
                "checksum variants: exact, single-bit flips of a SHA-256 digest, every proper prefix, 1-4 trailing bytes, random, other hash, suffix, empty/nil; "
                "hashes sha256/sha1/md5/sha512/nil, pre-written hash state, missing file; a case is distinct by its (checksum, hash present, file ok, digest) tuple",
        "assumptions": [
            "the hash function and the file system are oracles: the model is given the digest the real hash returns for the file",
            "launch is observed through the marker file written by the executed script",
        ],
        "trusted": ["crypto hash implementations (digest supplied to the model)", "os/exec launching the script"],
        "facts": [],
    },
    "C02": {
        "families": [("negotiate", []), ("clientver", []), ("gostrings", [])],
        "rule": "negotiate: protocolVersion called in-process (verif_export) for generated serve configs (legacy fields, versioned maps with "
                "version 0 / negative / large, net-rpc / gRPC / empty sets, factory on/off) x PLUGIN_PROTOCOL_VERSIONS lists (permuted, duplicated, "
                "garbage items, empty); clientver: Client.Start through a scripted runner fed the announced version field; gostrings: strings.Split/"
                "TrimSpace, strconv.Atoi/ParseBool/Itoa against their Coq models; distinct = distinct input tuples",
        "assumptions": [
            "plugin sets are homogeneous (all members net/rpc or all gRPC), as the code comment requires; mixed sets make the protocol depend on map iteration order and are not generated",
            "Go's sort.Sort result is modelled by insertion sort; strings.Split/strconv.Atoi by Base/GoStrings.v (checked by the gostrings family on every run)",
        ],
        "trusted": ["os.Setenv/os.Getenv for PLUGIN_PROTOCOL_VERSIONS in the in-process call"],
        "facts": [],
    },
}
