"""Per-property configuration of bin/check: case families, evidence texts."""

PROPS = {
    "C13": {
        "families": [("secure", [])],
        "rule": "real Client.Start with a Cmd pointing at a generated shell script (creates a marker when executed) and a SecureConfig; "
                "checksum variants: exact, single-bit flips of a SHA-256 digest, every proper prefix, 1-4 trailing bytes, random, other hash, suffix, empty/nil; "
                "hashes sha256/sha1/md5/sha512/nil, pre-written hash state, missing file; a case is distinct by its (checksum, hash present, file ok, digest) tuple",
        "assumptions": [
            "the hash function and the file system are oracles: the model is given the digest the real hash returns for the file",
            "launch is observed through the marker file written by the executed script",
        ],
        "trusted": ["crypto hash implementations (digest supplied to the model)", "os/exec launching the script"],
        "facts": [],
    },
}
